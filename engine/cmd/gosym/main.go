// Command gosym is the driver of the solver-based checks in /verif.
package main

import (
	"encoding/json"
	"flag"
	"fmt"
	"os"
	"strings"
	"time"

	"gosym/interp"
)

func usage() {
	fmt.Fprintln(os.Stderr, `usage:
  gosym check <ID> [--tier quick|thorough]
  gosym run --harness <file.go>[,<file.go>...] [--func Name] [--tier quick] [--trace]
  gosym replay <dir>`)
	os.Exit(2)
}

func main() {
	if len(os.Args) < 2 {
		usage()
	}
	switch os.Args[1] {
	case "run":
		os.Exit(cmdRun(os.Args[2:]))
	case "check":
		os.Exit(cmdCheck(os.Args[2:]))
	case "replay":
		os.Exit(cmdReplay(os.Args[2:]))
	default:
		usage()
	}
}

func envOr(k, d string) string {
	if v := os.Getenv(k); v != "" {
		return v
	}
	return d
}

func cmdRun(args []string) int {
	fs := flag.NewFlagSet("run", flag.ExitOnError)
	harness := fs.String("harness", "", "comma-separated harness source files")
	fn := fs.String("func", "", "harness function (default: all //gosym:harness functions)")
	tier := fs.String("tier", "quick", "quick or thorough")
	trace := fs.Bool("trace", false, "trace interpreted calls")
	workers := fs.Int("workers", 0, "worker count")
	maxPaths := fs.Int("max-paths", 0, "path limit")
	deadline := fs.Duration("deadline", 10*time.Minute, "exploration deadline")
	verbose := fs.Bool("v", false, "verbose")
	validate := fs.Bool("validate", false, "validate sampled paths natively")
	fs.Parse(args)
	if *harness == "" {
		usage()
	}
	root := envOr("VERIF_ROOT", "/verif")
	repo := envOr("VERIF_REPO", "/repo")
	set, err := interp.LoadHarnessFiles(strings.Split(*harness, ","))
	if err != nil {
		fmt.Fprintln(os.Stderr, "gosym:", err)
		return 2
	}
	cfg := interp.Config{Workers: *workers, MaxPaths: *maxPaths, Deadline: *deadline, Trace: *trace,
		Verbose: *verbose, ModulePrefix: "github.com/crossplane/crossplane"}
	sess, err := interp.NewSession(root, repo, set, *tier, cfg)
	if err != nil {
		fmt.Fprintln(os.Stderr, "gosym:", err)
		return 2
	}
	fmt.Fprintf(os.Stderr, "gosym: loaded %d packages in %s\n", sess.Loaded.NumPkgs, sess.Loaded.LoadTime.Round(time.Millisecond))
	status := 0
	for _, h := range set.Harnesses {
		if *fn != "" && h.Func != *fn {
			continue
		}
		rep, err := sess.Explore(h)
		if err != nil {
			fmt.Fprintln(os.Stderr, "gosym:", err)
			return 2
		}
		printReport(rep)
		if *validate {
			res, err := sess.ValidatePaths(h, rep, 64)
			fmt.Fprintf(os.Stderr, "validate: %+v err=%v\n", res, err)
		}
		if len(rep.Violations) > 0 {
			status = 1
		} else if len(rep.Inconclusive) > 0 && status == 0 {
			status = 2
		}
	}
	return status
}

func printReport(r *interp.Report) {
	type out struct {
		Harness      string
		Paths        int
		Completed    int
		Outcomes     map[string]int
		Decisions    int
		Covers       map[string]int
		Asserts      map[string]int
		Unsupported  map[string]int
		Panics       map[string]int
		Inconclusive []string
		Violations   []interp.Violation
		Solver       interp.SolverStats
		AssertQ      [4]int
		Wall         string
		Funcs        int
		InitFailures map[string]string
		MaxPathSteps int64
	}
	o := out{r.Harness, r.Paths, r.Completed, r.Outcomes, r.Decisions, r.Covers, r.Asserts, r.Unsupported, r.Panics,
		r.Inconclusive, r.Violations, r.Solver, [4]int{r.AssertQueries, r.AssertSat, r.AssertUnsat, r.AssertUnknown},
		r.Wall.String(), len(r.Funcs), r.InitFailures, r.MaxPathSteps}
	if len(o.Violations) > 5 {
		o.Violations = o.Violations[:5]
	}
	b, _ := json.MarshalIndent(o, "", "  ")
	fmt.Println(string(b))
}
