package main

import (
	"encoding/json"
	"flag"
	"fmt"
	"os"
	"os/exec"
	"path/filepath"
	"sort"
	"strconv"
	"strings"
	"time"

	"gosym/interp"
)

// CheckSpec is /verif/harness/<ID>/check.json.
type CheckSpec struct {
	PropertyID     string            `json:"property_id"`
	Title          string            `json:"title"`
	Bounds         map[string]string `json:"bounds"` // tier -> text
	Assumptions    []string          `json:"assumptions"`
	NotCovered     []string          `json:"not_covered"`
	Files          []string          `json:"files"`    // harness files relative to the check dir
	Deadline       map[string]string `json:"deadline"` // tier -> duration
	MaxPaths       map[string]int    `json:"max_paths"`
	Validate       map[string]int    `json:"validate"` // tier -> number of paths validated natively per harness
	StepLimit      int64             `json:"step_limit"`
	Solver         string            `json:"solver"` // z3 (default), z3-new, cvc5
	QueryTimeoutMs int               `json:"query_timeout_ms"`
}

type knownFinding struct {
	Kind     string // known | fixed
	Property string
	Key      string // harness/label
	Text     string
}

func readKnownFindings(root string) []knownFinding {
	data, err := os.ReadFile(filepath.Join(root, "known_findings.txt"))
	if err != nil {
		return nil
	}
	var out []knownFinding
	for _, line := range strings.Split(string(data), "\n") {
		line = strings.TrimSpace(line)
		if line == "" || strings.HasPrefix(line, "#") {
			continue
		}
		var kf knownFinding
		switch {
		case strings.HasPrefix(line, "known:"):
			kf.Kind = "known"
			line = strings.TrimSpace(strings.TrimPrefix(line, "known:"))
		case strings.HasPrefix(line, "fixed:"):
			kf.Kind = "fixed"
			line = strings.TrimSpace(strings.TrimPrefix(line, "fixed:"))
		default:
			continue
		}
		fields := strings.Fields(line)
		rest := []string{}
		for _, f := range fields {
			switch {
			case strings.HasPrefix(f, "property=") && kf.Property == "":
				kf.Property = strings.TrimPrefix(f, "property=")
			case strings.HasPrefix(f, "key=") && kf.Key == "":
				kf.Key = strings.TrimPrefix(f, "key=")
			default:
				rest = append(rest, f)
			}
		}
		kf.Text = strings.Join(rest, " ")
		out = append(out, kf)
	}
	return out
}

type harnessEvidence struct {
	Harness      string         `json:"harness"`
	Paths        int            `json:"paths"`
	Completed    int            `json:"completed_paths"`
	Outcomes     map[string]int `json:"path_outcomes"`
	Decisions    int            `json:"decisions"`
	Covers       map[string]int `json:"cover_labels"`
	Asserts      map[string]int `json:"assertions_checked"`
	Assumes      map[string]int `json:"assumptions_applied,omitempty"`
	Panics       map[string]int `json:"panic_paths,omitempty"`
	Unsupported  map[string]int `json:"unsupported_hits,omitempty"`
	Validated    int            `json:"paths_validated_natively"`
	WallS        float64        `json:"wall_s"`
	MaxPathSteps int64          `json:"max_path_steps"`
	GoStmts      int            `json:"go_statements_seen,omitempty"`
	Notes        map[string]int `json:"notes_failed_paths,omitempty"`
}

func cmdCheck(args []string) int {
	fs := flag.NewFlagSet("check", flag.ExitOnError)
	tier := fs.String("tier", envOr("VERIF_TIER", "quick"), "quick or thorough")
	only := fs.String("func", "", "run only this harness (debugging; evidence is still written)")
	workers := fs.Int("workers", 0, "worker count")
	verbose := fs.Bool("v", false, "verbose")
	noValidate := fs.Bool("no-validate", false, "skip native path validation (debugging)")
	var id string
	if len(args) > 0 && !strings.HasPrefix(args[0], "-") {
		id = args[0]
		args = args[1:]
	}
	fs.Parse(args)
	if id == "" && fs.NArg() > 0 {
		id = fs.Arg(0)
	}
	if id == "" {
		usage()
	}
	seed, _ := strconv.ParseInt(envOr("VERIF_SEED", "0"), 10, 64)
	root := envOr("VERIF_ROOT", "/verif")
	repo := envOr("VERIF_REPO", "/repo")
	start := time.Now()
	dir := filepath.Join(root, "harness", id)
	var spec CheckSpec
	data, err := os.ReadFile(filepath.Join(dir, "check.json"))
	if err != nil {
		fmt.Println("INCONCLUSIVE reason=" + err.Error())
		return 2
	}
	if err := json.Unmarshal(data, &spec); err != nil {
		fmt.Println("INCONCLUSIVE reason=check.json: " + err.Error())
		return 2
	}
	var files []string
	for _, f := range spec.Files {
		files = append(files, filepath.Join(dir, f))
	}
	set, err := interp.LoadHarnessFiles(files)
	if err != nil {
		fmt.Println("INCONCLUSIVE reason=" + err.Error())
		return 2
	}
	deadline := 10 * time.Minute
	if d, ok := spec.Deadline[*tier]; ok {
		if dd, err := time.ParseDuration(d); err == nil {
			deadline = dd
		}
	}
	cfg := interp.Config{Workers: *workers, Deadline: deadline, MaxPaths: spec.MaxPaths[*tier], Verbose: *verbose,
		ModulePrefix: "github.com/crossplane/crossplane", Seed: seed, StepLimit: spec.StepLimit,
		Solver: spec.Solver, QueryTimeoutMs: spec.QueryTimeoutMs}
	// "holds" verdicts are sampled for a second opinion from the other z3
	// build: every 40th in the quick tier, every 10th in the thorough tier
	cfg.CrossCheckEvery = 40
	if *tier == "thorough" {
		cfg.CrossCheckEvery = 10
	}
	nValidate := 32
	if n, ok := spec.Validate[*tier]; ok {
		nValidate = n
	}
	if v, err := strconv.Atoi(os.Getenv("GOSYM_VALIDATE")); err == nil && v > 0 {
		nValidate = v // exploratory runs: a larger native validation sample
	}
	cfg.KeepPaths = nValidate
	if cfg.KeepPaths < 8 {
		cfg.KeepPaths = 8
	}
	work := filepath.Join(root, "work", id+"-"+*tier+os.Getenv("GOSYM_WORK_SUFFIX")) // suffix: concurrent exploratory runs of one check
	os.RemoveAll(work)
	os.MkdirAll(work, 0o755)
	if os.Getenv("GOSYM_KEEP_WORK") == "" {
		defer os.RemoveAll(work)
	}

	evidencePath := filepath.Join(root, "evidence", id+".json")
	os.MkdirAll(filepath.Dir(evidencePath), 0o755)

	var inconclusive []string
	var violationLines []string
	var knownLines []string
	var hev []harnessEvidence
	funcs := map[string]bool{}
	blocks := map[string]bool{} // GOSYM_COVERAGE
	intrinsics := map[string]bool{}
	var samples []interface{}
	tot := struct {
		states, transitions, validated, feasQ, assertQ, assertSat, assertUnsat, assertUnknown, solverErrors, solverUnknown, solverFallbacks, solverHangs, crossChecked, crossDisagree int
		solverTime                                                                                                                                                       time.Duration
	}{}
	writeEvidence := func(status string) {
		if os.Getenv("GOSYM_NO_EVIDENCE") != "" {
			return // exploratory run (coverage, debugging): leave the evidence of the last full run alone
		}
		ev := map[string]interface{}{
			"property_id": spec.PropertyID,
			"tier":        *tier,
			"seed":        seed,
			"level":       "model_checking",
			"wall_s":      time.Since(start).Seconds(),
			"violations":  len(violationLines),
			"assumptions": spec.Assumptions,
			"coverage": map[string]interface{}{
				"states":                        tot.states,
				"transitions":                   tot.transitions,
				"traces_validated_against_impl": tot.validated,
				"samples":                       samples,
				"technique":                     "bounded symbolic execution of the go/ssa form of the real functions (forking interpreter), every branch and assertion decided by z3 over pipes; counterexamples replayed natively",
				"status":                        status,
				"functions_encoded":             sortedSet(funcs),
				"intrinsics_used":               sortedSet(intrinsics),
				"bounds":                        spec.Bounds[*tier],
				"not_covered":                   spec.NotCovered,
				"harnesses":                     hev,
				"queries": map[string]int{
					"feasibility": tot.feasQ, "assertion": tot.assertQ, "assertion_sat": tot.assertSat,
					"assertion_unsat": tot.assertUnsat, "assertion_unknown": tot.assertUnknown,
					"solver_unknown": tot.solverUnknown, "second_solver_queries": tot.solverFallbacks, "solver_restarts_after_no_answer": tot.solverHangs, "unsat_verdicts_cross_checked": tot.crossChecked, "cross_check_disagreements": tot.crossDisagree, "solver_error_lines": tot.solverErrors,
				},
				"solver_time_s":  tot.solverTime.Seconds(),
				"solvers":        []string{"z3 4.8.12 (/usr/bin/z3 -in)"},
				"inconclusive":   inconclusive,
				"known_findings": knownLines,
				"explanation":    "states = symbolic paths explored to completion; transitions = decision points resolved by the solver along them; traces_validated_against_impl = sampled paths whose solver model was run natively (go test, real libraries) and whose observations matched the symbolic run",
			},
		}
		b, _ := json.MarshalIndent(ev, "", " ")
		os.WriteFile(evidencePath, b, 0o644)
	}
	if tot.states == 0 {
		// schema wants >= 1 once we are done; a failed load writes no evidence
	}

	sess, err := interp.NewSession(root, repo, set, *tier, cfg)
	if err != nil {
		fmt.Println("INCONCLUSIVE reason=harness does not load against the current tree: " + firstLine(err.Error()))
		fmt.Fprintln(os.Stderr, err)
		return 2
	}
	sess.Work = work
	fmt.Fprintf(os.Stderr, "gosym: %s %s: loaded %d packages in %s\n", id, *tier, sess.Loaded.NumPkgs, sess.Loaded.LoadTime.Round(time.Millisecond))
	known := readKnownFindings(root)

	type pendingViol struct {
		h interp.Harness
		v interp.Violation
	}
	var pending []pendingViol
	type valJob struct {
		h   interp.Harness
		rep *interp.Report
	}
	var valJobs []valJob

	for _, h := range set.Harnesses {
		if *only != "" && h.Func != *only {
			continue
		}
		if len(h.Tiers) > 0 && !contains(h.Tiers, *tier) {
			continue
		}
		hs := time.Now()
		rep, err := sess.Explore(h)
		if err != nil {
			inconclusive = append(inconclusive, h.Func+": "+err.Error())
			continue
		}
		he := harnessEvidence{Harness: h.Func, Paths: rep.Paths, Completed: rep.Completed, Outcomes: rep.Outcomes,
			Decisions: rep.Decisions, Covers: rep.Covers, Asserts: rep.Asserts, Assumes: rep.Assumes, Panics: rep.Panics,
			Unsupported: rep.Unsupported, MaxPathSteps: rep.MaxPathSteps, GoStmts: rep.GoStmts, Notes: rep.Notes}
		for n, k := range rep.Notes {
			fmt.Printf("NOTE property=%s %s/%s can fail on %d paths (stronger than the property; not a violation)\n", spec.PropertyID, h.Func, n, k)
		}
		for _, f := range rep.Funcs {
			funcs[f] = true
		}
		for b, hit := range rep.Blocks {
			blocks[b] = blocks[b] || hit
		}
		for _, f := range rep.IntrinsicsUsed {
			intrinsics[f] = true
		}
		tot.states += rep.Completed
		tot.transitions += rep.Decisions
		tot.feasQ += rep.FeasQueries
		tot.assertQ += rep.AssertQueries
		tot.assertSat += rep.AssertSat
		tot.assertUnsat += rep.AssertUnsat
		tot.assertUnknown += rep.AssertUnknown
		tot.crossChecked += rep.CrossChecked
		tot.crossDisagree += rep.CrossDisagree
		tot.solverErrors += rep.Solver.Errors
		tot.solverFallbacks += rep.Solver.Fallbacks
		tot.solverHangs += rep.Solver.Hangs
		tot.solverUnknown += rep.Solver.Unknown
		tot.solverTime += rep.Solver.Time
		for _, m := range rep.Inconclusive {
			inconclusive = append(inconclusive, h.Func+": "+m)
		}
		// one violation per (harness,label) is replayed
		seen := map[string]bool{}
		for _, v := range rep.Violations {
			if !seen[v.Label] {
				seen[v.Label] = true
				pending = append(pending, pendingViol{h, v})
			}
		}
		if h.Panics {
			for _, p := range rep.Samples {
				if p.Outcome == "panic" && !seen["no-panic"] && p.Model != nil {
					seen["no-panic"] = true
					pending = append(pending, pendingViol{h, interp.Violation{Label: "no-panic", Harness: h.Func, Model: p.Model, Decisions: p.Decisions, Detail: p.Detail}})
				}
			}
			if len(rep.Panics) > 0 && !seen["no-panic"] {
				inconclusive = append(inconclusive, h.Func+": panic path found but no model was kept for replay")
			}
		}
		for k, p := range rep.Samples {
			if k < 3 {
				samples = append(samples, map[string]interface{}{
					"harness": h.Func, "decisions": decisionsText(p.Decisions), "inputs_model": p.Model,
					"observations": obsText(p.Obs), "covers": p.Covers, "outcome": p.Outcome,
				})
			}
		}
		valJobs = append(valJobs, valJob{h, rep})
		he.WallS = time.Since(hs).Seconds()
		hev = append(hev, he)
		fmt.Fprintf(os.Stderr, "gosym: %s: %d paths (%v), %d decisions, %d assertion queries (%d sat), %s\n",
			h.Func, rep.Paths, rep.Outcomes, rep.Decisions, rep.AssertQueries, rep.AssertSat, time.Since(hs).Round(time.Millisecond))
	}

	if dir := os.Getenv("GOSYM_COVERAGE"); dir != "" {
		var miss, hits []string
		hit := 0
		for b, h := range blocks {
			if h {
				hit++
				hits = append(hits, "+ "+b)
			} else {
				miss = append(miss, b)
			}
		}
		sort.Strings(miss)
		sort.Strings(hits)
		_ = os.MkdirAll(dir, 0o755)
		_ = os.WriteFile(filepath.Join(dir, spec.PropertyID+".hits"), []byte(strings.Join(hits, "\n")+"\n"), 0o644)
		out := fmt.Sprintf("# %s %s: %d of %d blocks of the executed module functions were executed; never executed:\n%s\n", spec.PropertyID, *tier, hit, len(blocks), strings.Join(miss, "\n"))
		_ = os.MkdirAll(dir, 0o755)
		_ = os.WriteFile(filepath.Join(dir, spec.PropertyID+".txt"), []byte(out), 0o644)
	}

	// translator validation: sampled paths are re-run natively
	if !*noValidate && nValidate > 0 {
		for k, j := range valJobs {
			res, err := sess.ValidatePaths(j.h, j.rep, nValidate)
			if err != nil {
				inconclusive = append(inconclusive, j.h.Func+": native validation run failed: "+firstLine(err.Error()))
				fmt.Fprintln(os.Stderr, err)
				continue
			}
			tot.validated += res.Checked
			for i := range hev {
				if hev[i].Harness == j.h.Func {
					hev[i].Validated = res.Checked
				}
			}
			for _, m := range res.Mismatches {
				inconclusive = append(inconclusive, "ENGINE-MISMATCH "+j.h.Func+": "+m)
			}
			_ = k
		}
	}

	// replay counterexamples natively; only reproduced ones are violations
	for _, pv := range pending {
		rdir := filepath.Join(root, "replays", id, pv.h.Func+"-"+sanitize(pv.v.Label))
		os.RemoveAll(rdir)
		cases := []interp.NativeCase{{ID: "cex", Harness: pv.h.Func, Tier: *tier, Values: pv.v.Model}}
		// The engine iterates Go maps in insertion order; natively the order is
		// random per run. A counterexample that needs a particular order is
		// replayed up to six times before it is given up as not reproducible.
		var o interp.NativeOutcome
		reproduced, ran := false, false
		var err error
		tries := 6
		if len(pv.h.MapOrders) > 0 {
			// the harness explores map iteration orders the native run
			// cannot be steered into: give the random order more chances
			tries = 40
		}
		for try := 0; try < tries && !reproduced; try++ {
			var outs []interp.NativeOutcome
			outs, err = sess.RunNative(pv.h.Pkg, cases, rdir)
			if err != nil || len(outs) != 1 {
				break
			}
			ran = true
			o = outs[0]
			reproduced = contains(o.FailedAsserts, pv.v.Label) || (pv.v.Label == "no-panic" && o.Panic != "")
		}
		if !ran {
			inconclusive = append(inconclusive, fmt.Sprintf("ENGINE-MISMATCH %s/%s: native replay could not run: %v", pv.h.Func, pv.v.Label, err))
			continue
		}
		meta, _ := json.MarshalIndent(map[string]interface{}{"property": spec.PropertyID, "harness": pv.h.Func, "label": pv.v.Label,
			"model": pv.v.Model, "decisions": decisionsText(pv.v.Decisions), "detail": pv.v.Detail, "native_outcome": o, "reproduced": reproduced}, "", " ")
		os.WriteFile(filepath.Join(rdir, "counterexample.json"), meta, 0o644)
		if !reproduced {
			inconclusive = append(inconclusive, fmt.Sprintf("ENGINE-MISMATCH %s/%s: solver counterexample did not reproduce natively (native failed=%v panic=%q assume=%v)", pv.h.Func, pv.v.Label, o.FailedAsserts, o.Panic, o.AssumeFailed))
			continue
		}
		key := pv.h.Func + "/" + pv.v.Label
		isKnown := false
		for _, kf := range known {
			if kf.Kind == "known" && kf.Property == spec.PropertyID && kf.Key == key {
				isKnown = true
				line := fmt.Sprintf("KNOWN-FINDING: property=%s %s", spec.PropertyID, kf.Text)
				knownLines = append(knownLines, line)
				fmt.Println(line)
			}
		}
		if !isKnown {
			violationLines = append(violationLines, fmt.Sprintf("VIOLATION property=%s replay=%s", spec.PropertyID, rdir))
			fmt.Fprintf(os.Stderr, "gosym: violation %s model=%v\n", key, pv.v.Model)
		}
	}

	status := "held"
	code := 0
	if len(violationLines) > 0 {
		status, code = "violation", 1
	} else if len(inconclusive) > 0 {
		status, code = "inconclusive", 2
	}
	if tot.states == 0 && code == 0 {
		status, code = "inconclusive", 2
		inconclusive = append(inconclusive, "no path completed")
	}
	writeEvidence(status)
	for _, l := range violationLines {
		fmt.Println(l)
	}
	if code == 2 {
		sort.Strings(inconclusive)
		for i, m := range inconclusive {
			if i < 12 {
				fmt.Println("INCONCLUSIVE reason=" + m)
			}
		}
	}
	fmt.Printf("%s %s: %s (%d paths, %d decisions, %d assertion queries, %d validated natively, %.1fs)\n",
		id, *tier, status, tot.states, tot.transitions, tot.assertQ, tot.validated, time.Since(start).Seconds())
	return code
}

func cmdReplay(args []string) int {
	if len(args) != 1 {
		usage()
	}
	dir := args[0]
	var meta struct {
		Property string `json:"property"`
		Label    string `json:"label"`
	}
	if b, err := os.ReadFile(filepath.Join(dir, "counterexample.json")); err == nil {
		json.Unmarshal(b, &meta)
	}
	// up to forty runs: a counterexample may need a particular Go map iteration
	// order, which is random per run
	for try := 0; try < 40; try++ {
		cmd := exec.Command("/bin/sh", filepath.Join(dir, "replay.sh"))
		out, err := cmd.CombinedOutput()
		if try == 0 {
			fmt.Print(string(out))
		}
		data, rerr := os.ReadFile(filepath.Join(dir, "outcomes.json"))
		if rerr != nil {
			fmt.Println("replay failed:", err)
			return 2
		}
		var outs []interp.NativeOutcome
		json.Unmarshal(data, &outs)
		for _, o := range outs {
			if contains(o.FailedAsserts, meta.Label) || (meta.Label == "no-panic" && o.Panic != "") {
				fmt.Printf("VIOLATION property=%s replay=%s\n", meta.Property, dir)
				return 1
			}
		}
	}
	fmt.Println("replay: assertion holds natively on the recorded inputs")
	return 0
}

func contains(l []string, s string) bool {
	for _, e := range l {
		if e == s {
			return true
		}
	}
	return false
}

func sortedSet(m map[string]bool) []string {
	out := make([]string, 0, len(m))
	for k := range m {
		out = append(out, k)
	}
	sort.Strings(out)
	return out
}

func firstLine(s string) string {
	if i := strings.IndexByte(s, '\n'); i >= 0 {
		return s[:i]
	}
	return s
}

func sanitize(s string) string {
	return strings.Map(func(r rune) rune {
		if r >= 'a' && r <= 'z' || r >= 'A' && r <= 'Z' || r >= '0' && r <= '9' || r == '-' || r == '_' {
			return r
		}
		return '_'
	}, s)
}

func decisionsText(ds []interp.Decision) string {
	var parts []string
	for _, d := range ds {
		parts = append(parts, d.String())
	}
	return strings.Join(parts, " ")
}

func obsText(obs []interp.Observation) [][]string {
	var out [][]string
	for _, o := range obs {
		out = append(out, append([]string{o.Key}, o.Vals...))
	}
	return out
}

func solverLabel(k string) string {
	switch k {
	case "z3-new":
		return "z3 5.1.0 (z3-new -in)"
	case "cvc5":
		return "cvc5 1.0 (--incremental)"
	}
	return "z3 4.8.12 (/usr/bin/z3 -in)"
}
