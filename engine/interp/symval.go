package interp

// Symbolic leaves of the value domain and the operators over them.

import (
	"fmt"
	"go/token"
	"go/types"
)

// symBool is a Go bool whose value is an SMT term.
type symBool struct{ t *Term }

// symInt is a Go integer of basic kind k whose value is a bit-vector term.
type symInt struct {
	t *Term
	k types.BasicKind
}

// symStr is a Go string whose value is an SMT string term. Bytes are mapped
// to SMT characters one-to-one (Latin-1), so len is the byte length.
type symStr struct{ t *Term }

// unsupportedOp is the panic value that ends a path because the engine cannot
// model an operation on a symbolic operand. It is never visible to the target
// program's recover.
type unsupportedOp struct{ msg string }

func unsupported(format string, args ...interface{}) {
	panic(unsupportedOp{fmt.Sprintf(format, args...)})
}

func isSym(v value) bool {
	switch v.(type) {
	case symBool, symInt, symStr:
		return true
	}
	return false
}

func kindBits(k types.BasicKind) (bits int, signed bool) {
	switch k {
	case types.Int, types.Int64:
		return 64, true
	case types.Int8:
		return 8, true
	case types.Int16:
		return 16, true
	case types.Int32:
		return 32, true
	case types.Uint, types.Uint64, types.Uintptr:
		return 64, false
	case types.Uint8:
		return 8, false
	case types.Uint16:
		return 16, false
	case types.Uint32:
		return 32, false
	}
	panic(fmt.Sprintf("kindBits: not an integer kind %v", k))
}

// intKind returns the basic kind of a concrete or symbolic integer value.
func intKind(v value) (types.BasicKind, bool) {
	switch v := v.(type) {
	case int:
		return types.Int, true
	case int8:
		return types.Int8, true
	case int16:
		return types.Int16, true
	case int32:
		return types.Int32, true
	case int64:
		return types.Int64, true
	case uint:
		return types.Uint, true
	case uint8:
		return types.Uint8, true
	case uint16:
		return types.Uint16, true
	case uint32:
		return types.Uint32, true
	case uint64:
		return types.Uint64, true
	case uintptr:
		return types.Uintptr, true
	case symInt:
		return v.k, true
	}
	return 0, false
}

// intTerm returns the bit-vector term of an integer value.
func intTerm(v value) *Term {
	if s, ok := v.(symInt); ok {
		return s.t
	}
	k, ok := intKind(v)
	if !ok {
		panic(fmt.Sprintf("intTerm: %T", v))
	}
	bits, _ := kindBits(k)
	return mkBV(bits, uint64(asInt64(v)))
}

// intValue boxes a bit-vector term as a value of kind k, concretely when the
// term is constant.
func intValue(t *Term, k types.BasicKind) value {
	if !t.isConst() {
		return symInt{t, k}
	}
	bits, _ := kindBits(k)
	s := sext(t.U, bits)
	switch k {
	case types.Int:
		return int(s)
	case types.Int8:
		return int8(s)
	case types.Int16:
		return int16(s)
	case types.Int32:
		return int32(s)
	case types.Int64:
		return int64(s)
	case types.Uint:
		return uint(t.U)
	case types.Uint8:
		return uint8(t.U)
	case types.Uint16:
		return uint16(t.U)
	case types.Uint32:
		return uint32(t.U)
	case types.Uint64:
		return uint64(t.U)
	case types.Uintptr:
		return uintptr(t.U)
	}
	panic("intValue")
}

func boolTerm(v value) *Term {
	switch v := v.(type) {
	case bool:
		return mkBool(v)
	case symBool:
		return v.t
	}
	panic(fmt.Sprintf("boolTerm: %T", v))
}

func boolValue(t *Term) value {
	if t.isConst() {
		return t.B
	}
	return symBool{t}
}

func strTerm(v value) *Term {
	switch v := v.(type) {
	case string:
		return mkStr(v)
	case symStr:
		return v.t
	}
	panic(fmt.Sprintf("strTerm: %T", v))
}

func strValue(t *Term) value {
	if t.isConst() {
		return t.S
	}
	return symStr{t}
}

// symBinop implements binop when at least one operand is symbolic.
func symBinop(fr *frame, op token.Token, t types.Type, x, y value) value {
	// strings
	_, xs := x.(symStr)
	_, ys := y.(symStr)
	if xs || ys {
		a, b := strTerm(x), strTerm(y)
		switch op {
		case token.ADD:
			return strValue(mkConcat(a, b))
		case token.EQL:
			return boolValue(mkEq(a, b))
		case token.NEQ:
			return boolValue(mkNot(mkEq(a, b)))
		case token.LSS:
			return boolValue(mkStrPred("str.<", a, b))
		case token.LEQ:
			return boolValue(mkStrPred("str.<=", a, b))
		case token.GTR:
			return boolValue(mkStrPred("str.<", b, a))
		case token.GEQ:
			return boolValue(mkStrPred("str.<=", b, a))
		}
		unsupported("string op %s on symbolic string", op)
	}
	// bools
	_, xb := x.(symBool)
	_, yb := y.(symBool)
	if xb || yb {
		a, b := boolTerm(x), boolTerm(y)
		switch op {
		case token.EQL:
			return boolValue(mkEq(a, b))
		case token.NEQ:
			return boolValue(mkNot(mkEq(a, b)))
		case token.AND:
			return boolValue(mkAnd(a, b))
		case token.OR:
			return boolValue(mkOr(a, b))
		}
		unsupported("bool op %s on symbolic bool", op)
	}
	// integers
	xk, xok := intKind(x)
	_, yok := intKind(y)
	if !xok || !yok {
		unsupported("binop %s on %T, %T", op, x, y)
	}
	bits, signed := kindBits(xk)
	a := intTerm(x)
	switch op {
	case token.SHL, token.SHR:
		yk, _ := intKind(y)
		ybits, ysigned := kindBits(yk)
		b := intTerm(y)
		if ysigned {
			neg := bvCmp("bvslt", b, mkBV(ybits, 0))
			if fr.i.ps.decideBool(neg, "negative-shift") {
				panic("negative shift amount")
			}
		}
		// saturate the shift count to the operand width
		b64 := bvResize(b, 64, false)
		big := bvCmp("bvuge", b64, mkBV(64, uint64(bits)))
		bw := bvResize(b64, bits, false)
		if bits > 64 {
			bw = b64
		}
		var r *Term
		if op == token.SHL {
			r = mkIte(big, mkBV(bits, 0), bvBin("bvshl", a, bw))
		} else if signed {
			r = mkIte(big, bvBin("bvashr", a, mkBV(bits, uint64(bits-1))), bvBin("bvashr", a, bw))
		} else {
			r = mkIte(big, mkBV(bits, 0), bvBin("bvlshr", a, bw))
		}
		return intValue(r, xk)
	}
	b := intTerm(y)
	if b.Sort != a.Sort {
		unsupported("binop %s on mismatched integer kinds %T, %T", op, x, y)
	}
	switch op {
	case token.ADD:
		return intValue(bvBin("bvadd", a, b), xk)
	case token.SUB:
		return intValue(bvBin("bvsub", a, b), xk)
	case token.MUL:
		return intValue(bvBin("bvmul", a, b), xk)
	case token.QUO, token.REM:
		zero := mkEq(b, mkBV(bits, 0))
		if fr.i.ps.decideBool(zero, "div-by-zero") {
			panic("runtime error: integer divide by zero")
		}
		var o string
		switch {
		case op == token.QUO && signed:
			o = "bvsdiv"
		case op == token.QUO:
			o = "bvudiv"
		case signed:
			o = "bvsrem"
		default:
			o = "bvurem"
		}
		return intValue(bvBin(o, a, b), xk)
	case token.AND:
		return intValue(bvBin("bvand", a, b), xk)
	case token.OR:
		return intValue(bvBin("bvor", a, b), xk)
	case token.XOR:
		return intValue(bvBin("bvxor", a, b), xk)
	case token.AND_NOT:
		return intValue(bvBin("bvand", a, bvNot(b)), xk)
	case token.EQL:
		return boolValue(mkEq(a, b))
	case token.NEQ:
		return boolValue(mkNot(mkEq(a, b)))
	case token.LSS, token.LEQ, token.GTR, token.GEQ:
		p := "bvu"
		if signed {
			p = "bvs"
		}
		suffix := map[token.Token]string{token.LSS: "lt", token.LEQ: "le", token.GTR: "gt", token.GEQ: "ge"}[op]
		return boolValue(bvCmp(p+suffix, a, b))
	}
	unsupported("integer op %s on symbolic operand", op)
	return nil
}

func symUnop(op token.Token, x value) value {
	switch x := x.(type) {
	case symBool:
		if op == token.NOT {
			return boolValue(mkNot(x.t))
		}
	case symInt:
		switch op {
		case token.SUB:
			return intValue(bvNeg(x.t), x.k)
		case token.XOR:
			return intValue(bvNot(x.t), x.k)
		}
	}
	unsupported("unary op %s on %T", op, x)
	return nil
}

// symConv implements conv for a symbolic operand.
func symConv(t_dst, t_src types.Type, x value) value {
	ud := t_dst.Underlying()
	switch x := x.(type) {
	case symStr:
		if b, ok := ud.(*types.Basic); ok && b.Kind() == types.String {
			return x
		}
		if sl, ok := ud.(*types.Slice); ok {
			if eb, ok := sl.Elem().Underlying().(*types.Basic); ok && eb.Kind() == types.Byte {
				return symBytes(x)
			}
		}
		unsupported("conversion of symbolic string to %s", t_dst)
	case symInt:
		if b, ok := ud.(*types.Basic); ok && b.Info()&types.IsInteger != 0 {
			bits, _ := kindBits(b.Kind())
			_, srcSigned := kindBits(x.k)
			return intValue(bvResize(x.t, bits, srcSigned), b.Kind())
		}
		unsupported("conversion of symbolic integer to %s", t_dst)
	case symBool:
		return x
	}
	unsupported("conversion of %T to %s", x, t_dst)
	return nil
}

// symBytes converts a symbolic string to []byte. Only strings whose symbolic
// parts are all bound to constants can be converted; the engine keeps no
// byte-level view of an unconstrained string.
func symBytes(x symStr) value {
	unsupported("[]byte(symbolic string %s)", x.t)
	return nil
}

// eqTerm generalises equals to values with symbolic leaves, returning a
// boolean term.
func eqTerm(t types.Type, x, y value) *Term {
	switch xv := x.(type) {
	case symBool:
		return mkEq(xv.t, boolTerm(y))
	case symInt:
		return mkEq(xv.t, intTerm(y))
	case symStr:
		return mkEq(xv.t, strTerm(y))
	}
	switch yv := y.(type) {
	case symBool:
		return mkEq(boolTerm(x), yv.t)
	case symInt:
		return mkEq(intTerm(x), yv.t)
	case symStr:
		return mkEq(strTerm(x), yv.t)
	}
	switch xv := x.(type) {
	case structure:
		yv := y.(structure)
		tStruct := t.Underlying().(*types.Struct)
		var cs []*Term
		for i, n := 0, tStruct.NumFields(); i < n; i++ {
			f := tStruct.Field(i)
			if f.Name() == "_" {
				continue
			}
			c := eqTerm(f.Type(), xv[i], yv[i])
			if c.isFalse() {
				return tFalse
			}
			cs = append(cs, c)
		}
		return mkAnd(cs...)
	case array:
		yv := y.(array)
		tElt := t.Underlying().(*types.Array).Elem()
		var cs []*Term
		for i := range xv {
			c := eqTerm(tElt, xv[i], yv[i])
			if c.isFalse() {
				return tFalse
			}
			cs = append(cs, c)
		}
		return mkAnd(cs...)
	case iface:
		yv := y.(iface)
		if !sameType(xv.t, yv.t) {
			return tFalse
		}
		if xv.t == nil {
			return tTrue
		}
		return eqTerm(xv.t, xv.v, yv.v)
	}
	return mkBool(equals(t, x, y))
}

// containsSym reports whether a comparable value has a symbolic leaf.
func containsSym(v value) bool {
	switch v := v.(type) {
	case symBool, symInt, symStr:
		return true
	case structure:
		for _, e := range v {
			if containsSym(e) {
				return true
			}
		}
	case array:
		for _, e := range v {
			if containsSym(e) {
				return true
			}
		}
	case iface:
		return containsSym(v.v)
	}
	return false
}
