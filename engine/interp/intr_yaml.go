package interp

// sigs.k8s.io/yaml on concrete data, through JSON trees.

import (
	"go/types"

	"sigs.k8s.io/yaml"
)

func init() {
	externals["sigs.k8s.io/yaml.Marshal"] = func(fr *frame, args []value) value {
		i := fr.i
		return i.jsonGuard(func() value {
			tree := i.normalizeTree(fr, args[0].(iface))
			if treeHasSym(tree) {
				unsupported("yaml.Marshal of a value with symbolic leaves")
			}
			b, err := yaml.Marshal(i.treeToNative(tree))
			if err != nil {
				jsonFail("%v", err)
			}
			return tuple{bytesValue(b), iface{}}
		}, func(e value) value { return tuple{[]value(nil), e} })
	}
	unmarshal := func(fr *frame, args []value) value {
		i := fr.i
		return i.jsonGuard(func() value {
			j, err := yaml.YAMLToJSON(bytesOf(fr, args[0].([]value), "YAML text"))
			if err != nil {
				jsonFail("%v", err)
			}
			return extJSONUnmarshal(fr, []value{bytesValue(j), args[1]})
		}, func(e value) value { return e })
	}
	externals["sigs.k8s.io/yaml.Unmarshal"] = unmarshal
	externals["sigs.k8s.io/yaml.UnmarshalStrict"] = unmarshal
	externals["sigs.k8s.io/yaml.YAMLToJSON"] = func(fr *frame, args []value) value {
		j, err := yaml.YAMLToJSON(bytesOf(fr, args[0].([]value), "YAML text"))
		return tuple{bytesValue(j), fr.i.nativeError(err)}
	}
	externals["sigs.k8s.io/yaml.JSONToYAML"] = func(fr *frame, args []value) value {
		j, err := yaml.JSONToYAML(bytesOf(fr, args[0].([]value), "JSON text"))
		return tuple{bytesValue(j), fr.i.nativeError(err)}
	}
	// crypto/sha256: the assembly block function is replaced by the portable one
	externals["crypto/sha256.block"] = func(fr *frame, args []value) value {
		g := fr.i.prog.ImportedPackage("crypto/sha256").Func("blockGeneric")
		return call(fr.i, fr, 0, g, args)
	}
	externals["crypto/sha1.block"] = func(fr *frame, args []value) value {
		g := fr.i.prog.ImportedPackage("crypto/sha1").Func("blockGeneric")
		return call(fr.i, fr, 0, g, args)
	}
}

var _ = types.Typ
