package interp

// strings.Builder: modelled as a list of chunks (bytes, strings, symbolic
// strings) kept in the buf field, so that symbolic strings can be written.

import (
	"go/types"
	"unicode/utf8"
)

func builderChunks(recv value) (*structure, []value) {
	p := recv.(*value)
	if p == nil {
		panic("runtime error: invalid memory address or nil pointer dereference (nil *strings.Builder)")
	}
	s := (*p).(structure)
	chunks, _ := s[1].([]value)
	return &s, chunks
}

func builderTerm(chunks []value) *Term {
	var parts []*Term
	var run []byte
	flush := func() {
		if len(run) > 0 {
			parts = append(parts, mkStr(string(run)))
			run = nil
		}
	}
	for _, c := range chunks {
		switch c := c.(type) {
		case byte:
			run = append(run, c)
		case string:
			run = append(run, c...)
		case symStr:
			flush()
			parts = append(parts, c.t)
		}
	}
	flush()
	return mkConcat(parts...)
}

func init() {
	externals["(*strings.Builder).String"] = func(fr *frame, args []value) value {
		_, ch := builderChunks(args[0])
		return strValue(builderTerm(ch))
	}
	externals["(*strings.Builder).Len"] = func(fr *frame, args []value) value {
		_, ch := builderChunks(args[0])
		t := builderTerm(ch)
		if t.isConst() {
			return len(t.S)
		}
		return intValue(mkInt2BV(64, mkStrLen(t)), types.Int)
	}
	externals["(*strings.Builder).Cap"] = func(fr *frame, args []value) value {
		_, ch := builderChunks(args[0])
		if ch == nil {
			return 0
		}
		t := builderTerm(ch)
		if t.isConst() {
			return len(t.S) + 64
		}
		return 1 << 20
	}
	externals["(*strings.Builder).Grow"] = func(fr *frame, args []value) value {
		s, ch := builderChunks(args[0])
		if n := asInt64(fr.i.concrete(args[1], "Grow argument")); n < 0 {
			panic(targetPanic{iface{fr.i.runtimeErrorString, "strings.Builder.Grow: negative count"}})
		} else if n > 0 && ch == nil {
			(*s)[1] = []value{""} // allocated: Cap() is now non-zero
		}
		return nil
	}
	externals["(*strings.Builder).Reset"] = func(fr *frame, args []value) value {
		s, _ := builderChunks(args[0])
		(*s)[1] = []value(nil)
		return nil
	}
	externals["(*strings.Builder).WriteString"] = func(fr *frame, args []value) value {
		s, ch := builderChunks(args[0])
		(*s)[1] = append(ch, args[1])
		switch x := args[1].(type) {
		case string:
			return tuple{len(x), iface{}}
		case symStr:
			return tuple{intValue(mkInt2BV(64, mkStrLen(x.t)), types.Int), iface{}}
		}
		return tuple{0, iface{}}
	}
	externals["(*strings.Builder).WriteByte"] = func(fr *frame, args []value) value {
		s, ch := builderChunks(args[0])
		b, ok := args[1].(byte)
		if !ok {
			unsupported("strings.Builder.WriteByte of symbolic byte")
		}
		(*s)[1] = append(ch, b)
		return iface{}
	}
	externals["(*strings.Builder).WriteRune"] = func(fr *frame, args []value) value {
		s, ch := builderChunks(args[0])
		r, ok := args[1].(int32)
		if !ok {
			unsupported("strings.Builder.WriteRune of symbolic rune")
		}
		(*s)[1] = append(ch, string(r))
		return tuple{utf8.RuneLen(r), iface{}}
	}
	externals["(*strings.Builder).Write"] = func(fr *frame, args []value) value {
		s, ch := builderChunks(args[0])
		b := bytesOf(fr, args[1], "strings.Builder.Write argument")
		(*s)[1] = append(ch, string(b))
		return tuple{len(b), iface{}}
	}
}
