package interp

// A long-lived SMT solver process spoken to over pipes in SMT-LIB2.

import (
	"bufio"
	"fmt"
	"io"
	"os"
	"os/exec"
	"strconv"
	"strings"
	"time"
)

type SolverStats struct {
	Queries   int
	Sat       int
	Unsat     int
	Unknown   int
	Errors    int
	Fallbacks int
	Hangs     int // queries abandoned because the solver did not answer (process killed and restarted)
	Time      time.Duration
	MaxQuery  time.Duration
}

type Solver struct {
	name     string
	cmd      *exec.Cmd
	in       io.WriteCloser
	out      *bufio.Reader
	declared map[string]Sort
	timeout  int // ms per query
	Stats    SolverStats
	log      io.Writer
	dead     bool
	script   strings.Builder // everything sent since the last reset (GOSYM_DUMP_UNKNOWN)
	base     strings.Builder // declarations and assertions since the last reset
	dumpDir  string
}

const sentinel = "@@gosym-done@@"

// NewSolver starts a solver. kind is "z3", "z3-new" or "cvc5".
func NewSolver(kind string, timeoutMs int) (*Solver, error) {
	s := &Solver{name: kind, timeout: timeoutMs, dumpDir: os.Getenv("GOSYM_DUMP_UNKNOWN")}
	if err := s.start(); err != nil {
		return nil, err
	}
	s.Reset()
	return s, nil
}

// start launches the solver process.
func (s *Solver) start() error {
	var cmd *exec.Cmd
	switch s.name {
	case "z3":
		cmd = exec.Command("/usr/bin/z3", "-in", "-smt2")
	case "z3-new":
		cmd = exec.Command("z3-new", "-in", "-smt2")
	case "cvc5":
		cmd = exec.Command("cvc5", "--incremental", "--strings-exp", "--produce-models", "--lang=smt2",
			fmt.Sprintf("--tlimit-per=%d", s.timeout))
	default:
		return fmt.Errorf("unknown solver %q", s.name)
	}
	in, err := cmd.StdinPipe()
	if err != nil {
		return err
	}
	out, err := cmd.StdoutPipe()
	if err != nil {
		return err
	}
	cmd.Stderr = cmd.Stdout
	if err := cmd.Start(); err != nil {
		return err
	}
	s.cmd, s.in, s.out, s.dead = cmd, in, bufio.NewReaderSize(out, 1<<16), false
	return nil
}

// restart replaces a solver process that did not answer within its time
// limit (z3's string solver does not always honour :timeout): the process is
// killed, a new one started, and the declarations and permanent assertions
// sent so far are replayed.
func (s *Solver) restart() {
	if s.cmd != nil && s.cmd.Process != nil {
		_ = s.cmd.Process.Kill()
		go s.cmd.Wait() //nolint:errcheck
	}
	if err := s.start(); err != nil {
		s.dead = true
		return
	}
	var b strings.Builder
	if s.name != "cvc5" {
		fmt.Fprintf(&b, "(set-option :timeout %d)\n", s.timeout)
	} else {
		b.WriteString("(set-logic ALL)\n")
	}
	b.WriteString(s.base.String())
	s.send(b.String())
}

func (s *Solver) Close() {
	if s == nil || s.dead {
		return
	}
	s.dead = true
	io.WriteString(s.in, "(exit)\n")
	s.in.Close()
	done := make(chan struct{})
	go func() { s.cmd.Wait(); close(done) }()
	select {
	case <-done:
	case <-time.After(2 * time.Second):
		s.cmd.Process.Kill()
	}
}

func (s *Solver) send(txt string) {
	if s.dumpDir != "" {
		s.script.WriteString(txt)
	}
	if s.log != nil {
		io.WriteString(s.log, txt)
	}
	if _, err := io.WriteString(s.in, txt); err != nil {
		s.dead = true
	}
}

// roundTrip sends txt followed by a sentinel echo and returns all output lines
// printed before the sentinel.
func (s *Solver) roundTrip(txt string) []string {
	s.send(txt + "(echo \"" + sentinel + "\")\n")
	var lines []string
	for {
		line, err := s.out.ReadString('\n')
		if err != nil {
			s.dead = true
			lines = append(lines, "(error \"solver died: "+err.Error()+"\")")
			return lines
		}
		line = strings.TrimRight(line, "\r\n")
		if strings.Contains(line, sentinel) {
			return lines
		}
		if s.log != nil {
			io.WriteString(s.log, "; -> "+line+"\n")
		}
		lines = append(lines, line)
	}
}

// fallback asks the other z3 build the same question in a one-shot process.
func (s *Solver) fallback(extra *Term, wantModel bool) (Result, map[string]*Term) {
	var bin string
	switch s.name {
	case "z3":
		bin = "z3-new"
	case "z3-new":
		bin = "/usr/bin/z3"
	default:
		return Unknown, nil
	}
	var q strings.Builder
	fmt.Fprintf(&q, "(set-option :timeout %d)\n", s.timeout)
	q.WriteString(s.base.String())
	if extra != nil {
		fmt.Fprintf(&q, "(assert %s)\n", extra.SMT())
	}
	q.WriteString("(check-sat)\n")
	names := sortedVarNames(s.declared)
	if wantModel && len(names) > 0 {
		q.WriteString("(get-value (")
		for _, n := range names {
			q.WriteString(smtName(n))
			q.WriteByte(' ')
		}
		q.WriteString("))\n")
	}
	cmd := exec.Command(bin, "-in", "-smt2", fmt.Sprintf("-T:%d", s.timeout/1000+5))
	cmd.Stdin = strings.NewReader(q.String())
	out, _ := cmd.Output()
	lines := strings.Split(string(out), "\n")
	if len(lines) == 0 {
		return Unknown, nil
	}
	for _, l := range lines {
		if strings.HasPrefix(l, "(error") && !strings.Contains(l, "model is not available") {
			return Unknown, nil
		}
	}
	switch strings.TrimSpace(lines[0]) {
	case "unsat":
		return Unsat, nil
	case "sat":
		if !wantModel {
			return Sat, nil
		}
		if len(names) == 0 {
			return Sat, map[string]*Term{}
		}
		m, err := parseModel(strings.Join(lines[1:], "\n"), s.declared)
		if err != nil {
			return Unknown, nil
		}
		return Sat, m
	}
	return Unknown, nil
}

// Reset clears all assertions and declarations.
func (s *Solver) Reset() {
	s.declared = map[string]Sort{}
	s.script.Reset()
	s.base.Reset()
	var b strings.Builder
	b.WriteString("(reset)\n")
	if s.name != "cvc5" {
		fmt.Fprintf(&b, "(set-option :timeout %d)\n", s.timeout)
	} else {
		b.WriteString("(set-logic ALL)\n")
	}
	s.send(b.String())
}

func (s *Solver) declare(t *Term, b *strings.Builder) {
	vs := map[string]Sort{}
	t.vars(vs)
	for _, n := range sortedVarNames(vs) {
		if _, ok := s.declared[n]; !ok {
			s.declared[n] = vs[n]
			fmt.Fprintf(b, "(declare-const %s %s)\n", smtName(n), vs[n].smt())
		}
	}
}

// Assert adds t permanently (until Reset).
func (s *Solver) Assert(t *Term) {
	var b strings.Builder
	s.declare(t, &b)
	fmt.Fprintf(&b, "(assert %s)\n", t.SMT())
	s.base.WriteString(b.String())
	// no round trip: an error line, if any, is seen by the next Check
	s.send(b.String())
}

type Result int

const (
	Unsat Result = iota
	Sat
	Unknown
)

func (r Result) String() string { return [...]string{"unsat", "sat", "unknown"}[r] }

// Check asks whether the asserted terms plus extra are satisfiable. If
// wantModel and the answer is sat, the model of all declared variables is
// returned.
func (s *Solver) Check(extra *Term, wantModel bool) (Result, map[string]*Term) {
	if s.dead {
		s.Stats.Errors++
		return Unknown, nil
	}
	start := time.Now()
	var b strings.Builder
	if extra != nil {
		s.declare(extra, &b)
		s.base.WriteString(b.String())
	}
	b.WriteString("(push 1)\n")
	if extra != nil {
		fmt.Fprintf(&b, "(assert %s)\n", extra.SMT())
	}
	b.WriteString("(check-sat)\n")
	var out []string
	hung := false
	done := make(chan []string, 1)
	go func(txt string) { done <- s.roundTrip(txt) }(b.String())
	select {
	case out = <-done:
	case <-time.After(time.Duration(s.timeout)*time.Millisecond + 20*time.Second):
		// no answer well past the per-query limit: kill the process (the
		// reader then returns), start a fresh one and count the query as unknown
		hung = true
		_ = s.cmd.Process.Kill()
		<-done
		s.Stats.Hangs++
		s.restart()
		out = []string{"unknown"}
	}
	res := Unknown
	bad := false
	for _, l := range out {
		switch {
		case l == "sat":
			res = Sat
		case l == "unsat":
			res = Unsat
		case l == "unknown" || l == "timeout":
			res = Unknown
		case strings.HasPrefix(l, "(error"):
			bad = true
		}
	}
	if bad {
		res = Unknown
		s.Stats.Errors++
	}
	var model map[string]*Term
	if res == Unknown && !bad && !s.dead {
		// second opinion from the other z3 build, on the same assertions
		if !hung {
			s.send("(pop 1)\n")
		}
		res, model = s.fallback(extra, wantModel)
		d := time.Since(start)
		s.Stats.Queries++
		s.Stats.Fallbacks++
		s.Stats.Time += d
		if d > s.Stats.MaxQuery {
			s.Stats.MaxQuery = d
		}
		switch res {
		case Sat:
			s.Stats.Sat++
		case Unsat:
			s.Stats.Unsat++
		default:
			s.Stats.Unknown++
			if s.dumpDir != "" {
				_ = os.WriteFile(fmt.Sprintf("%s/unknown-%d-%d.smt2", s.dumpDir, os.Getpid(), time.Now().UnixNano()), []byte(s.script.String()), 0o644)
			}
		}
		return res, model
	}
	if res == Sat && wantModel && len(s.declared) > 0 {
		names := sortedVarNames(s.declared)
		var q strings.Builder
		q.WriteString("(get-value (")
		for _, n := range names {
			q.WriteString(smtName(n))
			q.WriteByte(' ')
		}
		q.WriteString("))\n")
		mout := s.roundTrip(q.String())
		m, err := parseModel(strings.Join(mout, "\n"), s.declared)
		if err != nil {
			s.Stats.Errors++
			res = Unknown
		} else {
			model = m
		}
	} else if res == Sat && wantModel {
		model = map[string]*Term{}
	}
	s.send("(pop 1)\n")
	d := time.Since(start)
	s.Stats.Queries++
	s.Stats.Time += d
	if d > s.Stats.MaxQuery {
		s.Stats.MaxQuery = d
	}
	switch res {
	case Sat:
		s.Stats.Sat++
	case Unsat:
		s.Stats.Unsat++
	default:
		s.Stats.Unknown++
		if s.dumpDir != "" {
			_ = os.WriteFile(fmt.Sprintf("%s/unknown-%d-%d.smt2", s.dumpDir, os.Getpid(), time.Now().UnixNano()), []byte(s.script.String()), 0o644)
		}
	}
	return res, model
}

// ---------------------------------------------------------------------
// s-expression parsing of get-value output

type sexp struct {
	atom string
	str  bool // atom is a string literal (already unescaped)
	list []*sexp
	isL  bool
}

func parseSexps(src string) ([]*sexp, error) {
	pos := 0
	var parse func() (*sexp, error)
	skip := func() {
		for pos < len(src) && (src[pos] == ' ' || src[pos] == '\n' || src[pos] == '\t' || src[pos] == '\r') {
			pos++
		}
	}
	parse = func() (*sexp, error) {
		skip()
		if pos >= len(src) {
			return nil, io.EOF
		}
		switch c := src[pos]; {
		case c == '(':
			pos++
			l := &sexp{isL: true}
			for {
				skip()
				if pos >= len(src) {
					return nil, fmt.Errorf("unterminated list")
				}
				if src[pos] == ')' {
					pos++
					return l, nil
				}
				e, err := parse()
				if err != nil {
					return nil, err
				}
				l.list = append(l.list, e)
			}
		case c == '"':
			pos++
			var b strings.Builder
			for {
				if pos >= len(src) {
					return nil, fmt.Errorf("unterminated string")
				}
				if src[pos] == '"' {
					if pos+1 < len(src) && src[pos+1] == '"' {
						b.WriteByte('"')
						pos += 2
						continue
					}
					pos++
					break
				}
				b.WriteByte(src[pos])
				pos++
			}
			return &sexp{atom: unescapeSMT(b.String()), str: true}, nil
		case c == '|':
			end := strings.IndexByte(src[pos+1:], '|')
			if end < 0 {
				return nil, fmt.Errorf("unterminated quoted symbol")
			}
			a := src[pos+1 : pos+1+end]
			pos += end + 2
			return &sexp{atom: a}, nil
		default:
			st := pos
			for pos < len(src) && !strings.ContainsRune(" \n\t\r()", rune(src[pos])) {
				pos++
			}
			return &sexp{atom: src[st:pos]}, nil
		}
	}
	var out []*sexp
	for {
		e, err := parse()
		if err == io.EOF {
			return out, nil
		}
		if err != nil {
			return nil, err
		}
		out = append(out, e)
	}
}

func unescapeSMT(s string) string {
	var b strings.Builder
	for i := 0; i < len(s); i++ {
		if s[i] == '\\' && i+1 < len(s) {
			if s[i+1] == 'u' && i+2 < len(s) && s[i+2] == '{' {
				end := strings.IndexByte(s[i+3:], '}')
				if end >= 0 {
					if v, err := strconv.ParseUint(s[i+3:i+3+end], 16, 32); err == nil {
						if v < 256 {
							b.WriteByte(byte(v))
						} else {
							b.WriteRune(rune(v))
						}
						i += 3 + end
						continue
					}
				}
			}
			if s[i+1] == 'u' && i+5 < len(s) {
				if v, err := strconv.ParseUint(s[i+2:i+6], 16, 32); err == nil {
					if v < 256 {
						b.WriteByte(byte(v))
					} else {
						b.WriteRune(rune(v))
					}
					i += 5
					continue
				}
			}
			if s[i+1] == 'x' && i+3 < len(s) {
				if v, err := strconv.ParseUint(s[i+2:i+4], 16, 8); err == nil {
					b.WriteByte(byte(v))
					i += 3
					continue
				}
			}
		}
		b.WriteByte(s[i])
	}
	return b.String()
}

func parseModel(txt string, decl map[string]Sort) (map[string]*Term, error) {
	if strings.Contains(txt, "(error") {
		return nil, fmt.Errorf("solver error: %s", txt)
	}
	es, err := parseSexps(txt)
	if err != nil {
		return nil, err
	}
	m := map[string]*Term{}
	for _, top := range es {
		if !top.isL {
			continue
		}
		for _, pair := range top.list {
			if !pair.isL || len(pair.list) != 2 {
				continue
			}
			name := pair.list[0].atom
			srt, ok := decl[name]
			if !ok {
				// names were sanitised when printed
				for n, s := range decl {
					if strings.Trim(smtName(n), "|") == name {
						name, srt, ok = n, s, true
						break
					}
				}
				if !ok {
					continue
				}
			}
			v := pair.list[1]
			switch srt.K {
			case 'b':
				m[name] = mkBool(v.atom == "true")
			case 's':
				if !v.str {
					return nil, fmt.Errorf("model: non-literal string value for %s", name)
				}
				m[name] = mkStr(v.atom)
			case 'v':
				a := v.atom
				var u uint64
				switch {
				case strings.HasPrefix(a, "#x"):
					u, err = strconv.ParseUint(a[2:], 16, 64)
				case strings.HasPrefix(a, "#b"):
					u, err = strconv.ParseUint(a[2:], 2, 64)
				case v.isL && len(v.list) == 3 && strings.HasPrefix(v.list[1].atom, "bv"):
					u, err = strconv.ParseUint(v.list[1].atom[2:], 10, 64)
				default:
					err = fmt.Errorf("model: bad bitvec %q", a)
				}
				if err != nil {
					return nil, err
				}
				m[name] = mkBV(srt.Bits, u)
			case 'i':
				if v.isL && len(v.list) == 2 && v.list[0].atom == "-" {
					i, _ := strconv.ParseInt(v.list[1].atom, 10, 64)
					m[name] = mkIntC(-i)
				} else {
					i, _ := strconv.ParseInt(v.atom, 10, 64)
					m[name] = mkIntC(i)
				}
			}
		}
	}
	return m, nil
}
