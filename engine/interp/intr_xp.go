package interp

// Replacements for crossplane functions that cannot be interpreted (listed
// as part of the trusted base of the checks that reach them).

import (
	"crypto/x509"
	"encoding/pem"
	"go/token"
)

func init() {
	// initializer.parseCertificateSigner: PEM and X.509 parsing run natively
	// in the engine on the (concrete) bytes; the result carries opaque
	// non-nil key / certificate handles and the certificate PEM.
	externals["github.com/crossplane/crossplane/internal/initializer.parseCertificateSigner"] = func(fr *frame, args []value) value {
		i := fr.i
		key := bytesOf(fr, args[0], "CA key PEM")
		cert := bytesOf(fr, args[1], "CA certificate PEM")
		fail := func(msg string) value {
			e := call(i, fr, token.NoPos, i.prog.ImportedPackage("errors").Func("New"), []value{msg})
			return tuple{(*value)(nil), e}
		}
		kb, _ := pem.Decode(key)
		if kb == nil {
			return fail("cannot decode key")
		}
		if _, err := x509.ParsePKCS1PrivateKey(kb.Bytes); err != nil {
			return fail("cannot parse CA key: " + err.Error())
		}
		cb, _ := pem.Decode(cert)
		if cb == nil {
			return fail("cannot decode cert")
		}
		if _, err := x509.ParseCertificate(cb.Bytes); err != nil {
			return fail("cannot parse CA certificate: " + err.Error())
		}
		var opaqueCert, opaqueKey value = structure{}, structure{}
		var cell value = structure{&opaqueCert, &opaqueKey, args[1]}
		return tuple{&cell, iface{}}
	}
}

func init() {
	// Harness helper (package revision, C15): builds a crossplane-runtime
	// *parser.Package from typed objects. Natively the harness pokes the
	// unexported fields through reflect/unsafe; here the value is built
	// directly: Package{meta []runtime.Object, objects []runtime.Object}.
	externals["github.com/crossplane/crossplane/internal/controller/pkg/revision.zzMakePackage"] = func(fr *frame, args []value) value {
		var cell value = structure{args[0], args[1]}
		return &cell
	}
}

func init() {
	// Harness helper (C15 image backend): the gzip stream and digests of a
	// fake layer. Layer validation is assumed under the engine, so fixed,
	// distinct digests per index stand in for the real ones.
	externals["github.com/crossplane/crossplane/internal/controller/pkg/revision.zzLayerIdentity"] = func(fr *frame, args []value) value {
		idx := args[0].(int)
		hex := func(c byte) string {
			b := make([]byte, 64)
			for i := range b {
				b[i] = c
			}
			return string(b)
		}
		h := func(c byte) value { return structure{"sha256", hex(c)} }
		return tuple{[]value(nil), h(byte('0' + idx)), h(byte('a' + idx))}
	}
}
