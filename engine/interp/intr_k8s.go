package interp

// Intrinsics for reflection-based helpers of the Kubernetes libraries and
// crossplane-runtime, expressed through structural JSON conversion.

import (
	"encoding/json"
	"fmt"
	"go/token"
	"go/types"
	"strings"
	"unicode/utf8"

	"golang.org/x/tools/go/ssa"
)

// jsonBlob stands for the bytes json.Marshal would produce for a tree with
// symbolic leaves. It is the sole element of the []byte returned.
type jsonBlob struct{ tree iface }

func init() {
	const rt = "k8s.io/apimachinery/pkg/runtime"
	externals["(*"+rt+".unstructuredConverter).ToUnstructured"] = extToUnstructured
	externals["(*"+rt+".unstructuredConverter).FromUnstructured"] = extFromUnstructured
	externals["(*"+rt+".unstructuredConverter).FromUnstructuredWithValidation"] = extFromUnstructured
	externals["github.com/crossplane/crossplane-runtime/pkg/fieldpath.toValidJSON"] = func(fr *frame, args []value) value {
		return fr.i.jsonGuard(func() value {
			return tuple{fr.i.normalizeTree(fr, args[0].(iface)), iface{}}
		}, func(e value) value { return tuple{iface{}, e} })
	}
	externals["(*github.com/crossplane/crossplane-runtime/pkg/fieldpath.Paved).GetValueInto"] = extGetValueInto
	for _, p := range []string{"encoding/json", "k8s.io/apimachinery/pkg/util/json", "sigs.k8s.io/json"} {
		externals[p+".Marshal"] = extJSONMarshal
		externals[p+".Unmarshal"] = extJSONUnmarshal
		externals[p+".UnmarshalCaseSensitivePreserveInts"] = extJSONUnmarshal
	}
	externals["k8s.io/apimachinery/pkg/runtime.DeepCopyJSONValue"] = func(fr *frame, args []value) value {
		return fr.i.copyTree(args[0].(iface))
	}
	externals["k8s.io/apimachinery/pkg/runtime.DeepCopyJSON"] = func(fr *frame, args []value) value {
		m := args[0].(*omap)
		if m == nil {
			return m
		}
		return fr.i.copyTree(iface{tMapStrAny, m}).v
	}
}

// jsonGuard runs f, turning JSON conversion failures into an interpreted
// error value passed to onErr.
func (i *interpreter) jsonGuard(f func() value, onErr func(e value) value) (res value) {
	defer func() {
		if r := recover(); r != nil {
			je, ok := r.(jsonErr)
			if !ok {
				panic(r)
			}
			res = onErr(iface{errorType, "json: " + je.msg})
		}
	}()
	return f()
}

func derefIface(v value) (types.Type, *value, bool) {
	it, ok := v.(iface)
	if !ok || it.t == nil {
		return nil, nil, false
	}
	pt, ok := it.t.Underlying().(*types.Pointer)
	if !ok {
		return nil, nil, false
	}
	p, ok := it.v.(*value)
	if !ok || p == nil {
		return nil, nil, false
	}
	return pt.Elem(), p, true
}

func extToUnstructured(fr *frame, args []value) value {
	i := fr.i
	obj := args[1].(iface)
	return i.jsonGuard(func() value {
		if f := i.findMethod(obj.t, "UnstructuredContent"); f != nil {
			m := call(i, fr, token.NoPos, f, []value{obj.v}).(*omap)
			if m == nil {
				return tuple{makeMap(types.Typ[types.String], 0), iface{}}
			}
			// no copy: the real converter hands back the object's own content,
			// so writes through the result are writes to the object
			return tuple{m, iface{}}
		}
		elem, p, ok := derefIface(obj)
		if !ok {
			jsonFail("ToUnstructured requires a non-nil pointer to an object, got %v", obj.t)
		}
		tree := i.typedToTree(fr, elem, *p)
		m, ok := tree.v.(*omap)
		if !ok {
			jsonFail("ToUnstructured: %s does not encode to a JSON object", elem)
		}
		return tuple{m, iface{}}
	}, func(e value) value { return tuple{(*omap)(nil), e} })
}

func extFromUnstructured(fr *frame, args []value) value {
	i := fr.i
	u := args[1].(*omap)
	obj := args[2].(iface)
	return i.jsonGuard(func() value {
		if f := i.findMethod(obj.t, "SetUnstructuredContent"); f != nil {
			call(i, fr, token.NoPos, f, []value{obj.v, i.copyTree(iface{tMapStrAny, u}).v})
			return iface{}
		}
		elem, p, ok := derefIface(obj)
		if !ok {
			jsonFail("FromUnstructured requires a non-nil pointer, got %v", obj.t)
		}
		store(elem, p, i.treeToTyped(fr, iface{tMapStrAny, u}, elem, zero(elem)))
		return iface{}
	}, func(e value) value { return e })
}

func extGetValueInto(fr *frame, args []value) value {
	i := fr.i
	paved := args[0]
	getValue := i.findMethod(types.NewPointer(mustDeref(pavedType(fr))), "GetValue")
	if getValue == nil {
		unsupported("fieldpath.Paved.GetValue not found")
	}
	r := call(i, fr, token.NoPos, getValue, []value{paved, args[1]}).(tuple)
	if err := r[1].(iface); err.t != nil {
		return err
	}
	out := args[2].(iface)
	return i.jsonGuard(func() value {
		elem, p, ok := derefIface(out)
		if !ok {
			jsonFail("Unmarshal(non-pointer %v)", out.t)
		}
		tree := i.normalizeTree(fr, r[0].(iface))
		store(elem, p, i.treeToTyped(fr, tree, elem, load(elem, p)))
		return iface{}
	}, func(e value) value { return e })
}

func pavedType(fr *frame) types.Type { return fr.fn.Signature.Recv().Type() }

func extJSONMarshal(fr *frame, args []value) value {
	i := fr.i
	v := args[0].(iface)
	return i.jsonGuard(func() value {
		var tree iface
		if f := i.findMethod(v.t, "UnstructuredContent"); f != nil && v.t != nil {
			tree = iface{tMapStrAny, call(i, fr, token.NoPos, f, []value{v.v})}
		} else {
			tree = i.normalizeTree(fr, v)
		}
		if treeHasSym(tree) {
			return tuple{[]value{jsonBlob{tree}}, iface{}}
		}
		b, err := json.Marshal(i.treeToNative(tree))
		if err != nil {
			jsonFail("%v", err)
		}
		return tuple{bytesValue(b), iface{}}
	}, func(e value) value { return tuple{[]value(nil), e} })
}

func treeHasSym(v value) bool {
	switch x := v.(type) {
	case iface:
		return treeHasSym(x.v)
	case symStr, symInt, symBool:
		return true
	case []value:
		for _, e := range x {
			if treeHasSym(e) {
				return true
			}
		}
	case *omap:
		found := false
		x.each(func(k, e value) {
			if isSym(k) || treeHasSym(e) {
				found = true
			}
		})
		return found
	}
	return false
}

func extJSONUnmarshal(fr *frame, args []value) value {
	i := fr.i
	data := args[0].([]value)
	out := args[1].(iface)
	return i.jsonGuard(func() value {
		var tree iface
		if len(data) == 1 {
			if b, ok := data[0].(jsonBlob); ok {
				tree = i.copyTree(b.tree)
			}
		}
		if tree.t == nil {
			tree = i.jsonBytesToTree(fr, bytesOf(fr, data, "JSON text"))
		}
		if f := i.findMethod(out.t, "SetUnstructuredContent"); f != nil {
			m, ok := tree.v.(*omap)
			if !ok {
				jsonFail("cannot unmarshal %s into an unstructured object", jsonKind(tree.v))
			}
			call(i, fr, token.NoPos, f, []value{out.v, m})
			return iface{}
		}
		elem, p, ok := derefIface(out)
		if !ok {
			jsonFail("Unmarshal(non-pointer %v)", out.t)
		}
		store(elem, p, i.treeToTyped(fr, tree, elem, load(elem, p)))
		return iface{}
	}, func(e value) value { return e })
}

var _ *ssa.Function

func init() {
	externals["k8s.io/apimachinery/pkg/runtime/schema.ParseGroupVersion"] = extParseGroupVersion
}

// extParseGroupVersion models schema.ParseGroupVersion on structured
// symbolic strings: concatenations of constants and input atoms whose
// alphabet excludes '/'.
func extParseGroupVersion(fr *frame, args []value) value {
	i := fr.i
	gvT := fr.fn.Signature.Results().At(0).Type()
	mk := func(g, v value) value { return tuple{structure{g, v}, iface{}} }
	_ = gvT
	arg := args[0]
	if i.ps != nil {
		arg = i.ps.resolveValue(arg)
	}
	if s, ok := arg.(string); ok {
		// concrete: same logic as the real function
		if len(s) == 0 || s == "/" {
			return mk("", "")
		}
		n := 0
		idx := -1
		for k := 0; k < len(s); k++ {
			if s[k] == '/' {
				n++
				if idx < 0 {
					idx = k
				}
			}
		}
		switch n {
		case 0:
			return mk("", s)
		case 1:
			return mk(s[:idx], s[idx+1:])
		}
		e := call(i, fr, 0, i.prog.ImportedPackage("fmt").Func("Errorf"), []value{"unexpected GroupVersion string: %v", []value{iface{types.Typ[types.String], s}}})
		return tuple{structure{"", ""}, e}
	}
	t := arg.(symStr).t
	parts := strParts(t)
	var before, after []*Term
	slashes := 0
	for _, p := range parts {
		if p.isConst() {
			rest := p.S
			for {
				k := indexByte(rest, '/')
				if k < 0 {
					break
				}
				slashes++
				if slashes == 1 {
					before = append(before, mkStr(rest[:k]))
					rest = rest[k+1:]
					continue
				}
				rest = rest[k+1:]
			}
			if slashes == 0 {
				before = append(before, mkStr(rest))
			} else {
				after = append(after, mkStr(rest))
			}
			continue
		}
		if !i.ps.partExcludes(p, '/') {
			unsupported("ParseGroupVersion of symbolic string %s whose parts may contain '/'", t)
		}
		if slashes == 0 {
			before = append(before, p)
		} else {
			after = append(after, p)
		}
	}
	switch slashes {
	case 0:
		// "" or a bare version
		if i.ps.decideBool(mkEq(t, mkStr("")), "gv-empty") {
			return mk("", "")
		}
		return mk("", strValue(t))
	case 1:
		g, v := mkConcat(before...), mkConcat(after...)
		// gv == "/" is the empty GroupVersion as well; both halves empty gives the same result
		return mk(strValue(g), strValue(v))
	}
	unsupported("ParseGroupVersion of symbolic string with several '/' %s", t)
	return nil
}

func indexByte(s string, c byte) int {
	for k := 0; k < len(s); k++ {
		if s[k] == c {
			return k
		}
	}
	return -1
}

func init() {
	// k8s.io/apimachinery/pkg/util/rand.String: the random suffix of generated
	// names. Under the engine: a fresh, deterministic suffix per call.
	externals["k8s.io/apimachinery/pkg/util/rand.String"] = func(fr *frame, args []value) value {
		n := int(asInt64(fr.i.concrete(args[0], "rand.String length")))
		fr.i.randCount++
		s := fmt.Sprintf("%0*d", n, fr.i.randCount)
		if len(s) > n {
			s = s[len(s)-n:]
		}
		// the alphabet of the real function has no vowels and no 0/1/3; use
		// letters that are in it
		return strings.Map(func(r rune) rune { return rune("bcdfghjklm"[r-'0']) }, s)
	}
	externals["unicode/utf8.ValidString"] = func(fr *frame, args []value) value {
		if s, ok := args[0].(string); ok {
			return utf8.ValidString(s)
		}
		// symbolic strings are assumed to be valid UTF-8 (stated per check)
		return true
	}
}

func init() {
	// (*Unstructured).UnmarshalJSON goes through a scheme-based decoder; the
	// effect on a JSON object is to replace the content.
	externals["(*k8s.io/apimachinery/pkg/apis/meta/v1/unstructured.Unstructured).UnmarshalJSON"] = func(fr *frame, args []value) value {
		i := fr.i
		return i.jsonGuard(func() value {
			data := args[1].([]value)
			var tree iface
			if len(data) == 1 {
				if b, ok := data[0].(jsonBlob); ok {
					tree = i.copyTree(b.tree)
				}
			}
			if tree.t == nil {
				tree = i.jsonBytesToTree(fr, bytesOf(fr, data, "JSON text"))
			}
			m, ok := tree.v.(*omap)
			if !ok {
				jsonFail("cannot unmarshal %s into an unstructured object", jsonKind(tree.v))
			}
			f := i.findMethod(types.NewPointer(mustDeref(fr.fn.Signature.Recv().Type())), "SetUnstructuredContent")
			call(i, fr, token.NoPos, f, []value{args[0], m})
			return iface{}
		}, func(e value) value { return e })
	}
	externals["(*k8s.io/apimachinery/pkg/apis/meta/v1/unstructured.Unstructured).MarshalJSON"] = func(fr *frame, args []value) value {
		f := fr.i.findMethod(types.NewPointer(mustDeref(fr.fn.Signature.Recv().Type())), "UnstructuredContent")
		m := call(fr.i, fr, token.NoPos, f, []value{args[0]})
		return extJSONMarshal(fr, []value{iface{tMapStrAny, m}})
	}
	// client.MergeFrom(orig).Data(obj): the JSON merge patch from orig to obj,
	// computed structurally (RFC 7386) instead of on JSON text.
	externals["(*sigs.k8s.io/controller-runtime/pkg/client.mergeFromPatch).Data"] = func(fr *frame, args []value) value {
		i := fr.i
		return i.jsonGuard(func() value {
			recv := (*args[0].(*value)).(structure)
			from := recv[2].(iface)
			opts := recv[3].(structure)
			if b, ok := opts[0].(bool); ok && b {
				unsupported("MergeFrom with optimistic lock")
			}
			toTree := func(o iface) *omap {
				if f := i.findMethod(o.t, "UnstructuredContent"); f != nil {
					m := call(i, fr, token.NoPos, f, []value{o.v}).(*omap)
					return m
				}
				return i.normalizeTree(fr, o).v.(*omap)
			}
			patch := i.mergeDiff(fr, toTree(from), toTree(args[1].(iface)))
			tree := iface{tMapStrAny, patch}
			if treeHasSym(tree) {
				return tuple{[]value{jsonBlob{tree}}, iface{}}
			}
			b, err := json.Marshal(i.treeToNative(tree))
			if err != nil {
				jsonFail("%v", err)
			}
			return tuple{bytesValue(b), iface{}}
		}, func(e value) value { return tuple{[]value(nil), e} })
	}
}

// mergeDiff returns the RFC 7386 merge patch that turns a into b.
func (i *interpreter) mergeDiff(fr *frame, a, b *omap) *omap {
	out := makeMap(types.Typ[types.String], 0).(*omap)
	b.each(func(k, bv value) {
		av, ok := a.lookup(fr, k)
		if !ok {
			out.insert(fr, k, bv)
			return
		}
		am, aIsMap := av.(iface).v.(*omap)
		bm, bIsMap := bv.(iface).v.(*omap)
		if aIsMap && bIsMap && am != nil && bm != nil {
			d := i.mergeDiff(fr, am, bm)
			if d.len() > 0 {
				out.insert(fr, k, iface{tMapStrAny, d})
			}
			return
		}
		eq := deepEqualTermOpt(av, bv, map[[2]*value]bool{}, false)
		if !i.condValue(boolValue(eq)) {
			out.insert(fr, k, bv)
		}
	})
	a.each(func(k, _ value) {
		if _, ok := b.lookup(fr, k); !ok {
			out.insert(fr, k, iface{})
		}
	})
	return out
}

func init() {
	// (*structpb.Struct).UnmarshalJSON goes through protojson and the
	// protobuf runtime's unsafe message state; the effect on a JSON object is
	// what structpb.NewStruct builds from the decoded map.
	externals["(*google.golang.org/protobuf/types/known/structpb.Struct).UnmarshalJSON"] = func(fr *frame, args []value) value {
		i := fr.i
		return i.jsonGuard(func() value {
			data := args[1].([]value)
			var tree iface
			if len(data) == 1 {
				if b, ok := data[0].(jsonBlob); ok {
					tree = i.copyTree(b.tree)
				}
			}
			if tree.t == nil {
				tree = i.jsonBytesToTree(fr, bytesOf(fr, data, "JSON text"))
			}
			m, ok := tree.v.(*omap)
			if !ok {
				jsonFail("cannot unmarshal %s into a structpb.Struct", jsonKind(tree.v))
			}
			pkg := i.prog.ImportedPackage("google.golang.org/protobuf/types/known/structpb")
			r := call(i, fr, token.NoPos, pkg.Func("NewStruct"), []value{m}).(tuple)
			if e, _ := r[1].(iface); e.t != nil {
				return r[1]
			}
			st := mustDeref(fr.fn.Signature.Recv().Type()).Underlying().(*types.Struct)
			idx := -1
			for k := 0; k < st.NumFields(); k++ {
				if st.Field(k).Name() == "Fields" {
					idx = k
				}
			}
			src := (*r[0].(*value)).(structure)
			dst := append(structure{}, (*args[0].(*value)).(structure)...)
			dst[idx] = src[idx]
			*args[0].(*value) = dst
			return iface{}
		}, func(e value) value { return e })
	}
}

func init() {
	// runtime.NewScheme names itself after its caller by walking the stack
	externals["k8s.io/apimachinery/pkg/util/naming.GetNameFromCallsite"] = func(fr *frame, args []value) value {
		return "gosym"
	}
}

func init() {
	// Scheme registration is reflection-heavy and the engine does not use the
	// scheme's content (typed decoding is structural, see intr_parser.go).
	externals["(*k8s.io/apimachinery/pkg/runtime.SchemeBuilder).AddToScheme"] = func(fr *frame, args []value) value {
		return iface{}
	}
}

func init() {
	// go-containerregistry's validate.Layer recomputes digests through a
	// goroutine-fed io.Pipe, gzip and sha256: layer validity is assumed.
	externals["github.com/google/go-containerregistry/pkg/v1/validate.Image"] = func(fr *frame, args []value) value { return iface{} }
	externals["github.com/google/go-containerregistry/pkg/v1/validate.Layer"] = func(fr *frame, args []value) value {
		return iface{}
	}
	// k8schain.New assembles registry credentials (pull secrets, cloud
	// credential helpers): environment. It yields some keychain and no error.
	externals["github.com/google/go-containerregistry/pkg/authn/k8schain.New"] = func(fr *frame, args []value) value {
		return tuple{iface{}, iface{}}
	}
}

func init() {
	// crossplane-runtime's fieldpath.removeSourceDuplicates builds its result
	// with reflect.New / reflect.Append, which the interpreter's reflection
	// does not cover: for two []any it returns the source elements that are
	// not deeply equal to any destination element (anything else: the source).
	externals["github.com/crossplane/crossplane-runtime/pkg/fieldpath.removeSourceDuplicates"] = func(fr *frame, args []value) value {
		dst, ok1 := args[0].(iface)
		src, ok2 := args[1].(iface)
		if !ok1 || !ok2 {
			return args[1]
		}
		ds, ok1 := dst.v.([]value)
		ss, ok2 := src.v.([]value)
		if !ok1 || !ok2 {
			return args[1]
		}
		out := []value{}
		for _, e := range ss {
			found := false
			for _, d := range ds {
				if fr.i.condValue(boolValue(deepEqualTerm(e, d, map[[2]*value]bool{}))) {
					found = true
					break
				}
			}
			if !found {
				out = append(out, e)
			}
		}
		if len(out) == 0 {
			out = nil // reflect.New(slice).Elem() with nothing appended is a nil slice
		}
		return iface{src.t, out}
	}
}
