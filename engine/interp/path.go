package interp

// Path state: path condition, decisions (forking by re-execution),
// nondeterministic inputs, assertions, observations.

import (
	"fmt"
	"sort"
	"strconv"
	"strings"
)

// Decision is one resolved decision point of a path.
type Decision struct {
	Alt     int  // alternative taken
	N       int  // number of alternatives at this point
	Implied bool // the alternative was the only feasible one: nothing asserted
}

func (d Decision) String() string {
	s := fmt.Sprintf("%d/%d", d.Alt, d.N)
	if d.Implied {
		s += "!"
	}
	return s
}

// pathEnd is the panic value that terminates a path from inside the engine.
type pathEnd struct{ reason string }

type Observation struct {
	Key  string
	Vals []string // rendered values; symbolic ones as SMT text
	syms []*Term  // the terms behind Vals (nil for concrete)
}

type Violation struct {
	Label     string
	Harness   string
	Model     map[string]string // nondet name -> rendered value
	Decisions []Decision
	Detail    string
	MapOrders int // map-order decision points on the violating path
}

// lockState is the state of one tracked sync.Mutex or sync.RWMutex.
type lockState struct {
	writer  bool
	readers int
}

type pathState struct {
	w            *Worker
	forced       []Decision
	pos          int
	decisions    []Decision
	pc           []*Term
	bindings     map[string]*Term
	names        map[string]int
	inputs       []inputDecl // nondet inputs in creation order
	obs          []Observation
	covers       map[string]bool
	asserts      map[string]int // label -> times checked
	viols        []Violation
	assumes      []string
	steps        int64
	diverged     string
	unknowns     int
	siblings     [][]Decision
	fresh        int
	calls        int64
	goStmts      int
	mapOrders    int
	mapOrdersOff bool
	lateGo       []pendingGo // goroutines not yet run (harness flag "latego")
	inLateGo     int
	pipes        map[*value]*pipeModel // modelled io.Pipe halves
	grpcConns    map[*value]*grpcConn  // modelled gRPC client connections
	locks        map[*value]*lockState // tracked mutexes (harness flag "locks")
	lastModel    map[string]*Term
	alpha        map[string]string // input name -> character class it is restricted to
	notes        map[string]bool   // failed Note labels
	opaques      map[string]bool   // opaque renderings seen on this path
	opaqueOrder  []string
}

type inputDecl struct {
	Name string
	Sort Sort
	Kind string // "bool","int","int64","str","choose"
}

func newPathState(w *Worker, forced []Decision) *pathState {
	return &pathState{w: w, forced: forced, bindings: map[string]*Term{}, names: map[string]int{},
		covers: map[string]bool{}, asserts: map[string]int{}}
}

// uniqueName makes nondet names unique within a path, deterministically.
func (ps *pathState) uniqueName(name string) string {
	ps.names[name]++
	if n := ps.names[name]; n > 1 {
		return fmt.Sprintf("%s#%d", name, n)
	}
	return name
}

// resolve substitutes bound variables and simplifies.
func (ps *pathState) resolve(t *Term) *Term {
	if t.isConst() || len(ps.bindings) == 0 {
		return t
	}
	return t.subst(ps.bindings)
}

// resolveValue replaces a symbolic leaf by a concrete one when bindings make
// it constant.
func (ps *pathState) resolveValue(v value) value {
	switch x := v.(type) {
	case symStr:
		return strValue(ps.resolve(x.t))
	case symInt:
		return intValue(ps.resolve(x.t), x.k)
	case symBool:
		return boolValue(ps.resolve(x.t))
	case iface:
		if isSym(x.v) {
			return iface{x.t, ps.resolveValue(x.v)}
		}
	}
	return v
}

// assertPC adds t to the path condition.
func (ps *pathState) assertPC(t *Term) {
	if t.isTrue() {
		return
	}
	ps.pc = append(ps.pc, t)
	ps.w.solver.Assert(t)
	ps.learn(t)
}

// learn records variable bindings implied by an asserted literal.
func (ps *pathState) learn(t *Term) {
	switch t.Op {
	case "and":
		for _, a := range t.Args {
			ps.learn(a)
		}
	case "var":
		ps.bind(t.Name, tTrue)
	case "not":
		if t.Args[0].Op == "var" {
			ps.bind(t.Args[0].Name, tFalse)
		}
	case "=":
		a, b := t.Args[0], t.Args[1]
		if a.Op == "var" && b.isConst() {
			ps.bind(a.Name, b)
		} else if b.Op == "var" && a.isConst() {
			ps.bind(b.Name, a)
		}
	}
}

func (ps *pathState) bind(name string, c *Term) {
	if _, ok := ps.bindings[name]; ok {
		return
	}
	// copy-on-write is unnecessary: bindings belong to this path only
	ps.bindings[name] = c
}

// decide resolves a decision point whose alternatives are mutually exclusive
// and exhaustive under the path condition. It returns the alternative taken
// on this path and schedules the other feasible ones.
func (ps *pathState) decide(alts []*Term, kind string) int {
	return ps.decide2(alts, kind, false)
}

// decideFree is decide for alternatives known to be all feasible (they only
// constrain a fresh variable), so no solver query is needed.
func (ps *pathState) decideFree(alts []*Term, kind string) int {
	return ps.decide2(alts, kind, true)
}

func (ps *pathState) decide2(alts []*Term, kind string, free bool) int {
	res := make([]*Term, len(alts))
	live := 0
	last := -1
	for i, a := range alts {
		res[i] = ps.normalize(ps.resolve(a))
		if res[i].isTrue() {
			return i
		}
		if !res[i].isFalse() {
			live++
			last = i
		}
	}
	if live == 0 {
		// exhaustive alternatives all false: the path condition itself is
		// contradictory (can only follow an unknown answer)
		panic(pathEnd{"infeasible"})
	}
	if live == 1 {
		return last
	}
	if ps.pos < len(ps.forced) {
		d := ps.forced[ps.pos]
		ps.pos++
		if d.N != len(alts) || d.Alt >= len(alts) {
			ps.diverged = fmt.Sprintf("decision %d (%s): recorded %v, now %d alternatives", ps.pos-1, kind, d, len(alts))
			panic(pathEnd{"diverged"})
		}
		ps.decisions = append(ps.decisions, d)
		if !d.Implied {
			ps.assertPC(res[d.Alt])
		} else {
			ps.learn(res[d.Alt])
		}
		return d.Alt
	}
	ps.w.budgetCheck(ps)
	var feasible []int
	for i, a := range res {
		if a.isFalse() {
			continue
		}
		if i == last && len(feasible) == 0 {
			// every other alternative is infeasible and the path condition is
			// satisfiable, so this one is implied
			feasible = append(feasible, i)
			break
		}
		if free {
			feasible = append(feasible, i)
			continue
		}
		r, _ := ps.w.solver.Check(a, false)
		switch r {
		case Sat:
			feasible = append(feasible, i)
		case Unknown:
			ps.unknowns++
			feasible = append(feasible, i)
		}
	}
	if len(feasible) == 0 {
		panic(pathEnd{"infeasible"})
	}
	implied := len(feasible) == 1 && ps.unknowns == 0
	take := feasible[0]
	base := append([]Decision{}, ps.decisions...)
	for _, j := range feasible[1:] {
		sib := append(append([]Decision{}, base...), Decision{Alt: j, N: len(alts)})
		ps.siblings = append(ps.siblings, sib)
	}
	d := Decision{Alt: take, N: len(alts), Implied: implied}
	ps.decisions = append(ps.decisions, d)
	if implied {
		ps.learn(res[take])
	} else {
		ps.assertPC(res[take])
	}
	return take
}

// decideBool forks on a boolean term and returns the branch taken.
func (ps *pathState) decideBool(c *Term, kind string) bool {
	return ps.decide([]*Term{c, mkNot(c)}, kind) == 0
}

// condValue resolves a (possibly symbolic) bool to a concrete branch.
func (ps *pathState) condValue(v value, kind string) bool {
	switch v := v.(type) {
	case bool:
		return v
	case symBool:
		return ps.decideBool(v.t, kind)
	}
	panic(fmt.Sprintf("condValue: %T", v))
}

// assume restricts the path to cond.
func (ps *pathState) assume(cond value, what string) {
	var t *Term
	switch c := cond.(type) {
	case bool:
		if !c {
			panic(pathEnd{"assume-false"})
		}
		return
	case symBool:
		t = ps.normalize(ps.resolve(c.t))
	}
	if t.isTrue() {
		return
	}
	if t.isFalse() {
		panic(pathEnd{"assume-false"})
	}
	ps.assumes = append(ps.assumes, what)
	if ps.pos < len(ps.forced) {
		d := ps.forced[ps.pos]
		ps.pos++
		if d.N != 1 {
			ps.diverged = fmt.Sprintf("decision %d (assume %s): recorded %v", ps.pos-1, what, d)
			panic(pathEnd{"diverged"})
		}
		ps.decisions = append(ps.decisions, d)
		ps.assertPC(t)
		return
	}
	r, _ := ps.w.solver.Check(t, false)
	if r == Unsat {
		panic(pathEnd{"assume-false"})
	}
	if r == Unknown {
		ps.unknowns++
	}
	ps.decisions = append(ps.decisions, Decision{Alt: 0, N: 1})
	ps.assertPC(t)
}

// check is a harness assertion: cond must hold for every value on this path.
func (ps *pathState) check(label string, cond value, harness string) {
	ps.asserts[label]++
	var t *Term
	switch c := cond.(type) {
	case bool:
		t = mkBool(c)
	case symBool:
		t = ps.normalize(ps.resolve(c.t))
	}
	if t.isTrue() {
		return
	}
	neg := mkNot(t)
	var r Result
	var model map[string]*Term
	if neg.isTrue() {
		r, model = ps.w.solver.Check(nil, true)
	} else {
		r, model = ps.w.solver.Check(neg, true)
	}
	ps.w.assertQueries++
	switch r {
	case Unsat:
		ps.w.assertUnsat++
		if neg.isTrue() {
			// the path condition itself is unsatisfiable
			panic(pathEnd{"infeasible"})
		}
		if n := ps.w.e.Cfg.CrossCheckEvery; n > 0 && ps.w.assertUnsat%n == 1%n {
			// second opinion on "holds" from the other z3 build
			r2, _ := ps.w.solver.fallback(neg, false)
			ps.w.crossChecked++
			if r2 == Sat {
				ps.w.crossDisagree++
				ps.w.noteInconclusive(fmt.Sprintf("assertion %q: the two solvers disagree (unsat vs sat)", label))
			}
		}
		return
	case Unknown:
		ps.w.assertUnknown++
		ps.w.noteInconclusive(fmt.Sprintf("assertion %q: solver answered unknown", label))
		return
	}
	ps.w.assertSat++
	v := Violation{Label: label, Harness: harness, Model: ps.renderModel(model),
		Decisions: append([]Decision{}, ps.decisions...)}
	ps.viols = append(ps.viols, v)
	// continue the path on the side where the assertion holds, if any
	if t.isFalse() {
		panic(pathEnd{"assert-failed"})
	}
	rr, _ := ps.w.solver.Check(t, false)
	if rr == Unsat {
		panic(pathEnd{"assert-failed"})
	}
	ps.assertPC(t)
}

func (ps *pathState) renderModel(model map[string]*Term) map[string]string {
	out := map[string]string{}
	for _, in := range ps.inputs {
		if v, ok := model[in.Name]; ok {
			out[in.Name] = renderConst(v, in.Kind)
		}
	}
	// variables bound but not declared to the solver
	for _, in := range ps.inputs {
		if _, ok := out[in.Name]; !ok {
			if b, ok := ps.bindings[in.Name]; ok {
				out[in.Name] = renderConst(b, in.Kind)
			}
		}
	}
	return out
}

func renderConst(t *Term, kind string) string {
	switch t.Sort.K {
	case 'b':
		if t.B {
			return "true"
		}
		return "false"
	case 's':
		return t.S
	case 'v':
		if kind == "uint64" || kind == "uint" {
			return fmt.Sprintf("%d", t.U)
		}
		return fmt.Sprintf("%d", sext(t.U, t.Sort.Bits))
	}
	return fmt.Sprintf("%d", int64(t.U))
}

// currentModel returns a model of the path condition.
func (ps *pathState) currentModel() (map[string]string, bool) {
	r, model := ps.w.solver.Check(nil, true)
	if r != Sat {
		return nil, false
	}
	ps.lastModel = model
	return ps.renderModel(model), true
}

// evalUnderModel evaluates t under the last model (unassigned variables take
// the zero value of their sort) and renders it.
func (ps *pathState) evalUnderModel(t *Term) string {
	r := ps.substModel(t, 0)
	if !r.isConst() {
		return "?" + r.SMT()
	}
	return renderConst(r, "")
}

// substModel evaluates t under the last model; opaque decimal renderings are
// computed from the value of the number they render.
func (ps *pathState) substModel(t *Term, depth int) *Term {
	vs := map[string]Sort{}
	t.vars(vs)
	b := map[string]*Term{}
	for n, s := range vs {
		if o, ok := opaqueReg.Load(n); ok && depth < 4 {
			oi := o.(opaqueInfo)
			if signed, dec := isDecimalKind(oi.kind); dec {
				if a := ps.substModel(oi.arg, depth+1); a.isConst() {
					if signed {
						b[n] = mkStr(strconv.FormatInt(sext(a.U, a.Sort.Bits), 10))
					} else {
						b[n] = mkStr(strconv.FormatUint(a.U, 10))
					}
					continue
				}
			}
		}
		if v, ok := ps.lastModel[n]; ok {
			b[n] = v
		} else if v, ok := ps.bindings[n]; ok {
			b[n] = v
		} else {
			switch s.K {
			case 'b':
				b[n] = tFalse
			case 'v':
				b[n] = mkBV(s.Bits, 0)
			case 's':
				b[n] = mkStr("")
			default:
				b[n] = mkIntC(0)
			}
		}
	}
	return t.subst(b)
}

func (ps *pathState) observe(key string, vals []value) {
	o := Observation{Key: key}
	for _, v := range vals {
		v = ps.resolveValue(v)
		switch x := v.(type) {
		case symStr:
			o.Vals = append(o.Vals, "")
			o.syms = append(o.syms, x.t)
		case symInt:
			o.Vals = append(o.Vals, "")
			o.syms = append(o.syms, x.t)
		case symBool:
			o.Vals = append(o.Vals, "")
			o.syms = append(o.syms, x.t)
		default:
			o.Vals = append(o.Vals, renderObserved(v))
			o.syms = append(o.syms, nil)
		}
	}
	ps.obs = append(ps.obs, o)
}

func renderObserved(v value) string {
	switch x := v.(type) {
	case string:
		return x
	case bool:
		if x {
			return "true"
		}
		return "false"
	case iface:
		if x.t == nil {
			return "<nil>"
		}
		return renderObserved(x.v)
	}
	if _, ok := intKind(v); ok {
		if _, u := v.(uint64); u {
			return fmt.Sprintf("%d", v)
		}
		return fmt.Sprintf("%d", v)
	}
	return toString(v)
}

func decisionsString(ds []Decision) string {
	var parts []string
	for _, d := range ds {
		parts = append(parts, d.String())
	}
	return strings.Join(parts, " ")
}

func sortedKeys(m map[string]bool) []string {
	var ks []string
	for k := range m {
		ks = append(ks, k)
	}
	sort.Strings(ks)
	return ks
}

// normalize rewrites string equalities between concatenations whose parts
// are separated by a constant character that none of the symbolic parts can
// contain (alphabet facts of the inputs) into segment-wise equalities. The
// rewrite is an equivalence under the path's alphabet assumptions and spares
// the solver word equations.
func (ps *pathState) normalize(t *Term) *Term {
	if (len(ps.alpha) == 0 && len(ps.opaques) == 0) || t.isConst() || t.Op == "var" {
		return t
	}
	if t.Op == "=" && t.Args[0].Sort.K == 's' {
		if r := ps.splitEqRec(t.Args[0], t.Args[1], 0); r != nil {
			return r
		}
		return t
	}
	switch t.Op {
	case "not", "and", "or", "ite":
		changed := false
		args := make([]*Term, len(t.Args))
		for i, a := range t.Args {
			args[i] = ps.normalize(a)
			if args[i] != a {
				changed = true
			}
		}
		if changed {
			return rebuild(t, args)
		}
	}
	return t
}

// splitEqRec splits recursively and decides equalities between opaque
// renderings of numbers by the numbers themselves.
func (ps *pathState) splitEqRec(a, b *Term, depth int) *Term {
	if a.isConst() && b.isConst() {
		return mkBool(a.S == b.S)
	}
	if r := opaqueEq(a, b); r != nil {
		return r
	}
	if depth > 8 {
		return nil
	}
	return ps.splitEq(a, b, depth)
}

func (ps *pathState) splitEq(a, b *Term, depth int) *Term {
	pa, pb := strParts(a), strParts(b)
	// candidate separators: characters of the constant parts
	seen := map[byte]bool{}
	var cands []byte
	for _, ps2 := range [][]*Term{pa, pb} {
		for _, p := range ps2 {
			if p.isConst() {
				for k := 0; k < len(p.S); k++ {
					if !seen[p.S[k]] {
						seen[p.S[k]] = true
						cands = append(cands, p.S[k])
					}
				}
			}
		}
	}
	for _, c := range cands {
		sa, ok1 := ps.segments(pa, c)
		sb, ok2 := ps.segments(pb, c)
		if !ok1 || !ok2 || (len(sa) == 1 && len(sb) == 1) {
			continue
		}
		if len(sa) != len(sb) {
			return tFalse
		}
		var cs []*Term
		for k := range sa {
			if r := ps.splitEqRec(sa[k], sb[k], depth+1); r != nil {
				cs = append(cs, r)
			} else {
				cs = append(cs, mkEq(sa[k], sb[k]))
			}
		}
		return mkAnd(cs...)
	}
	return nil
}

// segments splits a concatenation at every occurrence of c, provided no
// symbolic part can contain c.
func (ps *pathState) segments(parts []*Term, c byte) ([]*Term, bool) {
	var out []*Term
	var cur []*Term
	for _, p := range parts {
		if !p.isConst() {
			if !ps.partExcludes(p, c) {
				return nil, false
			}
			cur = append(cur, p)
			continue
		}
		rest := p.S
		for {
			idx := indexByte(rest, c)
			if idx < 0 {
				break
			}
			cur = append(cur, mkStr(rest[:idx]))
			out = append(out, mkConcat(cur...))
			cur = nil
			rest = rest[idx+1:]
		}
		cur = append(cur, mkStr(rest))
	}
	out = append(out, mkConcat(cur...))
	return out, true
}
