package interp

// declined is returned by an intrinsic that does not apply to its arguments:
// the function body is interpreted instead.
type declined struct{}
