package interp

// Insertion-ordered maps with support for symbolic keys.
//
// All Go maps of the interpreted program are *omap values. Iteration order is
// insertion order, which keeps re-execution of a path deterministic. Keys
// that contain a symbolic leaf are kept in the same entry list but are not
// indexed; looking a key up against them is a decision point.

import (
	"fmt"
	"go/types"
	"strings"
)

type hashable interface {
	hash(t types.Type) int
	eq(t types.Type, x interface{}) bool
}

type omap struct {
	keyType types.Type
	keys    []value
	vals    []value
	dead    []bool
	idx     map[interface{}]int // concrete keys -> entry
	nsym    int                 // number of live entries with symbolic keys
	n       int                 // live entries
}

// makeMap returns an empty initialized map of key type kt.
func makeMap(kt types.Type, reserve int64) value {
	return &omap{keyType: kt, idx: make(map[interface{}]int)}
}

// concreteKey returns a Go-hashable representative of a fully concrete key.
func concreteKey(v value) (interface{}, bool) {
	switch v := v.(type) {
	case symBool, symInt, symStr:
		return nil, false
	case structure, array, iface, rtype:
		var b strings.Builder
		if !writeKey(&b, v) {
			return nil, false
		}
		return compositeKey(b.String()), true
	}
	return v, true
}

type compositeKey string

func writeKey(b *strings.Builder, v value) bool {
	switch v := v.(type) {
	case symBool, symInt, symStr:
		return false
	case structure:
		b.WriteString("{")
		for _, e := range v {
			if !writeKey(b, e) {
				return false
			}
			b.WriteString(",")
		}
		b.WriteString("}")
	case array:
		b.WriteString("[")
		for _, e := range v {
			if !writeKey(b, e) {
				return false
			}
			b.WriteString(",")
		}
		b.WriteString("]")
	case iface:
		if v.t == nil {
			b.WriteString("<nil>")
			return true
		}
		fmt.Fprintf(b, "(%s:", v.t.String())
		if !writeKey(b, v.v) {
			return false
		}
		b.WriteString(")")
	case rtype:
		fmt.Fprintf(b, "rtype(%s)", v.t.String())
	case string:
		fmt.Fprintf(b, "%q", v)
	case *value:
		fmt.Fprintf(b, "%p", v)
	default:
		fmt.Fprintf(b, "%T(%v)", v, v)
	}
	return true
}

// find returns the entry index holding key k, or -1. When k or stored keys
// are symbolic this is a decision point of the current path.
func (m *omap) find(fr *frame, k value) int {
	if m == nil {
		return -1
	}
	if fr != nil && fr.i.ps != nil {
		k = fr.i.ps.resolveValue(k)
	}
	if ck, ok := concreteKey(k); ok {
		if i, ok := m.idx[ck]; ok {
			return i
		}
		if m.nsym == 0 {
			return -1
		}
		// compare against symbolic-key entries only
		var conds []*Term
		var which []int
		for i := range m.keys {
			if m.dead[i] || !containsSym(m.keys[i]) {
				continue
			}
			conds = append(conds, eqTerm(m.keyType, k, m.keys[i]))
			which = append(which, i)
		}
		return m.decideEntry(fr, conds, which)
	}
	var conds []*Term
	var which []int
	for i := range m.keys {
		if m.dead[i] {
			continue
		}
		conds = append(conds, eqTerm(m.keyType, k, m.keys[i]))
		which = append(which, i)
	}
	return m.decideEntry(fr, conds, which)
}

func (m *omap) decideEntry(fr *frame, conds []*Term, which []int) int {
	if len(conds) == 0 {
		return -1
	}
	if fr == nil || fr.i.ps == nil {
		unsupported("symbolic map key outside a path")
	}
	alts := append(append([]*Term{}, conds...), mkNot(mkOr(conds...)))
	a := fr.i.ps.decide(alts, "mapkey")
	if a == len(conds) {
		return -1
	}
	return which[a]
}

func (m *omap) lookup(fr *frame, k value) (value, bool) {
	i := m.find(fr, k)
	if i < 0 {
		return nil, false
	}
	return m.vals[i], true
}

func (m *omap) insert(fr *frame, k, v value) {
	if m == nil {
		panic("assignment to entry in nil map")
	}
	if fr != nil && fr.i.ps != nil {
		k = fr.i.ps.resolveValue(k)
	}
	if i := m.find(fr, k); i >= 0 {
		m.vals[i] = v
		return
	}
	m.keys = append(m.keys, k)
	m.vals = append(m.vals, v)
	m.dead = append(m.dead, false)
	m.n++
	if ck, ok := concreteKey(k); ok {
		m.idx[ck] = len(m.keys) - 1
	} else {
		m.nsym++
	}
}

func (m *omap) delete(fr *frame, k value) {
	if m == nil {
		return
	}
	i := m.find(fr, k)
	if i < 0 {
		return
	}
	if ck, ok := concreteKey(m.keys[i]); ok {
		delete(m.idx, ck)
	} else {
		m.nsym--
	}
	m.dead[i] = true
	m.keys[i] = nil
	m.vals[i] = nil
	m.n--
}

func (m *omap) len() int {
	if m == nil {
		return 0
	}
	return m.n
}

// clear removes all entries (the "clear" builtin).
func (m *omap) clear() {
	if m == nil {
		return
	}
	m.keys, m.vals, m.dead = nil, nil, nil
	m.idx = make(map[interface{}]int)
	m.n, m.nsym = 0, 0
}

// each calls f for every live entry in insertion order.
func (m *omap) each(f func(k, v value)) {
	if m == nil {
		return
	}
	for i := range m.keys {
		if !m.dead[i] {
			f(m.keys[i], m.vals[i])
		}
	}
}

type omapIter struct {
	m *omap
	i int
}

func (it *omapIter) next() tuple {
	for it.m != nil && it.i < len(it.m.keys) {
		i := it.i
		it.i++
		if !it.m.dead[i] {
			return tuple{true, it.m.keys[i], it.m.vals[i]}
		}
	}
	return tuple{false, nil, nil}
}

// appendDistinct appends an entry whose key is known to differ from every
// key already present (copying from another map).
func (m *omap) appendDistinct(k, v value) {
	m.keys = append(m.keys, k)
	m.vals = append(m.vals, v)
	m.dead = append(m.dead, false)
	m.n++
	if ck, ok := concreteKey(k); ok {
		m.idx[ck] = len(m.keys) - 1
	} else {
		m.nsym++
	}
}
