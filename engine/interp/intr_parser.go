package interp

// Model of crossplane-runtime's PackageParser.Parse for the object kinds the
// initializer reads from its manifest directories. The real parser runs the
// API machinery's codec factory (reflection over a runtime.Scheme), which
// the interpreter does not support; the model splits the YAML stream and
// decodes each document structurally into the Go type of its kind. Every
// object lands in the package's objects (the initializer's meta scheme is
// empty).

import (
	"go/token"
	"go/types"
	"strings"

	"sigs.k8s.io/yaml"
)

// kind table: apiVersion/kind -> (package path, type name)
var parserKinds = map[string][2]string{
	"apiextensions.k8s.io/v1/CustomResourceDefinition":               {"k8s.io/apiextensions-apiserver/pkg/apis/apiextensions/v1", "CustomResourceDefinition"},
	"admissionregistration.k8s.io/v1/ValidatingWebhookConfiguration": {"k8s.io/api/admissionregistration/v1", "ValidatingWebhookConfiguration"},
	"admissionregistration.k8s.io/v1/MutatingWebhookConfiguration":   {"k8s.io/api/admissionregistration/v1", "MutatingWebhookConfiguration"},
}

func splitYAMLDocs(b []byte) [][]byte {
	var docs [][]byte
	var cur []string
	flush := func() {
		d := strings.Join(cur, "\n")
		if strings.TrimSpace(d) != "" {
			docs = append(docs, []byte(d))
		}
		cur = nil
	}
	for _, line := range strings.Split(string(b), "\n") {
		if strings.HasPrefix(line, "---") {
			flush()
			continue
		}
		cur = append(cur, line)
	}
	flush()
	return docs
}

func init() {
	externals["(*github.com/crossplane/crossplane-runtime/pkg/parser.PackageParser).Parse"] = func(fr *frame, args []value) value {
		i := fr.i
		fail := func(msg string) value {
			e := call(i, fr, token.NoPos, i.prog.ImportedPackage("errors").Func("New"), []value{msg})
			return tuple{(*value)(nil), e}
		}
		if r, _ := args[2].(iface); r.t == nil {
			var cell value = structure{[]value(nil), []value(nil)}
			return tuple{&cell, iface{}}
		}
		ra := call(i, fr, token.NoPos, i.prog.ImportedPackage("io").Func("ReadAll"), []value{args[2]}).(tuple)
		if e, _ := ra[1].(iface); e.t != nil {
			return tuple{(*value)(nil), ra[1]}
		}
		data := bytesOf(fr, ra[0], "package stream")
		var objs []value
		for _, doc := range splitYAMLDocs(data) {
			j, err := yaml.YAMLToJSON(doc)
			if err != nil {
				return fail("cannot parse YAML document: " + err.Error())
			}
			if strings.TrimSpace(string(j)) == "null" {
				continue
			}
			var res value
			failed := i.jsonGuard(func() value {
				tree := i.jsonBytesToTree(fr, j)
				m, ok := tree.v.(*omap)
				if !ok {
					jsonFail("document is not an object")
				}
				str := func(k string) string {
					v, ok := m.lookup(fr, k)
					if !ok {
						return ""
					}
					it, _ := v.(iface)
					s, _ := it.v.(string)
					return s
				}
				avs, kds := str("apiVersion"), str("kind")
				ent, known := parserKinds[avs+"/"+kds]
				if !known {
					unsupported("parser model: kind %s/%s is not in the model's table", avs, kds)
				}
				pkg := i.prog.ImportedPackage(ent[0])
				if pkg == nil {
					unsupported("parser model: package %s is not loaded", ent[0])
				}
				t := pkg.Type(ent[1]).Type()
				var cell value = i.treeToTyped(fr, tree, t, nil)
				res = iface{types.NewPointer(t), &cell}
				return nil
			}, func(e value) value { return e })
			if failed != nil {
				return tuple{(*value)(nil), failed}
			}
			objs = append(objs, res)
		}
		var cell value = structure{[]value(nil), objs}
		return tuple{&cell, iface{}}
	}
}
