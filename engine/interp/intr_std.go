package interp

// Intrinsics for the Go standard library: sync, sync/atomic, fmt, errors,
// sort, reflect.DeepEqual, time, context.

import (
	"fmt"
	"go/token"
	"go/types"
	"strconv"
	"strings"

	"golang.org/x/tools/go/ssa"
)

func init() {
	nop := func(fr *frame, args []value) value { return nil }
	for _, n := range []string{
		"(*sync.WaitGroup).Add", "(*sync.WaitGroup).Done", "(*sync.WaitGroup).Wait",
		"(*sync.Pool).Put",
		"runtime.SetFinalizer", "runtime.KeepAlive", "runtime.Gosched",
		"internal/race.Acquire", "internal/race.Release", "internal/race.ReleaseMerge", "internal/race.Disable", "internal/race.Enable",
		"internal/race.Read", "internal/race.Write", "internal/race.ReadRange", "internal/race.WriteRange",
		"sync.runtime_registerPoolCleanup", "sync.runtime_procUnpin",
		"sync.runtime_Semrelease", "sync.runtime_Semacquire", "sync.runtime_SemacquireMutex", "sync.runtime_SemacquireRWMutex", "sync.runtime_SemacquireRWMutexR",
		"sync.throw", "sync.fatal",
		"crypto/internal/boring/sig.StandardCrypto", "crypto/internal/boring/sig.BoringCrypto", "crypto/internal/boring/sig.FIPSOnly",
	} {
		externals[n] = nop
	}
	// Mutexes: no-ops by default (a path is one sequential execution). A
	// harness marked "locks" has them tracked per path: acquiring a lock the
	// one thread of execution already holds is a deadlock (reported as a
	// panic), and TryLock/TryRLock answer from the tracked state - which lets a
	// harness ask at a scheduling point whether a concurrent actor could enter
	// a critical section right now.
	lockOp := func(op string) externalFn {
		return func(fr *frame, args []value) value {
			ps := fr.i.ps
			if ps == nil || !fr.i.w.e.TrackLocks {
				if op == "trylock" || op == "tryrlock" {
					return true
				}
				return nil
			}
			key, _ := args[0].(*value)
			if ps.locks == nil {
				ps.locks = map[*value]*lockState{}
			}
			st := ps.locks[key]
			if st == nil {
				st = &lockState{}
				ps.locks[key] = st
			}
			deadlock := func(what string) {
				panic(targetPanic{iface{fr.i.runtimeErrorString, "deadlock: " + what + " in " + fr.fn.String()}})
			}
			switch op {
			case "lock":
				if st.writer || st.readers > 0 {
					deadlock("Lock of a mutex already held by this thread of execution")
				}
				st.writer = true
			case "trylock":
				if st.writer || st.readers > 0 {
					return false
				}
				st.writer = true
				return true
			case "unlock":
				if !st.writer {
					panic(targetPanic{iface{fr.i.runtimeErrorString, "sync: unlock of unlocked mutex"}})
				}
				st.writer = false
			case "rlock":
				if st.writer {
					deadlock("RLock of a mutex write-locked by this thread of execution")
				}
				st.readers++
			case "tryrlock":
				if st.writer {
					return false
				}
				st.readers++
				return true
			case "runlock":
				if st.readers == 0 {
					panic(targetPanic{iface{fr.i.runtimeErrorString, "sync: RUnlock of unlocked RWMutex"}})
				}
				st.readers--
			}
			return nil
		}
	}
	externals["(*sync.Mutex).Lock"] = lockOp("lock")
	externals["(*sync.Mutex).Unlock"] = lockOp("unlock")
	externals["(*sync.Mutex).TryLock"] = lockOp("trylock")
	externals["(*sync.RWMutex).Lock"] = lockOp("lock")
	externals["(*sync.RWMutex).Unlock"] = lockOp("unlock")
	externals["(*sync.RWMutex).TryLock"] = lockOp("trylock")
	externals["(*sync.RWMutex).RLock"] = lockOp("rlock")
	externals["(*sync.RWMutex).RUnlock"] = lockOp("runlock")
	externals["(*sync.RWMutex).TryRLock"] = lockOp("tryrlock")
	externals["(*sync.Pool).Get"] = func(fr *frame, args []value) value {
		p := (*args[0].(*value)).(structure)
		// Pool struct: the New field is the last one
		newFn := p[len(p)-1]
		switch f := newFn.(type) {
		case *ssa.Function:
			if f == nil {
				return iface{}
			}
		case nil:
			return iface{}
		}
		return call(fr.i, fr, token.NoPos, newFn, nil)
	}
	externals["(*sync.Once).Do"] = func(fr *frame, args []value) value {
		o := (*args[0].(*value)).(structure)
		// Once{done atomic.Uint32; m Mutex}; done is structure{noCopy, v}
		d := o[0].(structure)
		if d[len(d)-1].(uint32) != 0 {
			return nil
		}
		d[len(d)-1] = uint32(1)
		call(fr.i, fr, token.NoPos, args[1], nil)
		return nil
	}
	externals["(*sync.Once).doSlow"] = externals["(*sync.Once).Do"]

	// sync/atomic on boxed cells
	atomicLoad := func(fr *frame, args []value) value { return *args[0].(*value) }
	atomicStore := func(fr *frame, args []value) value { *args[0].(*value) = args[1]; return nil }
	atomicSwap := func(fr *frame, args []value) value {
		p := args[0].(*value)
		old := *p
		*p = args[1]
		return old
	}
	atomicCAS := func(fr *frame, args []value) value {
		p := args[0].(*value)
		if isSym(*p) || isSym(args[1]) {
			unsupported("atomic compare-and-swap on symbolic value")
		}
		if *p == args[1] {
			*p = args[2]
			return true
		}
		return false
	}
	atomicAdd := func(fr *frame, args []value) value {
		p := args[0].(*value)
		*p = binop(fr, token.ADD, nil, *p, args[1])
		return *p
	}
	for _, t := range []string{"Int32", "Int64", "Uint32", "Uint64", "Uintptr", "Pointer"} {
		externals["sync/atomic.Load"+t] = atomicLoad
		externals["sync/atomic.Store"+t] = atomicStore
		externals["sync/atomic.Swap"+t] = atomicSwap
		externals["sync/atomic.CompareAndSwap"+t] = atomicCAS
		if t != "Pointer" {
			externals["sync/atomic.Add"+t] = atomicAdd
		}
	}
	// atomic.Value and atomic.Pointer[T] are built on unsafe; model them on
	// the first field of the struct.
	externals["(*sync/atomic.Value).Load"] = func(fr *frame, args []value) value {
		s := (*args[0].(*value)).(structure)
		if v, ok := s[0].(iface); ok {
			return v
		}
		return iface{}
	}
	externals["(*sync/atomic.Value).Store"] = func(fr *frame, args []value) value {
		s := (*args[0].(*value)).(structure)
		s[0] = args[1]
		return nil
	}
	externals["(*sync/atomic.Value).CompareAndSwap"] = func(fr *frame, args []value) value {
		s := (*args[0].(*value)).(structure)
		s[0] = args[2]
		return true
	}

	externals["fmt.Sprintf"] = func(fr *frame, args []value) value {
		return fr.i.sprintf(fr, args[0], args[1].([]value))
	}
	externals["fmt.Sprint"] = func(fr *frame, args []value) value {
		return fr.i.sprint(fr, args[0].([]value), false)
	}
	externals["fmt.Sprintln"] = func(fr *frame, args []value) value {
		return fr.i.sprint(fr, args[0].([]value), true)
	}
	externals["fmt.Errorf"] = extFmtErrorf
	externals["fmt.Println"] = func(fr *frame, args []value) value { return tuple{0, iface{}} }
	externals["fmt.Printf"] = func(fr *frame, args []value) value { return tuple{0, iface{}} }
	externals["fmt.Fprintf"] = func(fr *frame, args []value) value { return tuple{0, iface{}} }
	externals["fmt.Fprintln"] = func(fr *frame, args []value) value { return tuple{0, iface{}} }
	externals["fmt.Fprint"] = func(fr *frame, args []value) value { return tuple{0, iface{}} }

	externals["errors.Is"] = func(fr *frame, args []value) value {
		return fr.i.errorsIs(fr, args[0].(iface), args[1].(iface))
	}
	externals["errors.As"] = func(fr *frame, args []value) value {
		return fr.i.errorsAs(fr, args[0].(iface), args[1].(iface))
	}

	externals["sort.Slice"] = func(fr *frame, args []value) value { sortSlice(fr, args[0], args[1]); return nil }
	externals["sort.SliceStable"] = externals["sort.Slice"]
	externals["sort.Strings"] = func(fr *frame, args []value) value {
		x := args[0].([]value)
		insertionSort(len(x), func(a, b int) bool {
			return fr.i.condValue(binop(fr, token.LSS, types.Typ[types.String], x[a], x[b]))
		}, func(a, b int) { x[a], x[b] = x[b], x[a] })
		return nil
	}
	externals["sort.Ints"] = func(fr *frame, args []value) value {
		x := args[0].([]value)
		insertionSort(len(x), func(a, b int) bool {
			return fr.i.condValue(binop(fr, token.LSS, types.Typ[types.Int], x[a], x[b]))
		}, func(a, b int) { x[a], x[b] = x[b], x[a] })
		return nil
	}
	externals["sort.Sort"] = extSortSort
	externals["sort.Stable"] = extSortSort

	externals["reflect.DeepEqual"] = func(fr *frame, args []value) value {
		return boolValue(deepEqualTerm(args[0], args[1], map[[2]*value]bool{}))
	}

	externals["github.com/google/go-cmp/cmp.Equal"] = func(fr *frame, args []value) value {
		// the only option used by the code under test is cmpopts.EquateEmpty
		opts := args[2].([]value)
		return boolValue(deepEqualTermOpt(args[0], args[1], map[[2]*value]bool{}, len(opts) > 0))
	}
	externals["github.com/google/go-cmp/cmp/cmpopts.EquateEmpty"] = func(fr *frame, args []value) value {
		return iface{types.Typ[types.Bool], true} // an opaque, non-nil cmp.Option
	}
	externals["time.Now"] = extTimeNow
	externals["time.Sleep"] = nop
	externals["time.Since"] = func(fr *frame, args []value) value { return int64(0) }
	externals["time.Until"] = func(fr *frame, args []value) value { return int64(3600_000_000_000) } // deadlines never expire
	externals["time.AfterFunc"] = func(fr *frame, args []value) value {
		// the function is never run: timers do not fire under the engine
		t := fr.fn.Signature.Results().At(0).Type()
		cell := zero(mustDeref(t))
		return &cell
	}
	externals["(*time.Timer).Stop"] = func(fr *frame, args []value) value { return true }
	externals["(*time.Timer).Reset"] = func(fr *frame, args []value) value { return true }
	externals["(*time.Ticker).Stop"] = func(fr *frame, args []value) value { return nil }
	newTimer := func(fr *frame, args []value) value {
		t := fr.fn.Signature.Results().At(0).Type()
		cell := zero(mustDeref(t))
		// field 0 is the channel C: present but never ready
		cell.(structure)[0] = make(chan value, 1)
		return &cell
	}
	externals["time.NewTimer"] = newTimer
	externals["time.NewTicker"] = newTimer
	// time.After: a channel that delivers once every other case of a blocking
	// select has turned out not to be ready (time passes only when the thread
	// of execution would otherwise wait)
	externals["time.After"] = func(fr *frame, args []value) value {
		c := make(chan value, 1)
		if fr.i.timers == nil {
			fr.i.timers = map[chan value]bool{}
		}
		fr.i.timers[c] = true
		return c
	}
	externals["time.Tick"] = func(fr *frame, args []value) value { return make(chan value, 1) }
	externals["time.runtimeNano"] = func(fr *frame, args []value) value { return fr.i.tick() }
	externals["time.now"] = func(fr *frame, args []value) value {
		t := fr.i.tick()
		return tuple{int64(1700000000 + t/1e9), int32(t % 1e9), t}
	}
	externals["runtime.nanotime"] = func(fr *frame, args []value) value { return fr.i.tick() }

	externals["os.Getenv"] = func(fr *frame, args []value) value { return "" }
	externals["os.LookupEnv"] = func(fr *frame, args []value) value { return tuple{"", false} }
	externals["os.Getpid"] = func(fr *frame, args []value) value { return 4242 }
	externals["os.Hostname"] = func(fr *frame, args []value) value { return tuple{"gosym", iface{}} }
	externals["syscall.Getenv"] = func(fr *frame, args []value) value { return tuple{"", false} }
	externals["syscall.runtime_envs"] = func(fr *frame, args []value) value { return []value{} }
	externals["runtime.Caller"] = func(fr *frame, args []value) value { return tuple{uintptr(0), "gosym", 0, false} }
	externals["runtime.Callers"] = func(fr *frame, args []value) value { return 0 }
	externals["runtime.NumGoroutine"] = func(fr *frame, args []value) value { return 1 }
	externals["runtime/debug.ReadBuildInfo"] = func(fr *frame, args []value) value { return tuple{(*value)(nil), false} }
	externals["math/rand.Int63"] = func(fr *frame, args []value) value { return int64(4) }
	externals["math/rand.Intn"] = func(fr *frame, args []value) value { return 0 }
	externals["math/rand.Int31n"] = func(fr *frame, args []value) value { return int32(0) }
	externals["math/rand.Float64"] = func(fr *frame, args []value) value { return float64(0.5) }
}

func (i *interpreter) tick() int64 {
	i.clock += 1_000_000_000
	return i.clock
}

func extTimeNow(fr *frame, args []value) value {
	// time.Time{wall uint64, ext int64, loc *Location}: a monotone fake clock,
	// UTC, no monotonic reading.
	t := fr.i.tick()
	sec := int64(62135596800) + 1_700_000_000 + t/1e9 // seconds since year 1
	return structure{uint64(0), sec, (*value)(nil)}
}

// ---------------------------------------------------------------------
// method calls from the engine

// findMethod returns the method named name of dynamic type t.
func (i *interpreter) findMethod(t types.Type, name string) *ssa.Function {
	if t == nil {
		return nil
	}
	switch t {
	case errorType:
		return i.errorMethods[name]
	case rtypeType:
		return i.rtypeMethods[name]
	}
	ms := i.prog.MethodSets.MethodSet(t)
	for k := 0; k < ms.Len(); k++ {
		sel := ms.At(k)
		if sel.Obj().Name() == name {
			return i.prog.MethodValue(sel)
		}
	}
	return nil
}

// callMethod invokes method name on the dynamic value of it.
func (i *interpreter) callMethod(fr *frame, it iface, name string, args ...value) (value, bool) {
	f := i.findMethod(it.t, name)
	if f == nil {
		return nil, false
	}
	return call(i, fr, token.NoPos, f, append([]value{it.v}, args...)), true
}

// ---------------------------------------------------------------------
// fmt

func isErrorOrStringer(i *interpreter, it iface) (string, bool) {
	if it.t == nil {
		return "", false
	}
	if f := i.findMethod(it.t, "Error"); f != nil && f.Signature.Params().Len() == 0 && f.Signature.Results().Len() == 1 {
		return "Error", true
	}
	if f := i.findMethod(it.t, "String"); f != nil && f.Signature.Params().Len() == 0 && f.Signature.Results().Len() == 1 {
		if b, ok := f.Signature.Results().At(0).Type().Underlying().(*types.Basic); ok && b.Kind() == types.String {
			return "String", true
		}
	}
	return "", false
}

// formatArg renders one operand for verb with the given flags text (between
// '%' and the verb). The result is a string term.
func (i *interpreter) formatArg(fr *frame, spec string, verb byte, arg value) *Term {
	it, ok := arg.(iface)
	if !ok {
		it = iface{nil, arg}
	}
	if it.t == nil && ok {
		switch verb {
		case 'v', 's':
			return mkStr("<nil>")
		case 'T':
			return mkStr("<nil>")
		}
		return mkStr("%!" + string(verb) + "(<nil>)")
	}
	if verb == 'T' {
		return mkStr(it.t.String())
	}
	v := it.v
	if i.ps != nil {
		v = i.ps.resolveValue(v)
	}
	// error / Stringer take precedence for the string-ish verbs
	if verb == 'v' || verb == 's' || verb == 'q' || verb == 'w' {
		if ptr, isPtr := v.(*value); !(isPtr && ptr == nil) {
			if m, ok := isErrorOrStringer(i, it); ok {
				r, _ := i.callMethod(fr, it, m)
				return i.formatArg(fr, spec, verb2(verb), iface{types.Typ[types.String], r})
			}
		}
	}
	switch x := v.(type) {
	case symStr:
		switch verb {
		case 'q':
			return mkConcat(mkStr(`"`), x.t, mkStr(`"`))
		default:
			return x.t
		}
	case symInt:
		// no symbolic integer formatting: an opaque string that is a function
		// of the value and the verb
		kind := "fmt%" + spec + string(verb)
		if _, signed := kindBits(x.k); !signed {
			kind += "u"
		}
		return i.ps.opaque(kind, x.t)
	case symBool:
		return mkIte(x.t, mkStr("true"), mkStr("false"))
	case string:
		return mkStr(fmt.Sprintf("%"+spec+string(verb), x))
	case bool, int, int8, int16, int32, int64, uint, uint8, uint16, uint32, uint64, uintptr, float32, float64:
		return mkStr(fmt.Sprintf("%"+spec+string(verb), x))
	case []value:
		// []byte under %s / %x; other slices element-wise under %v
		if sl, ok := it.t.Underlying().(*types.Slice); ok {
			if eb, ok := sl.Elem().Underlying().(*types.Basic); ok && eb.Kind() == types.Byte {
				allc := true
				for _, e := range x {
					if _, ok := e.(byte); !ok {
						allc = false
					}
				}
				if allc {
					return mkStr(fmt.Sprintf("%"+spec+string(verb), bytesOf(fr, x, "fmt operand")))
				}
			}
			parts := []*Term{mkStr("[")}
			for k, e := range x {
				if k > 0 {
					parts = append(parts, mkStr(" "))
				}
				parts = append(parts, i.formatArg(fr, spec, verb, iface{sl.Elem(), e}))
			}
			parts = append(parts, mkStr("]"))
			return mkConcat(parts...)
		}
	case iface:
		return i.formatArg(fr, spec, verb, x)
	case *value:
		if x == nil {
			return mkStr("<nil>")
		}
		return mkStr("0xc000000000")
	}
	return mkStr(toString(v))
}

func verb2(v byte) byte {
	if v == 'w' {
		return 'v'
	}
	return v
}

func (i *interpreter) sprintfTerm(fr *frame, format value, args []value) (*Term, []int) {
	f, ok := i.concrete(format, "format string").(string)
	if !ok {
		unsupported("symbolic format string")
	}
	var parts []*Term
	var wrapped []int
	argi := 0
	for k := 0; k < len(f); {
		j := strings.IndexByte(f[k:], '%')
		if j < 0 {
			parts = append(parts, mkStr(f[k:]))
			break
		}
		parts = append(parts, mkStr(f[k:k+j]))
		k += j + 1
		st := k
		for k < len(f) && strings.IndexByte("+-# 0123456789.*[]", f[k]) >= 0 {
			k++
		}
		if k >= len(f) {
			parts = append(parts, mkStr("%!(NOVERB)"))
			break
		}
		spec, verb := f[st:k], f[k]
		k++
		if verb == '%' {
			parts = append(parts, mkStr("%"))
			continue
		}
		if strings.ContainsAny(spec, "*[") {
			unsupported("fmt: width/index from arguments")
		}
		if argi >= len(args) {
			parts = append(parts, mkStr("%!"+string(verb)+"(MISSING)"))
			continue
		}
		if verb == 'w' {
			wrapped = append(wrapped, argi)
		}
		parts = append(parts, i.formatArg(fr, spec, verb, args[argi]))
		argi++
	}
	if argi < len(args) {
		parts = append(parts, mkStr("%!(EXTRA)"))
	}
	return mkConcat(parts...), wrapped
}

func (i *interpreter) sprintf(fr *frame, format value, args []value) value {
	t, _ := i.sprintfTerm(fr, format, args)
	return strValue(t)
}

func (i *interpreter) sprint(fr *frame, args []value, ln bool) value {
	var parts []*Term
	prevString := true
	for k, a := range args {
		it := a.(iface)
		_, isStr := it.v.(string)
		_, isSymStr := it.v.(symStr)
		isStr = isStr || isSymStr
		if k > 0 && (ln || (!isStr && !prevString)) {
			parts = append(parts, mkStr(" "))
		}
		parts = append(parts, i.formatArg(fr, "", 'v', a))
		prevString = isStr
	}
	if ln {
		parts = append(parts, mkStr("\n"))
	}
	return strValue(mkConcat(parts...))
}

func extFmtErrorf(fr *frame, args []value) value {
	i := fr.i
	operands := args[1].([]value)
	t, wrapped := i.sprintfTerm(fr, args[0], operands)
	msg := strValue(t)
	fmtPkg := i.prog.ImportedPackage("fmt")
	if len(wrapped) > 0 {
		if w, ok := operands[wrapped[0]].(iface); ok && w.t != nil && types.Implements(w.t, errorIface) {
			wt := fmtPkg.Type("wrapError").Type()
			var cell value = structure{msg, w}
			return iface{types.NewPointer(wt), &cell}
		}
	}
	errorsPkg := i.prog.ImportedPackage("errors")
	return call(i, fr, token.NoPos, errorsPkg.Func("New"), []value{msg})
}

// ---------------------------------------------------------------------
// errors

func (i *interpreter) unwrapAll(fr *frame, err iface) []iface {
	if r, ok := i.callMethodIfSig(fr, err, "Unwrap", func(s *types.Signature) bool {
		return s.Params().Len() == 0 && s.Results().Len() == 1
	}); ok {
		switch r := r.(type) {
		case iface:
			if r.t == nil {
				return nil
			}
			return []iface{r}
		case []value:
			var out []iface
			for _, e := range r {
				if e := e.(iface); e.t != nil {
					out = append(out, e)
				}
			}
			return out
		}
	}
	return nil
}

func (i *interpreter) callMethodIfSig(fr *frame, it iface, name string, okSig func(*types.Signature) bool) (value, bool) {
	f := i.findMethod(it.t, name)
	if f == nil || !okSig(f.Signature) {
		return nil, false
	}
	return call(i, fr, token.NoPos, f, []value{it.v}), true
}

func (i *interpreter) errorsIs(fr *frame, err, target iface) value {
	if err.t == nil || target.t == nil {
		return err.t == nil && target.t == nil
	}
	comparable := types.Comparable(target.t)
	var walk func(e iface) bool
	walk = func(e iface) bool {
		if comparable && sameType(e.t, target.t) {
			c := eqTerm(e.t, e.v, target.v)
			if i.condValue(boolValue(c)) {
				return true
			}
		}
		if f := i.findMethod(e.t, "Is"); f != nil && f.Signature.Params().Len() == 1 && f.Signature.Results().Len() == 1 {
			r := call(i, fr, token.NoPos, f, []value{e.v, target})
			if i.condValue(r) {
				return true
			}
		}
		for _, u := range i.unwrapAll(fr, e) {
			if walk(u) {
				return true
			}
		}
		return false
	}
	return walk(err)
}

func (i *interpreter) errorsAs(fr *frame, err, target iface) value {
	if target.t == nil {
		panic(targetPanic{iface{i.runtimeErrorString, "errors: target cannot be nil"}})
	}
	pt, ok := target.t.Underlying().(*types.Pointer)
	if !ok {
		panic(targetPanic{iface{i.runtimeErrorString, "errors: target must be a non-nil pointer"}})
	}
	elem := pt.Elem()
	ptr := target.v.(*value)
	ifaceT, elemIsIface := elem.Underlying().(*types.Interface)
	var walk func(e iface) bool
	walk = func(e iface) bool {
		if elemIsIface {
			if types.Implements(e.t, ifaceT) {
				*ptr = e
				return true
			}
		} else if types.Identical(e.t, elem) {
			store(elem, ptr, e.v)
			return true
		}
		if f := i.findMethod(e.t, "As"); f != nil && f.Signature.Params().Len() == 1 && f.Signature.Results().Len() == 1 {
			r := call(i, fr, token.NoPos, f, []value{e.v, target})
			if i.condValue(r) {
				return true
			}
		}
		for _, u := range i.unwrapAll(fr, e) {
			if walk(u) {
				return true
			}
		}
		return false
	}
	if err.t == nil {
		return false
	}
	return walk(err)
}

// ---------------------------------------------------------------------
// sort

func insertionSort(n int, less func(a, b int) bool, swap func(a, b int)) {
	for a := 1; a < n; a++ {
		for b := a; b > 0 && less(b, b-1); b-- {
			swap(b, b-1)
		}
	}
}

func sortSlice(fr *frame, x value, less value) {
	sl, ok := x.(iface).v.([]value)
	if !ok {
		unsupported("sort.Slice of %T", x.(iface).v)
	}
	insertionSort(len(sl), func(a, b int) bool {
		return fr.i.condValue(call(fr.i, fr, token.NoPos, less, []value{a, b}))
	}, func(a, b int) { sl[a], sl[b] = sl[b], sl[a] })
}

func extSortSort(fr *frame, args []value) value {
	it := args[0].(iface)
	n, _ := fr.i.callMethod(fr, it, "Len")
	insertionSort(n.(int), func(a, b int) bool {
		r, _ := fr.i.callMethod(fr, it, "Less", a, b)
		return fr.i.condValue(r)
	}, func(a, b int) { fr.i.callMethod(fr, it, "Swap", a, b) })
	return nil
}

// ---------------------------------------------------------------------
// reflect.DeepEqual

func deepEqualTerm(x, y value, seen map[[2]*value]bool) *Term {
	return deepEqualTermOpt(x, y, seen, false)
}

func deepEqualTermOpt(x, y value, seen map[[2]*value]bool, equateEmpty bool) *Term {
	switch xv := x.(type) {
	case iface:
		yv, ok := y.(iface)
		if !ok {
			return tFalse
		}
		if !sameType(xv.t, yv.t) {
			return tFalse
		}
		if xv.t == nil {
			return tTrue
		}
		return deepEqualTermOpt(xv.v, yv.v, seen, equateEmpty)
	case structure:
		yv, ok := y.(structure)
		if !ok || len(xv) != len(yv) {
			return tFalse
		}
		var cs []*Term
		for k := range xv {
			c := deepEqualTermOpt(xv[k], yv[k], seen, equateEmpty)
			if c.isFalse() {
				return tFalse
			}
			cs = append(cs, c)
		}
		return mkAnd(cs...)
	case array:
		yv, ok := y.(array)
		if !ok || len(xv) != len(yv) {
			return tFalse
		}
		var cs []*Term
		for k := range xv {
			c := deepEqualTermOpt(xv[k], yv[k], seen, equateEmpty)
			if c.isFalse() {
				return tFalse
			}
			cs = append(cs, c)
		}
		return mkAnd(cs...)
	case []value:
		yv, ok := y.([]value)
		if !ok || len(xv) != len(yv) || (!equateEmpty && (xv == nil) != (yv == nil)) {
			return tFalse
		}
		var cs []*Term
		for k := range xv {
			c := deepEqualTermOpt(xv[k], yv[k], seen, equateEmpty)
			if c.isFalse() {
				return tFalse
			}
			cs = append(cs, c)
		}
		return mkAnd(cs...)
	case *value:
		yv, ok := y.(*value)
		if !ok {
			return tFalse
		}
		if xv == yv {
			return tTrue
		}
		if xv == nil || yv == nil {
			return tFalse
		}
		k := [2]*value{xv, yv}
		if seen[k] {
			return tTrue
		}
		seen[k] = true
		return deepEqualTermOpt(*xv, *yv, seen, equateEmpty)
	case *omap:
		yv, ok := y.(*omap)
		if !ok || xv.len() != yv.len() || (!equateEmpty && (xv == nil) != (yv == nil)) {
			return tFalse
		}
		if xv == nil || yv == nil {
			return tTrue
		}
		if xv.nsym > 0 || yv.nsym > 0 {
			// keys are pairwise distinct within each map and the lengths are
			// equal: the maps are equal iff every x entry has a y entry with
			// an equal key and an equal value
			var all []*Term
			xv.each(func(k, v value) {
				var any []*Term
				yv.each(func(k2, v2 value) {
					ke := eqTerm(xv.keyType, k, k2)
					if ke.isFalse() {
						return
					}
					any = append(any, mkAnd(ke, deepEqualTermOpt(v, v2, seen, equateEmpty)))
				})
				all = append(all, mkOr(any...))
			})
			return mkAnd(all...)
		}
		var cs []*Term
		bad := false
		xv.each(func(k, v value) {
			ck, _ := concreteKey(k)
			j, ok := yv.idx[ck]
			if !ok {
				bad = true
				return
			}
			cs = append(cs, deepEqualTermOpt(v, yv.vals[j], seen, equateEmpty))
		})
		if bad {
			return tFalse
		}
		return mkAnd(cs...)
	case *ssa.Function:
		yv, ok := y.(*ssa.Function)
		return mkBool(ok && xv == nil && yv == nil)
	case *closure:
		return tFalse
	case symStr, symInt, symBool:
		return eqTerm(nil, x, y)
	}
	switch y.(type) {
	case symStr, symInt, symBool:
		return eqTerm(nil, x, y)
	}
	if fx, ok := x.(float64); ok {
		fy, ok := y.(float64)
		return mkBool(ok && fx == fy)
	}
	defer func() {
		if r := recover(); r != nil {
			unsupported("reflect.DeepEqual on %T / %T: %v", x, y, r)
		}
	}()
	return mkBool(x == y)
}

var _ = strconv.Itoa
