package interp

import (
	"fmt"
	"os"
	"path/filepath"
	"strings"
	"time"

	"golang.org/x/tools/go/packages"
	"golang.org/x/tools/go/ssa"
	"golang.org/x/tools/go/ssa/ssautil"
)

// Loaded is a type-checked, SSA-built view of /repo plus overlay files.
type Loaded struct {
	Prog     *ssa.Program
	Pkgs     map[string]*ssa.Package // by import path (requested patterns only)
	LoadTime time.Duration
	NumPkgs  int
}

// GoEnv is the environment every go invocation against /repo needs here.
func GoEnv() []string {
	env := os.Environ()
	env = append(env, "GOFLAGS=-mod=mod", "GOPROXY=off", "GOSUMDB=off", "GOTOOLCHAIN=local", "GOWORK=off")
	return env
}

// Load type-checks the packages matching patterns in repo with the overlay
// applied and builds SSA for them and all their dependencies.
func Load(repo string, overlay map[string][]byte, patterns []string, tags string) (*Loaded, error) {
	start := time.Now()
	cfg := &packages.Config{
		Mode:    packages.LoadAllSyntax,
		Dir:     repo,
		Overlay: overlay,
		Env:     GoEnv(),
	}
	if tags != "" {
		cfg.BuildFlags = []string{"-tags=" + tags}
	}
	pkgs, err := packages.Load(cfg, patterns...)
	if err != nil {
		return nil, err
	}
	var errs []string
	packages.Visit(pkgs, nil, func(p *packages.Package) {
		for _, e := range p.Errors {
			if len(errs) < 20 {
				errs = append(errs, e.Error())
			}
		}
	})
	if len(errs) > 0 {
		return nil, fmt.Errorf("package errors:\n%s", strings.Join(errs, "\n"))
	}
	prog, spkgs := ssautil.AllPackages(pkgs, ssa.InstantiateGenerics)
	prog.Build()
	l := &Loaded{Prog: prog, Pkgs: map[string]*ssa.Package{}, LoadTime: time.Since(start), NumPkgs: len(prog.AllPackages())}
	for i, p := range pkgs {
		if spkgs[i] != nil {
			l.Pkgs[p.PkgPath] = spkgs[i]
		}
	}
	return l, nil
}

// OverlayFor builds the overlay map: the zzverif package plus harness files.
// files maps a path relative to repo to file contents.
func OverlayFor(repo string, zzverifSrc []byte, files map[string][]byte) map[string][]byte {
	ov := map[string][]byte{
		filepath.Join(repo, "internal/zzverif/zzverif.go"): zzverifSrc,
	}
	for rel, src := range files {
		ov[filepath.Join(repo, rel)] = src
	}
	return ov
}
