package interp

// A session ties together harness sources, the overlay, the loaded program,
// symbolic exploration and native replay / path validation.

import (
	"bytes"
	"encoding/json"
	"fmt"
	"os"
	"os/exec"
	"path/filepath"
	"regexp"
	"sort"
	"strings"
	"time"
)

const modulePath = "github.com/crossplane/crossplane"

type HarnessFile struct {
	Path    string // source path under /verif/harness
	Pkg     string // import path it is injected into
	RelFile string // file name inside the package directory
	Src     []byte
}

type Harness struct {
	Func      string
	Pkg       string
	Covers    []string // cover labels that must be reached (vacuity witnesses)
	Tiers     []string // tiers it runs in (empty = all)
	Panics    bool     // a panic escaping the harness is a violation
	Seq       bool     // run `go` statements synchronously
	LateGo    bool     // go statements run when the spawner blocks on a channel receive
	Locks     bool     // track mutex state; self-deadlock is a panic, TryLock answers from the state
	MapOrders []string // //gosym:maporders: functions whose small map ranges run in every order
}

type HarnessSet struct {
	Files     []HarnessFile
	Harnesses []Harness
}

var funcRe = regexp.MustCompile(`^func (Harness\w+)\(\)`)

// LoadHarnessFiles reads harness sources and their //gosym: directives.
func LoadHarnessFiles(paths []string) (*HarnessSet, error) {
	set := &HarnessSet{}
	for _, p := range paths {
		// "file.go#lib": take the file for its helpers, ignore its harnesses
		lib := strings.HasSuffix(p, "#lib")
		p = strings.TrimSuffix(p, "#lib")
		src, err := os.ReadFile(p)
		if err != nil {
			return nil, err
		}
		hf := HarnessFile{Path: p, Src: src}
		var pending *Harness
		for _, line := range strings.Split(string(src), "\n") {
			line = strings.TrimRight(line, "\r")
			switch {
			case strings.HasPrefix(line, "//gosym:package "):
				hf.Pkg = strings.TrimSpace(strings.TrimPrefix(line, "//gosym:package "))
			case strings.HasPrefix(line, "//gosym:file "):
				hf.RelFile = strings.TrimSpace(strings.TrimPrefix(line, "//gosym:file "))
			case strings.HasPrefix(line, "//gosym:harness"):
				pending = &Harness{}
				for _, f := range strings.Fields(strings.TrimPrefix(line, "//gosym:harness")) {
					switch f {
					case "quick", "thorough":
						pending.Tiers = append(pending.Tiers, f)
					case "panics":
						pending.Panics = true
					case "seqgo":
						pending.Seq = true
					case "locks":
						pending.Locks = true
					case "latego":
						pending.LateGo = true
					}
				}
			case strings.HasPrefix(line, "//gosym:maporders "):
				if pending != nil {
					pending.MapOrders = append(pending.MapOrders, strings.Fields(strings.TrimPrefix(line, "//gosym:maporders "))...)
				}
			case strings.HasPrefix(line, "//gosym:cover "):
				if pending != nil {
					pending.Covers = append(pending.Covers, strings.Fields(strings.TrimPrefix(line, "//gosym:cover "))...)
				}
			default:
				if m := funcRe.FindStringSubmatch(line); m != nil && pending != nil {
					pending.Func = m[1]
					pending.Pkg = hf.Pkg
					if !lib {
						set.Harnesses = append(set.Harnesses, *pending)
					}
					pending = nil
				}
			}
		}
		if hf.Pkg == "" || hf.RelFile == "" {
			return nil, fmt.Errorf("%s: missing //gosym:package or //gosym:file directive", p)
		}
		set.Files = append(set.Files, hf)
	}
	return set, nil
}

func pkgDir(repo, pkg string) string {
	return filepath.Join(repo, strings.TrimPrefix(strings.TrimPrefix(pkg, modulePath), "/"))
}

type Session struct {
	Root   string
	Repo   string
	Set    *HarnessSet
	Tier   string
	Cfg    Config
	Loaded *Loaded
	Engine *Engine
	zzSrc  []byte
	Work   string
}

func (s *Session) overlayFiles() map[string][]byte {
	ov := map[string][]byte{
		filepath.Join(s.Repo, "internal/zzverif/zzverif.go"): s.zzSrc,
	}
	for _, f := range s.Set.Files {
		ov[filepath.Join(pkgDir(s.Repo, f.Pkg), f.RelFile)] = f.Src
	}
	return ov
}

func NewSession(root, repo string, set *HarnessSet, tier string, cfg Config) (*Session, error) {
	zz, err := os.ReadFile(filepath.Join(root, "engine/zzverif/zzverif.go.txt"))
	if err != nil {
		return nil, err
	}
	s := &Session{Root: root, Repo: repo, Set: set, Tier: tier, Cfg: cfg, zzSrc: zz}
	pkgs := map[string]bool{}
	for _, f := range set.Files {
		pkgs[f.Pkg] = true
	}
	var patterns []string
	for p := range pkgs {
		patterns = append(patterns, p)
	}
	sort.Strings(patterns)
	l, err := Load(repo, s.overlayFiles(), patterns, "verif")
	if err != nil {
		return nil, err
	}
	s.Loaded = l
	s.Engine = NewEngine(l.Prog, cfg)
	s.Engine.Tier = tier
	return s, nil
}

func (s *Session) Explore(h Harness) (*Report, error) {
	pkg := s.Loaded.Pkgs[h.Pkg]
	if pkg == nil {
		return nil, fmt.Errorf("package %s not loaded", h.Pkg)
	}
	fn := pkg.Func(h.Func)
	if fn == nil {
		return nil, fmt.Errorf("harness %s not found in %s", h.Func, h.Pkg)
	}
	s.Engine.SeqGo = h.Seq
	s.Engine.MapOrders = h.MapOrders
	s.Engine.TrackLocks = h.Locks
	s.Engine.LateGo = h.LateGo
	rep := s.Engine.Explore(fn)
	for _, c := range h.Covers {
		if rep.Covers[c] == 0 {
			rep.Inconclusive = append(rep.Inconclusive, fmt.Sprintf("vacuous: cover label %q never reached", c))
		}
	}
	if h.Panics {
		for msg := range rep.Panics {
			rep.PanicViolations = append(rep.PanicViolations, msg)
		}
	} else {
		for msg, n := range rep.Panics {
			rep.Inconclusive = append(rep.Inconclusive, fmt.Sprintf("%d paths ended in a panic the harness does not expect: %s", n, msg))
		}
	}
	return rep, nil
}

// ---------------------------------------------------------------------
// native runs

// NativeCase mirrors zzverif.Case.
type NativeCase struct {
	ID      string            `json:"id"`
	Harness string            `json:"harness"`
	Tier    string            `json:"tier"`
	Values  map[string]string `json:"values"`
}

// NativeOutcome mirrors zzverif.Outcome.
type NativeOutcome struct {
	ID            string     `json:"id"`
	Harness       string     `json:"harness"`
	FailedAsserts []string   `json:"failed_asserts"`
	AssumeFailed  []string   `json:"assume_failed"`
	Covers        []string   `json:"covers"`
	Obs           [][]string `json:"obs"`
	Panic         string     `json:"panic,omitempty"`
	Stack         string     `json:"stack,omitempty"`
}

func (s *Session) testFileFor(pkg string) []byte {
	var b bytes.Buffer
	pkgName := ""
	for _, f := range s.Set.Files {
		if f.Pkg == pkg {
			for _, line := range strings.Split(string(f.Src), "\n") {
				if strings.HasPrefix(line, "package ") {
					pkgName = strings.TrimSpace(strings.TrimPrefix(line, "package "))
					break
				}
			}
		}
	}
	fmt.Fprintf(&b, "//go:build verif\n\npackage %s\n\nimport (\n\t\"testing\"\n\n\tzzverif \"%s/internal/zzverif\"\n)\n\n", pkgName, modulePath)
	fmt.Fprintf(&b, "func TestZZReplay(t *testing.T) {\n\tzzverif.RunCases(t, map[string]func(){\n")
	for _, h := range s.Set.Harnesses {
		if h.Pkg == pkg {
			fmt.Fprintf(&b, "\t\t%q: %s,\n", h.Func, h.Func)
		}
	}
	fmt.Fprintf(&b, "\t})\n}\n")
	return b.Bytes()
}

// RunNative runs cases of one package natively against the compiled real
// code (go test with an overlay) and returns the outcomes. dir receives all
// files needed to repeat the run (replay.sh).
func (s *Session) RunNative(pkg string, cases []NativeCase, dir string) ([]NativeOutcome, error) {
	if err := os.MkdirAll(dir, 0o755); err != nil {
		return nil, err
	}
	replace := map[string]string{}
	write := func(name string, data []byte) (string, error) {
		p := filepath.Join(dir, name)
		return p, os.WriteFile(p, data, 0o644)
	}
	p, err := write("zzverif.go", s.zzSrc)
	if err != nil {
		return nil, err
	}
	replace[filepath.Join(s.Repo, "internal/zzverif/zzverif.go")] = p
	for i, f := range s.Set.Files {
		p, err := write(fmt.Sprintf("h%d_%s", i, f.RelFile), f.Src)
		if err != nil {
			return nil, err
		}
		replace[filepath.Join(pkgDir(s.Repo, f.Pkg), f.RelFile)] = p
	}
	p, err = write("zz_gosym_cases_verif_test.go", s.testFileFor(pkg))
	if err != nil {
		return nil, err
	}
	replace[filepath.Join(pkgDir(s.Repo, pkg), "zz_gosym_cases_verif_test.go")] = p
	ov, _ := json.MarshalIndent(map[string]interface{}{"Replace": replace}, "", " ")
	ovPath, err := write("overlay.json", ov)
	if err != nil {
		return nil, err
	}
	cj, _ := json.MarshalIndent(cases, "", " ")
	casesPath, err := write("cases.json", cj)
	if err != nil {
		return nil, err
	}
	outPath := filepath.Join(dir, "outcomes.json")
	os.Remove(outPath)
	script := fmt.Sprintf("#!/bin/sh\n# replays the recorded cases natively against %s\ncd %s && GOFLAGS=-mod=mod GOPROXY=off GOSUMDB=off GOTOOLCHAIN=local GOSYM_CASES=%s GOSYM_OUT=%s go test -tags verif -vet=off -count=1 -overlay %s -run '^TestZZReplay$' %s\ncat %s\n",
		s.Repo, s.Repo, casesPath, outPath, ovPath, pkg, outPath)
	write("replay.sh", []byte(script))
	os.Chmod(filepath.Join(dir, "replay.sh"), 0o755)

	cmd := exec.Command("go", "test", "-tags", "verif", "-vet=off", "-count=1", "-overlay", ovPath, "-run", "^TestZZReplay$", "-timeout", "20m", pkg)
	cmd.Dir = s.Repo
	cmd.Env = append(GoEnv(), "GOSYM_CASES="+casesPath, "GOSYM_OUT="+outPath)
	start := time.Now()
	outb, err := cmd.CombinedOutput()
	write("gotest.log", outb)
	if _, statErr := os.Stat(outPath); statErr != nil {
		return nil, fmt.Errorf("native run failed after %s: %v\n%s", time.Since(start).Round(time.Second), err, tail(string(outb), 40))
	}
	data, err := os.ReadFile(outPath)
	if err != nil {
		return nil, err
	}
	var outs []NativeOutcome
	if err := json.Unmarshal(data, &outs); err != nil {
		return nil, err
	}
	return outs, nil
}

func tail(s string, n int) string {
	lines := strings.Split(s, "\n")
	if len(lines) > n {
		lines = lines[len(lines)-n:]
	}
	return strings.Join(lines, "\n")
}

type ValidationResult struct {
	Checked    int
	Mismatches []string
}

// ValidatePaths runs up to max sampled paths natively on a model of their
// path condition and compares observations and cover labels with what the
// symbolic execution produced (translator validation).
func (s *Session) ValidatePaths(h Harness, rep *Report, max int) (*ValidationResult, error) {
	var cases []NativeCase
	var sums []PathSummary
	for i, p := range rep.Samples {
		if len(cases) >= max {
			break
		}
		if p.Model == nil {
			continue
		}
		cases = append(cases, NativeCase{ID: fmt.Sprintf("p%d", i), Harness: h.Func, Tier: s.Tier, Values: p.Model})
		sums = append(sums, p)
	}
	res := &ValidationResult{}
	if len(cases) == 0 {
		return res, nil
	}
	dir := filepath.Join(s.WorkDir(), "validate-"+h.Func)
	outs, err := s.RunNative(h.Pkg, cases, dir)
	if err != nil {
		return nil, err
	}
	for i, o := range outs {
		if i >= len(sums) {
			break
		}
		res.Checked++
		p := sums[i]
		m := comparePath(p, o)
		// The native run picks Go's map iteration order at random, the engine
		// used insertion order (or, with map-order decisions, an order the
		// native run cannot be steered into): where the code under test ranges
		// over a map, which API call a fault hits - and so the path - can
		// differ from run to run. A mismatch is reported only if no re-run
		// matches either; an engine flaw never matches.
		for try := 0; m != "" && try < 12; try++ {
			again, err := s.RunNative(h.Pkg, cases[i:i+1], dir)
			if err != nil || len(again) != 1 {
				break
			}
			m = comparePath(p, again[0])
		}
		if m != "" {
			if len(res.Mismatches) < 10 {
				res.Mismatches = append(res.Mismatches, fmt.Sprintf("%s (decisions %s; values %v): %s", cases[i].ID, decisionsString(p.Decisions), cases[i].Values, m))
			}
		}
	}
	if len(res.Mismatches) == 0 {
		os.RemoveAll(dir)
	}
	return res, nil
}

func comparePath(p PathSummary, o NativeOutcome) string {
	if len(o.AssumeFailed) > 0 {
		return "native run violated a harness assumption under the path's model"
	}
	if (p.Outcome == "panic") != (o.Panic != "") {
		return fmt.Sprintf("panic mismatch: symbolic outcome %s (%s), native panic %q", p.Outcome, p.Detail, o.Panic)
	}
	if p.Outcome == "panic" {
		return ""
	}
	if len(o.FailedAsserts) > 0 {
		return fmt.Sprintf("native run failed assertions %v on a path where the symbolic run proved them", o.FailedAsserts)
	}
	if len(p.Obs) != len(o.Obs) {
		return fmt.Sprintf("observation count: symbolic %d, native %d", len(p.Obs), len(o.Obs))
	}
	for i, so := range p.Obs {
		no := o.Obs[i]
		if len(no) == 0 || no[0] != so.Key || len(no)-1 != len(so.Vals) {
			return fmt.Sprintf("observation %d: symbolic %s%v, native %v", i, so.Key, so.Vals, no)
		}
		for j, v := range so.Vals {
			if strings.HasPrefix(v, "?") {
				continue
			}
			if no[j+1] != v {
				return fmt.Sprintf("observation %d (%s) value %d: symbolic %q, native %q", i, so.Key, j, v, no[j+1])
			}
		}
	}
	nc := map[string]bool{}
	for _, c := range o.Covers {
		nc[c] = true
	}
	for _, c := range p.Covers {
		if !nc[c] {
			return fmt.Sprintf("cover label %q reached symbolically but not natively", c)
		}
		delete(nc, c)
	}
	for c := range nc {
		return fmt.Sprintf("cover label %q reached natively but not symbolically", c)
	}
	return ""
}

func (s *Session) WorkDir() string {
	if s.Work != "" {
		return s.Work
	}
	return filepath.Join(s.Root, "work")
}
