package interp

// dario.cat/mergo.Merge for map[string]any destinations and sources (the
// only use in the code under test: the client-side claim syncer). The model
// follows mergo v1.0.1 deepMerge for maps, including its quirks; it is
// compared with the real library on every natively validated path.

import (
	"go/token"
	"go/types"
)

func init() {
	externals["dario.cat/mergo.Merge"] = extMergoMerge
}

func extMergoMerge(fr *frame, args []value) value {
	i := fr.i
	dstI, ok1 := args[0].(iface)
	srcI, ok2 := args[1].(iface)
	if !ok1 || !ok2 || dstI.t == nil || srcI.t == nil {
		unsupported("mergo.Merge with nil arguments")
	}
	dp, ok := dstI.v.(*value)
	if !ok || dp == nil {
		unsupported("mergo.Merge: destination is not a pointer to a map")
	}
	dst, ok := (*dp).(*omap)
	src, ok2 := srcI.v.(*omap)
	if !ok || !ok2 {
		unsupported("mergo.Merge is modelled for map[string]any only (got %T, %T)", *dp, srcI.v)
	}
	overwrite, appendSlice := false, false
	for _, o := range args[2].([]value) {
		var sig *types.Signature
		switch f := o.(type) {
		case *closure:
			sig = f.Fn.Signature
		case interface{ Type() types.Type }:
			sig, _ = f.Type().(*types.Signature)
		}
		if sig == nil || sig.Params().Len() != 1 {
			unsupported("mergo option of unexpected shape")
		}
		cfgT := mustDeref(sig.Params().At(0).Type())
		cell := zero(cfgT)
		call(i, fr, token.NoPos, o, []value{&cell})
		st := cfgT.Underlying().(*types.Struct)
		for k := 0; k < st.NumFields(); k++ {
			if st.Field(k).Name() == "Overwrite" {
				if b, ok := cell.(structure)[k].(bool); ok && b {
					overwrite = true
				}
			} else if st.Field(k).Name() == "AppendSlice" {
				if b, ok := cell.(structure)[k].(bool); ok && b {
					appendSlice = true
				}
			} else if b, ok := cell.(structure)[k].(bool); ok && b {
				unsupported("mergo option %s is not modelled", st.Field(k).Name())
			}
		}
	}
	if dst == nil {
		if src == nil {
			return iface{}
		}
		dst = makeMap(types.Typ[types.String], 0).(*omap)
		*dp = dst
	}
	i.mergoMaps(fr, dst, src, overwrite, appendSlice)
	return iface{}
}

func (i *interpreter) mergoEmpty(v value) bool {
	it, ok := v.(iface)
	if !ok {
		return v == nil
	}
	if it.t == nil {
		return true
	}
	switch x := it.v.(type) {
	case string:
		return x == ""
	case symStr:
		return i.condValue(boolValue(mkEq(x.t, mkStr(""))))
	case *omap:
		return x.len() == 0
	case []value:
		return len(x) == 0
	case bool:
		return !x
	case symBool:
		return !i.condValue(x)
	case float64:
		return x == 0
	case symInt:
		return i.condValue(boolValue(mkEq(x.t, mkBV(x.t.Sort.Bits, 0))))
	case *value:
		return x == nil
	}
	if _, ok := intKind(it.v); ok {
		return asInt64(it.v) == 0
	}
	return false
}

func (i *interpreter) mergoMaps(fr *frame, dst, src *omap, overwrite, appendSlice bool) {
	type kv struct{ k, v value }
	var entries []kv
	src.each(func(k, v value) { entries = append(entries, kv{k, v}) })
	for _, e := range entries {
		se, _ := e.v.(iface)
		if se.t == nil {
			if overwrite {
				dst.insert(fr, e.k, se)
			}
			continue
		}
		dv, dok := dst.lookup(fr, e.k)
		de, _ := dv.(iface)
		srcIsMap, srcIsSlice := false, false
		switch sv := se.v.(type) {
		case *omap:
			srcIsMap = true
			if sv == nil {
				if overwrite {
					dst.insert(fr, e.k, se)
				}
				continue
			}
			if dm, ok := de.v.(*omap); ok && dok && de.t != nil {
				if dm == nil {
					// a nil destination map cannot be set through MapIndex
				} else {
					i.mergoMaps(fr, dm, sv, overwrite, appendSlice)
				}
			}
		case []value:
			srcIsSlice = true
			// (a nil slice inside the map's interface value is not "nil" to
			// mergo: the element's kind is Interface, and that is not nil)
			// quirk: the emptiness tests look at the enclosing maps
			out := iface{se.t, []value{}}
			if dok && de.t != nil {
				if ds, ok := de.v.([]value); ok && ds != nil {
					out = de
				}
			}
			if (overwrite || dst.len() == 0) && !appendSlice {
				out = se
			} else if appendSlice {
				// (mergo refuses slices of different types; both are []any here)
				ds, _ := out.v.([]value)
				out = iface{se.t, append(append([]value{}, ds...), sv...)}
			}
			dst.insert(fr, e.k, out)
			dv, dok = dst.lookup(fr, e.k)
			de, _ = dv.(iface)
		}
		if dok && !i.mergoEmpty(de) {
			if srcIsSlice {
				continue
			}
			if _, dstIsMap := de.v.(*omap); srcIsMap && dstIsMap {
				continue
			}
		}
		_, srcIsPtr := se.v.(*value)
		if (!srcIsPtr && overwrite) || !dok || i.mergoEmpty(de) {
			dst.insert(fr, e.k, se)
		}
	}
}
