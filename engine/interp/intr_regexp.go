package interp

// regexp: compiled regular expressions are opaque native handles; matching
// runs natively on concrete subjects only.

import (
	"regexp"
)

type nativeRegexp struct{ re *regexp.Regexp }

func regexpOf(v value) *regexp.Regexp {
	p, ok := v.(*value)
	if !ok || p == nil {
		panic("runtime error: invalid memory address or nil pointer dereference (nil *regexp.Regexp)")
	}
	n, ok := (*p).(nativeRegexp)
	if !ok {
		unsupported("*regexp.Regexp that was not produced by regexp.Compile")
	}
	return n.re
}

func strSliceValue(ss []string) value {
	if ss == nil {
		return []value(nil)
	}
	out := make([]value, len(ss))
	for i, s := range ss {
		out[i] = s
	}
	return out
}

func init() {
	externals["regexp.Compile"] = func(fr *frame, args []value) value {
		re, err := regexp.Compile(concreteString(fr, args[0], "regular expression"))
		if err != nil {
			return tuple{(*value)(nil), fr.i.nativeError(err)}
		}
		var cell value = nativeRegexp{re}
		return tuple{&cell, iface{}}
	}
	externals["regexp.MustCompile"] = func(fr *frame, args []value) value {
		s := concreteString(fr, args[0], "regular expression")
		re, err := regexp.Compile(s)
		if err != nil {
			panic(targetPanic{iface{fr.i.runtimeErrorString, "regexp: Compile(" + s + "): " + err.Error()}})
		}
		var cell value = nativeRegexp{re}
		return &cell
	}
	externals["regexp.MatchString"] = func(fr *frame, args []value) value {
		ok, err := regexp.MatchString(concreteString(fr, args[0], "regular expression"), concreteString(fr, args[1], "regexp subject"))
		return tuple{ok, fr.i.nativeError(err)}
	}
	externals["regexp.QuoteMeta"] = func(fr *frame, args []value) value {
		return regexp.QuoteMeta(concreteString(fr, args[0], "regexp.QuoteMeta argument"))
	}
	m := func(name string, f func(fr *frame, re *regexp.Regexp, args []value) value) {
		externals["(*regexp.Regexp)."+name] = func(fr *frame, args []value) value {
			return f(fr, regexpOf(args[0]), args[1:])
		}
	}
	subj := func(fr *frame, v value) string { return concreteString(fr, v, "regexp subject") }
	m("MatchString", func(fr *frame, re *regexp.Regexp, a []value) value { return re.MatchString(subj(fr, a[0])) })
	m("Match", func(fr *frame, re *regexp.Regexp, a []value) value {
		return re.Match(bytesOf(fr, a[0], "regexp subject"))
	})
	m("FindString", func(fr *frame, re *regexp.Regexp, a []value) value { return re.FindString(subj(fr, a[0])) })
	m("FindStringSubmatch", func(fr *frame, re *regexp.Regexp, a []value) value {
		return strSliceValue(re.FindStringSubmatch(subj(fr, a[0])))
	})
	m("FindAllString", func(fr *frame, re *regexp.Regexp, a []value) value {
		return strSliceValue(re.FindAllString(subj(fr, a[0]), a[1].(int)))
	})
	m("FindStringIndex", func(fr *frame, re *regexp.Regexp, a []value) value {
		r := re.FindStringIndex(subj(fr, a[0]))
		if r == nil {
			return []value(nil)
		}
		return []value{r[0], r[1]}
	})
	m("FindAllStringSubmatch", func(fr *frame, re *regexp.Regexp, a []value) value {
		r := re.FindAllStringSubmatch(subj(fr, a[0]), a[1].(int))
		if r == nil {
			return []value(nil)
		}
		out := make([]value, len(r))
		for i, g := range r {
			out[i] = strSliceValue(g)
		}
		return out
	})
	m("ReplaceAllString", func(fr *frame, re *regexp.Regexp, a []value) value {
		return re.ReplaceAllString(subj(fr, a[0]), subj(fr, a[1]))
	})
	m("ReplaceAllLiteralString", func(fr *frame, re *regexp.Regexp, a []value) value {
		return re.ReplaceAllLiteralString(subj(fr, a[0]), subj(fr, a[1]))
	})
	m("String", func(fr *frame, re *regexp.Regexp, a []value) value { return re.String() })
	m("NumSubexp", func(fr *frame, re *regexp.Regexp, a []value) value { return re.NumSubexp() })
	m("SubexpNames", func(fr *frame, re *regexp.Regexp, a []value) value { return strSliceValue(re.SubexpNames()) })
	m("Split", func(fr *frame, re *regexp.Regexp, a []value) value {
		return strSliceValue(re.Split(subj(fr, a[0]), a[1].(int)))
	})
}
