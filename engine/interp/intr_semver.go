package interp

// Models for version strings built from symbolic numbers: the decimal
// rendering of a symbolic integer is an opaque string that remembers the
// number, so that semver.NewVersion and name.NewTag can be modelled on
// strings of the shape "v" + itoa(a) + "." + itoa(b) + "." + itoa(c).

import (
	"go/token"
	"go/types"
	"strconv"
	"strings"
	"sync"
)

type opaqueInfo struct {
	kind string
	arg  *Term
}

var opaqueReg sync.Map // variable name -> opaqueInfo

// opaque returns the opaque rendering of t. Equalities between renderings of
// the same kind are decided by the numbers (pathState.normalize).
func (ps *pathState) opaque(kind string, t *Term) *Term {
	v := opaqueStringOf(kind, t)
	opaqueReg.Store(v.Name, opaqueInfo{kind, t})
	if ps == nil {
		return v
	}
	if ps.opaques == nil {
		ps.opaques = map[string]bool{}
	}
	if ps.opaques[v.Name] {
		return v
	}
	ps.opaques[v.Name] = true
	ps.opaqueOrder = append(ps.opaqueOrder, v.Name)
	return v
}

// decimalOpaque returns the number behind an opaque decimal rendering.
func decimalOpaque(p *Term) (*Term, bool) {
	if p.Op != "var" {
		return nil, false
	}
	o, ok := opaqueReg.Load(p.Name)
	if !ok {
		return nil, false
	}
	oi := o.(opaqueInfo)
	if oi.kind == "itoa" || oi.kind == "fmt%d" || oi.kind == "fmt%v" {
		return oi.arg, true
	}
	return nil, false
}

func isDecimalKind(kind string) (signed, ok bool) {
	switch kind {
	case "itoa", "fmt%d", "fmt%v":
		return true, true
	case "utoa", "fmt%du", "fmt%vu":
		return false, true
	}
	return false, false
}

// opaqueEq decides an equality in which one side is the opaque decimal
// rendering of a number: against another rendering it is the equality of the
// numbers (decimal rendering is injective), against a constant it is the
// equality with the number the constant spells canonically.
func opaqueEq(a, b *Term) *Term {
	if a.Op != "var" {
		a, b = b, a
	}
	if a.Op != "var" {
		return nil
	}
	o, ok := opaqueReg.Load(a.Name)
	if !ok {
		return nil
	}
	ai := o.(opaqueInfo)
	signed, dec := isDecimalKind(ai.kind)
	if !dec {
		return nil
	}
	if b.Op == "var" {
		o2, ok := opaqueReg.Load(b.Name)
		if !ok {
			return nil
		}
		bi := o2.(opaqueInfo)
		signed2, dec2 := isDecimalKind(bi.kind)
		if !dec2 || signed2 != signed || bi.arg.Sort != ai.arg.Sort {
			return nil
		}
		return mkEq(ai.arg, bi.arg)
	}
	if b.isConst() {
		bits := ai.arg.Sort.Bits
		if signed {
			n, err := strconv.ParseInt(b.S, 10, 64)
			if err != nil || strconv.FormatInt(n, 10) != b.S || sext(uint64(n)&mask(bits), bits) != n {
				return tFalse
			}
			return mkEq(ai.arg, mkBV(bits, uint64(n)))
		}
		n, err := strconv.ParseUint(b.S, 10, 64)
		if err != nil || strconv.FormatUint(n, 10) != b.S || n&mask(bits) != n {
			return tFalse
		}
		return mkEq(ai.arg, mkBV(bits, n))
	}
	return nil
}

// versionShape splits parts into prefix constant, up to three symbolic
// numbers separated by ".", and a constant suffix.
func versionShape(parts []*Term) (prefix string, nums []*Term, suffix string, ok bool) {
	k := 0
	if k < len(parts) && parts[k].isConst() {
		prefix = parts[k].S
		k++
	}
	for k < len(parts) {
		n, isNum := decimalOpaque(parts[k])
		if !isNum {
			return "", nil, "", false
		}
		nums = append(nums, n)
		k++
		if k == len(parts) {
			break
		}
		if !parts[k].isConst() {
			return "", nil, "", false
		}
		if parts[k].S == "." && k+1 < len(parts) {
			k++
			continue
		}
		// a trailing constant: the suffix
		if k != len(parts)-1 {
			return "", nil, "", false
		}
		suffix = parts[k].S
		k++
	}
	if len(nums) == 0 || len(nums) > 3 {
		return "", nil, "", false
	}
	if strings.HasPrefix(suffix, ".") {
		return "", nil, "", false
	}
	return prefix, nums, suffix, true
}

func (ps *pathState) nonNegative(n *Term, what string) bool {
	return ps.decideBool(bvCmp("bvsge", n, mkBV(n.Sort.Bits, 0)), what)
}

func init() {
	// semver.NewVersion on "v"+a+"."+b+"."+c(+suffix): the real function
	// parses the same string with zeros in place of the numbers; the numbers
	// are then put in place. A negative number renders with a '-' the
	// version grammar rejects.
	externals["github.com/Masterminds/semver.NewVersion"] = func(fr *frame, args []value) value {
		i := fr.i
		if i.ps == nil {
			return declined{}
		}
		s, ok := i.ps.resolveValue(args[0]).(symStr)
		if !ok {
			return declined{}
		}
		prefix, nums, suffix, ok := versionShape(strParts(s.t))
		if !ok {
			unsupported("semver.NewVersion of symbolic string %s (not of the shape prefix+a.b.c+suffix)", s.t)
		}
		for _, n := range nums {
			if n.Sort.K != 'v' || n.Sort.Bits != 64 {
				unsupported("semver.NewVersion: version number of %d bits", n.Sort.Bits)
			}
			if !i.ps.nonNegative(n, "semver-nonneg") {
				return call(i, fr, token.NoPos, fr.fn, []value{prefix + "-1" + suffix})
			}
		}
		zeros := "0" + strings.Repeat(".0", len(nums)-1)
		r := call(i, fr, token.NoPos, fr.fn, []value{prefix + zeros + suffix}).(tuple)
		p, _ := r[0].(*value)
		if p == nil {
			return r
		}
		st := append(structure{}, (*p).(structure)...)
		for k, n := range nums {
			st[k] = symInt{n, types.Int64}
		}
		st[5] = s
		var cell value = st
		return tuple{&cell, r[1]}
	}

	// name.NewTag on <concrete repository>:<symbolic version-shaped tag>: the
	// real function parses the repository with the tag "0"; the tag is then
	// put in place. Decimal renderings of non-negative numbers, dots and the
	// constant pieces checked here are valid tag characters; tags longer than
	// 128 characters are outside the model.
	externals["github.com/google/go-containerregistry/pkg/name.NewTag"] = func(fr *frame, args []value) value {
		i := fr.i
		if i.ps == nil {
			return declined{}
		}
		s, ok := i.ps.resolveValue(args[0]).(symStr)
		if !ok {
			return declined{}
		}
		parts := strParts(s.t)
		if len(parts) < 2 || !parts[0].isConst() {
			unsupported("name.NewTag of symbolic string %s", s.t)
		}
		head := parts[0].S
		c := strings.LastIndexByte(head, ':')
		if c < 0 || strings.Contains(head[c:], "/") {
			unsupported("name.NewTag of symbolic string %s: no constant repository part", s.t)
		}
		tagParts := append([]*Term{mkStr(head[c+1:])}, parts[1:]...)
		const tagChars = "abcdefghijklmnopqrstuvwxyzABCDEFGHIJKLMNOPQRSTUVWXYZ0123456789_-."
		for _, p := range tagParts {
			if p.isConst() {
				for k := 0; k < len(p.S); k++ {
					if strings.IndexByte(tagChars, p.S[k]) < 0 {
						unsupported("name.NewTag of symbolic string %s: %q is not a tag character", s.t, p.S[k])
					}
				}
				continue
			}
			n, isNum := decimalOpaque(p)
			if !isNum {
				unsupported("name.NewTag of symbolic string %s", s.t)
			}
			if !i.ps.nonNegative(n, "tag-nonneg") {
				unsupported("name.NewTag: tag with a negative number")
			}
		}
		r := call(i, fr, token.NoPos, fr.fn, []value{head[:c+1] + "0", args[1]}).(tuple)
		if e, _ := r[1].(iface); e.t != nil {
			return r
		}
		st := append(structure{}, r[0].(structure)...)
		st[1] = strValue(mkConcat(tagParts...))
		st[2] = s
		return tuple{st, r[1]}
	}

	// (*semver.Version).Compare for release versions (no prerelease part)
	// with symbolic numbers: the lexicographic comparison as one term instead
	// of one path per outcome of every segment comparison.
	externals["(*github.com/Masterminds/semver.Version).Compare"] = func(fr *frame, args []value) value {
		i := fr.i
		if i.ps == nil {
			return declined{}
		}
		pv, _ := args[0].(*value)
		po, _ := args[1].(*value)
		if pv == nil || po == nil {
			return declined{}
		}
		v, o := (*pv).(structure), (*po).(structure)
		if v[3] != "" || o[3] != "" {
			return declined{}
		}
		anySym := false
		var a, b [3]*Term
		for k := 0; k < 3; k++ {
			x, y := i.ps.resolveValue(v[k]), i.ps.resolveValue(o[k])
			if isSym(x) || isSym(y) {
				anySym = true
			}
			a[k], b[k] = intTerm(x), intTerm(y)
		}
		if !anySym {
			return declined{}
		}
		lt := mkOr(bvCmp("bvslt", a[0], b[0]), mkAnd(mkEq(a[0], b[0]),
			mkOr(bvCmp("bvslt", a[1], b[1]), mkAnd(mkEq(a[1], b[1]), bvCmp("bvslt", a[2], b[2])))))
		eq := mkAnd(mkEq(a[0], b[0]), mkEq(a[1], b[1]), mkEq(a[2], b[2]))
		one := mkBV(64, 1)
		r := mkIte(lt, mkBV(64, ^uint64(0)), mkIte(eq, mkBV(64, 0), one))
		if r.isConst() {
			return int(sext(r.U, 64))
		}
		return symInt{r, types.Int}
	}
}
