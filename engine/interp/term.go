package interp

// SMT terms built by the symbolic interpreter, with light-weight
// simplification and an SMT-LIB2 printer.

import (
	"fmt"
	"sort"
	"strings"
)

type Sort struct {
	K    byte // 'b' bool, 'v' bitvec, 's' string, 'i' int
	Bits int
}

var (
	sortBool = Sort{K: 'b'}
	sortStr  = Sort{K: 's'}
	sortInt  = Sort{K: 'i'}
)

func sortBV(n int) Sort { return Sort{K: 'v', Bits: n} }

func (s Sort) smt() string {
	switch s.K {
	case 'b':
		return "Bool"
	case 'v':
		return fmt.Sprintf("(_ BitVec %d)", s.Bits)
	case 's':
		return "String"
	case 'i':
		return "Int"
	}
	panic("bad sort")
}

// Term is an immutable SMT term.
type Term struct {
	Op   string // "const", "var", or an SMT operator name
	Args []*Term
	Sort Sort
	B    bool   // const bool
	U    uint64 // const bitvec (masked) / const int (as int64)
	S    string // const string
	Name string // var
	str  string // cached SMT text
}

var (
	tTrue  = &Term{Op: "const", Sort: sortBool, B: true}
	tFalse = &Term{Op: "const", Sort: sortBool, B: false}
)

func mkBool(b bool) *Term {
	if b {
		return tTrue
	}
	return tFalse
}

func mask(bits int) uint64 {
	if bits >= 64 {
		return ^uint64(0)
	}
	return (uint64(1) << uint(bits)) - 1
}

func mkBV(bits int, u uint64) *Term {
	return &Term{Op: "const", Sort: sortBV(bits), U: u & mask(bits)}
}
func mkStr(s string) *Term { return &Term{Op: "const", Sort: sortStr, S: s} }
func mkIntC(i int64) *Term { return &Term{Op: "const", Sort: sortInt, U: uint64(i)} }
func mkVar(name string, s Sort) *Term {
	return &Term{Op: "var", Sort: s, Name: name}
}

func (t *Term) isConst() bool { return t.Op == "const" }
func (t *Term) isTrue() bool  { return t.Op == "const" && t.Sort.K == 'b' && t.B }
func (t *Term) isFalse() bool { return t.Op == "const" && t.Sort.K == 'b' && !t.B }

func sext(u uint64, bits int) int64 {
	if bits >= 64 {
		return int64(u)
	}
	sh := uint(64 - bits)
	return int64(u<<sh) >> sh
}

func smtStringLit(s string) string {
	var b strings.Builder
	b.WriteByte('"')
	for i := 0; i < len(s); i++ {
		c := s[i]
		switch {
		case c == '"':
			b.WriteString(`""`)
		case c == '\\':
			b.WriteString(`\u{5c}`)
		case c >= 0x20 && c < 0x7f:
			b.WriteByte(c)
		default:
			fmt.Fprintf(&b, `\u{%x}`, c)
		}
	}
	b.WriteByte('"')
	return b.String()
}

func smtName(n string) string { return "|" + strings.NewReplacer("|", "_", "\\", "_").Replace(n) + "|" }

// SMT returns the SMT-LIB2 text of t.
func (t *Term) SMT() string {
	if t.str != "" {
		return t.str
	}
	var s string
	switch t.Op {
	case "const":
		switch t.Sort.K {
		case 'b':
			if t.B {
				s = "true"
			} else {
				s = "false"
			}
		case 'v':
			if t.Sort.Bits%4 == 0 {
				s = fmt.Sprintf("#x%0*x", t.Sort.Bits/4, t.U)
			} else {
				s = fmt.Sprintf("#b%0*b", t.Sort.Bits, t.U)
			}
		case 's':
			s = smtStringLit(t.S)
		case 'i':
			i := int64(t.U)
			if i < 0 {
				s = fmt.Sprintf("(- %d)", -i)
			} else {
				s = fmt.Sprintf("%d", i)
			}
		}
	case "var":
		s = smtName(t.Name)
	default:
		var b strings.Builder
		b.WriteByte('(')
		b.WriteString(t.Op)
		for _, a := range t.Args {
			b.WriteByte(' ')
			b.WriteString(a.SMT())
		}
		b.WriteByte(')')
		s = b.String()
	}
	t.str = s
	return s
}

func (t *Term) String() string { return t.SMT() }

// vars collects the free variables of t into m.
func (t *Term) vars(m map[string]Sort) {
	if t.Op == "var" {
		m[t.Name] = t.Sort
		return
	}
	for _, a := range t.Args {
		a.vars(m)
	}
}

func termEq(a, b *Term) bool {
	if a == b {
		return true
	}
	return a.Sort == b.Sort && a.SMT() == b.SMT()
}

// ---------------------------------------------------------------------
// Boolean constructors

func mkNot(a *Term) *Term {
	if a.isConst() {
		return mkBool(!a.B)
	}
	if a.Op == "not" {
		return a.Args[0]
	}
	return &Term{Op: "not", Args: []*Term{a}, Sort: sortBool}
}

func mkAnd(as ...*Term) *Term {
	var out []*Term
	for _, a := range as {
		if a.isFalse() {
			return tFalse
		}
		if a.isTrue() {
			continue
		}
		if a.Op == "and" {
			out = append(out, a.Args...)
			continue
		}
		out = append(out, a)
	}
	switch len(out) {
	case 0:
		return tTrue
	case 1:
		return out[0]
	}
	return &Term{Op: "and", Args: out, Sort: sortBool}
}

func mkOr(as ...*Term) *Term {
	var out []*Term
	for _, a := range as {
		if a.isTrue() {
			return tTrue
		}
		if a.isFalse() {
			continue
		}
		if a.Op == "or" {
			out = append(out, a.Args...)
			continue
		}
		out = append(out, a)
	}
	switch len(out) {
	case 0:
		return tFalse
	case 1:
		return out[0]
	}
	return &Term{Op: "or", Args: out, Sort: sortBool}
}

func mkImplies(a, b *Term) *Term { return mkOr(mkNot(a), b) }

func mkIte(c, a, b *Term) *Term {
	if c.isTrue() {
		return a
	}
	if c.isFalse() {
		return b
	}
	if termEq(a, b) {
		return a
	}
	if a.Sort.K == 'b' {
		if a.isTrue() && b.isFalse() {
			return c
		}
		if a.isFalse() && b.isTrue() {
			return mkNot(c)
		}
	}
	return &Term{Op: "ite", Args: []*Term{c, a, b}, Sort: a.Sort}
}

// strParts flattens a string term into its concatenation parts.
func strParts(t *Term) []*Term {
	if t.Op == "str.++" {
		return t.Args
	}
	if t.isConst() && t.S == "" {
		return nil
	}
	return []*Term{t}
}

func mkConcat(as ...*Term) *Term {
	var out []*Term
	for _, a := range as {
		for _, p := range strParts(a) {
			if p.isConst() && len(out) > 0 && out[len(out)-1].isConst() {
				out[len(out)-1] = mkStr(out[len(out)-1].S + p.S)
			} else {
				out = append(out, p)
			}
		}
	}
	switch len(out) {
	case 0:
		return mkStr("")
	case 1:
		return out[0]
	}
	return &Term{Op: "str.++", Args: out, Sort: sortStr}
}

func mkEq(a, b *Term) *Term {
	if a.Sort != b.Sort {
		panic(fmt.Sprintf("mkEq: sort mismatch %v %v (%s, %s)", a.Sort, b.Sort, a, b))
	}
	if a.isConst() && b.isConst() {
		switch a.Sort.K {
		case 'b':
			return mkBool(a.B == b.B)
		case 'v', 'i':
			return mkBool(a.U == b.U)
		case 's':
			return mkBool(a.S == b.S)
		}
	}
	if termEq(a, b) {
		return tTrue
	}
	if a.Sort.K == 'v' && ((a.Op == "ite" && b.isConst() && constLeaves(a, 0)) || (b.Op == "ite" && a.isConst() && constLeaves(b, 0))) {
		return distribute(mkEq, a, b)
	}
	if a.Sort.K == 'b' {
		if b.isConst() {
			a, b = b, a
		}
		if a.isConst() {
			if a.B {
				return b
			}
			return mkNot(b)
		}
	}
	if a.Sort.K == 's' {
		// Strip common concrete prefixes / suffixes of concat lists; detect
		// obvious mismatches.
		pa, pb := strParts(a), strParts(b)
		for len(pa) > 0 && len(pb) > 0 {
			x, y := pa[0], pb[0]
			if x.isConst() && y.isConst() {
				n := len(x.S)
				if len(y.S) < n {
					n = len(y.S)
				}
				if x.S[:n] != y.S[:n] {
					return tFalse
				}
				pa = append([]*Term{mkStr(x.S[n:])}, pa[1:]...)
				pb = append([]*Term{mkStr(y.S[n:])}, pb[1:]...)
				if pa[0].S == "" {
					pa = pa[1:]
				}
				if len(pb) > 0 && pb[0].S == "" {
					pb = pb[1:]
				}
				continue
			}
			if termEq(x, y) {
				pa, pb = pa[1:], pb[1:]
				continue
			}
			break
		}
		for len(pa) > 0 && len(pb) > 0 {
			x, y := pa[len(pa)-1], pb[len(pb)-1]
			if x.isConst() && y.isConst() {
				n := len(x.S)
				if len(y.S) < n {
					n = len(y.S)
				}
				if x.S[len(x.S)-n:] != y.S[len(y.S)-n:] {
					return tFalse
				}
				pa = append(append([]*Term{}, pa[:len(pa)-1]...), mkStr(x.S[:len(x.S)-n]))
				pb = append(append([]*Term{}, pb[:len(pb)-1]...), mkStr(y.S[:len(y.S)-n]))
				if pa[len(pa)-1].S == "" {
					pa = pa[:len(pa)-1]
				}
				if len(pb) > 0 && pb[len(pb)-1].S == "" {
					pb = pb[:len(pb)-1]
				}
				continue
			}
			if termEq(x, y) {
				pa, pb = pa[:len(pa)-1], pb[:len(pb)-1]
				continue
			}
			break
		}
		a, b = mkConcat(pa...), mkConcat(pb...)
		if a.isConst() && b.isConst() {
			return mkBool(a.S == b.S)
		}
		if termEq(a, b) {
			return tTrue
		}
	}
	// int2bv(len) == const  ->  len == const
	if a.Sort.K == 'v' {
		if x, c, ok := lenCmpOperands(a, b); ok {
			return mkEq(x, c)
		}
		if x, c, ok := lenCmpOperands(b, a); ok {
			return mkEq(x, c)
		}
	}
	// canonical order for caching
	if a.SMT() > b.SMT() {
		a, b = b, a
	}
	return &Term{Op: "=", Args: []*Term{a, b}, Sort: sortBool}
}

// lenCmpOperands recognises (int2bv X) against a small non-negative constant
// and returns X and the integer constant.
func lenCmpOperands(a, b *Term) (*Term, *Term, bool) {
	if a.Op == "int2bv" && b.isConst() && b.Sort.K == 'v' {
		v := sext(b.U, b.Sort.Bits)
		if v >= 0 && v < 1<<31 {
			return a.Args[0], mkIntC(v), true
		}
	}
	return nil, nil, false
}

// ---------------------------------------------------------------------
// Bit-vector constructors

func bvBin(op string, a, b *Term) *Term {
	bits := a.Sort.Bits
	if a.isConst() && b.isConst() {
		x, y := a.U, b.U
		sx, sy := sext(x, bits), sext(y, bits)
		switch op {
		case "bvadd":
			return mkBV(bits, x+y)
		case "bvsub":
			return mkBV(bits, x-y)
		case "bvmul":
			return mkBV(bits, x*y)
		case "bvand":
			return mkBV(bits, x&y)
		case "bvor":
			return mkBV(bits, x|y)
		case "bvxor":
			return mkBV(bits, x^y)
		case "bvudiv":
			if y != 0 {
				return mkBV(bits, x/y)
			}
		case "bvurem":
			if y != 0 {
				return mkBV(bits, x%y)
			}
		case "bvsdiv":
			if y != 0 {
				return mkBV(bits, uint64(sx/sy))
			}
		case "bvsrem":
			if y != 0 {
				return mkBV(bits, uint64(sx%sy))
			}
		case "bvshl":
			if y >= uint64(bits) {
				return mkBV(bits, 0)
			}
			return mkBV(bits, x<<y)
		case "bvlshr":
			if y >= uint64(bits) {
				return mkBV(bits, 0)
			}
			return mkBV(bits, x>>y)
		case "bvashr":
			if y >= uint64(bits) {
				y = uint64(bits - 1)
			}
			return mkBV(bits, uint64(sx>>y))
		}
	}
	// x + 0, x - 0
	if (op == "bvadd" || op == "bvsub" || op == "bvor" || op == "bvxor") && b.isConst() && b.U == 0 {
		return a
	}
	if (op == "bvadd" || op == "bvor" || op == "bvxor") && a.isConst() && a.U == 0 {
		return b
	}
	// len arithmetic: int2bv(x) + int2bv(y) -> int2bv(x+y) keeps len terms comparable
	if op == "bvadd" && a.Op == "int2bv" && b.Op == "int2bv" {
		return mkInt2BV(bits, &Term{Op: "+", Args: []*Term{a.Args[0], b.Args[0]}, Sort: sortInt})
	}
	if op == "bvadd" && a.Op == "int2bv" && b.isConst() && sext(b.U, bits) >= 0 && sext(b.U, bits) < 1<<31 {
		return mkInt2BV(bits, &Term{Op: "+", Args: []*Term{a.Args[0], mkIntC(sext(b.U, bits))}, Sort: sortInt})
	}
	return &Term{Op: op, Args: []*Term{a, b}, Sort: a.Sort}
}

func mkInt2BV(bits int, x *Term) *Term {
	if x.isConst() {
		return mkBV(bits, x.U)
	}
	return &Term{Op: "int2bv", Args: []*Term{x}, Sort: sortBV(bits), str: fmt.Sprintf("((_ int2bv %d) %s)", bits, x.SMT())}
}

// constLeaves reports whether t is a (nested) ite whose leaves are constants.
func constLeaves(t *Term, depth int) bool {
	if t.isConst() {
		return true
	}
	return t.Op == "ite" && depth < 4 && constLeaves(t.Args[1], depth+1) && constLeaves(t.Args[2], depth+1)
}

// distribute pushes a binary operator with one constant operand into an ite
// with constant leaves, so the result folds to a boolean combination of the
// conditions.
func distribute(f func(x, y *Term) *Term, a, b *Term) *Term {
	if a.Op == "ite" && b.isConst() && constLeaves(a, 0) {
		return mkIte(a.Args[0], distribute(f, a.Args[1], b), distribute(f, a.Args[2], b))
	}
	if b.Op == "ite" && a.isConst() && constLeaves(b, 0) {
		return mkIte(b.Args[0], distribute(f, a, b.Args[1]), distribute(f, a, b.Args[2]))
	}
	return f(a, b)
}

func bvCmp(op string, a, b *Term) *Term {
	bits := a.Sort.Bits
	if (a.Op == "ite" && b.isConst() && constLeaves(a, 0)) || (b.Op == "ite" && a.isConst() && constLeaves(b, 0)) {
		return distribute(func(x, y *Term) *Term { return bvCmp(op, x, y) }, a, b)
	}
	if a.isConst() && b.isConst() {
		x, y := a.U, b.U
		sx, sy := sext(x, bits), sext(y, bits)
		switch op {
		case "bvult":
			return mkBool(x < y)
		case "bvule":
			return mkBool(x <= y)
		case "bvugt":
			return mkBool(x > y)
		case "bvuge":
			return mkBool(x >= y)
		case "bvslt":
			return mkBool(sx < sy)
		case "bvsle":
			return mkBool(sx <= sy)
		case "bvsgt":
			return mkBool(sx > sy)
		case "bvsge":
			return mkBool(sx >= sy)
		}
	}
	// signed comparisons between a length term and a small constant are done
	// over Int: lengths are non-negative and far below 2^63.
	if strings.HasPrefix(op, "bvs") {
		iop := map[string]string{"bvslt": "<", "bvsle": "<=", "bvsgt": ">", "bvsge": ">="}[op]
		if x, c, ok := lenCmpOperands(a, b); ok {
			return &Term{Op: iop, Args: []*Term{x, c}, Sort: sortBool}
		}
		if x, c, ok := lenCmpOperands(b, a); ok {
			return &Term{Op: iop, Args: []*Term{c, x}, Sort: sortBool}
		}
		if a.Op == "int2bv" && b.Op == "int2bv" {
			return &Term{Op: iop, Args: []*Term{a.Args[0], b.Args[0]}, Sort: sortBool}
		}
	}
	return &Term{Op: op, Args: []*Term{a, b}, Sort: sortBool}
}

func bvNeg(a *Term) *Term {
	if a.isConst() {
		return mkBV(a.Sort.Bits, -a.U)
	}
	return &Term{Op: "bvneg", Args: []*Term{a}, Sort: a.Sort}
}

func bvNot(a *Term) *Term {
	if a.isConst() {
		return mkBV(a.Sort.Bits, ^a.U)
	}
	return &Term{Op: "bvnot", Args: []*Term{a}, Sort: a.Sort}
}

// bvResize converts a to the given width; signed selects sign extension.
func bvResize(a *Term, bits int, signed bool) *Term {
	from := a.Sort.Bits
	if from == bits {
		return a
	}
	if a.isConst() {
		if signed {
			return mkBV(bits, uint64(sext(a.U, from)))
		}
		return mkBV(bits, a.U)
	}
	if bits < from {
		return &Term{Op: "extract", Args: []*Term{a}, Sort: sortBV(bits),
			str: fmt.Sprintf("((_ extract %d 0) %s)", bits-1, a.SMT())}
	}
	if a.Op == "int2bv" {
		return mkInt2BV(bits, a.Args[0])
	}
	op := "zero_extend"
	if signed {
		op = "sign_extend"
	}
	return &Term{Op: op, Args: []*Term{a}, Sort: sortBV(bits),
		str: fmt.Sprintf("((_ %s %d) %s)", op, bits-from, a.SMT())}
}

// ---------------------------------------------------------------------
// String constructors

func mkStrLen(a *Term) *Term {
	if a.isConst() {
		return mkIntC(int64(len(a.S)))
	}
	if a.Op == "str.++" {
		// sum of part lengths, folding constants
		var c int64
		var rest []*Term
		for _, p := range a.Args {
			if p.isConst() {
				c += int64(len(p.S))
			} else {
				rest = append(rest, &Term{Op: "str.len", Args: []*Term{p}, Sort: sortInt})
			}
		}
		if c != 0 {
			rest = append(rest, mkIntC(c))
		}
		if len(rest) == 1 {
			return rest[0]
		}
		return &Term{Op: "+", Args: rest, Sort: sortInt}
	}
	return &Term{Op: "str.len", Args: []*Term{a}, Sort: sortInt}
}

func mkStrPred(op string, a, b *Term) *Term {
	if a.isConst() && b.isConst() {
		switch op {
		case "str.prefixof": // a prefix of b
			return mkBool(strings.HasPrefix(b.S, a.S))
		case "str.suffixof":
			return mkBool(strings.HasSuffix(b.S, a.S))
		case "str.contains": // a contains b
			return mkBool(strings.Contains(a.S, b.S))
		case "str.<":
			return mkBool(a.S < b.S)
		case "str.<=":
			return mkBool(a.S <= b.S)
		}
	}
	if op == "str.prefixof" && a.isConst() {
		if a.S == "" {
			return tTrue
		}
		pb := strParts(b)
		if len(pb) > 0 && pb[0].isConst() {
			if len(pb[0].S) >= len(a.S) {
				return mkBool(strings.HasPrefix(pb[0].S, a.S))
			}
			if !strings.HasPrefix(a.S, pb[0].S) {
				return tFalse
			}
		}
	}
	if op == "str.suffixof" && a.isConst() {
		if a.S == "" {
			return tTrue
		}
		pb := strParts(b)
		if len(pb) > 0 && pb[len(pb)-1].isConst() {
			l := pb[len(pb)-1].S
			if len(l) >= len(a.S) {
				return mkBool(strings.HasSuffix(l, a.S))
			}
			if !strings.HasSuffix(a.S, l) {
				return tFalse
			}
		}
	}
	if op == "str.contains" && b.isConst() {
		if b.S == "" {
			return tTrue
		}
		for _, p := range strParts(a) {
			if p.isConst() && strings.Contains(p.S, b.S) {
				return tTrue
			}
		}
	}
	return &Term{Op: op, Args: []*Term{a, b}, Sort: sortBool}
}

// mkInRe builds (str.in_re t re) where re is raw SMT-LIB regex text.
func mkInRe(t *Term, re string) *Term {
	return &Term{Op: "str.in_re", Args: []*Term{t}, Sort: sortBool,
		str: fmt.Sprintf("(str.in_re %s %s)", t.SMT(), re)}
}

// ---------------------------------------------------------------------
// substitution of bound variables

func (t *Term) subst(b map[string]*Term) *Term {
	if len(b) == 0 {
		return t
	}
	switch t.Op {
	case "const":
		return t
	case "var":
		if r, ok := b[t.Name]; ok {
			return r
		}
		return t
	}
	changed := false
	args := make([]*Term, len(t.Args))
	for i, a := range t.Args {
		args[i] = a.subst(b)
		if args[i] != a {
			changed = true
		}
	}
	if !changed {
		return t
	}
	return rebuild(t, args)
}

// rebuild re-applies the smart constructor for t.Op to new arguments.
func rebuild(t *Term, args []*Term) *Term {
	switch t.Op {
	case "not":
		return mkNot(args[0])
	case "and":
		return mkAnd(args...)
	case "or":
		return mkOr(args...)
	case "ite":
		return mkIte(args[0], args[1], args[2])
	case "=":
		return mkEq(args[0], args[1])
	case "str.++":
		return mkConcat(args...)
	case "str.len":
		return mkStrLen(args[0])
	case "str.prefixof", "str.suffixof", "str.contains", "str.<", "str.<=":
		return mkStrPred(t.Op, args[0], args[1])
	case "bvadd", "bvsub", "bvmul", "bvand", "bvor", "bvxor", "bvudiv", "bvurem", "bvsdiv", "bvsrem", "bvshl", "bvlshr", "bvashr":
		return bvBin(t.Op, args[0], args[1])
	case "bvult", "bvule", "bvugt", "bvuge", "bvslt", "bvsle", "bvsgt", "bvsge":
		return bvCmp(t.Op, args[0], args[1])
	case "bvneg":
		return bvNeg(args[0])
	case "bvnot":
		return bvNot(args[0])
	case "int2bv":
		return mkInt2BV(t.Sort.Bits, args[0])
	case "extract":
		return bvResize(args[0], t.Sort.Bits, false)
	case "zero_extend":
		return bvResize(args[0], t.Sort.Bits, false)
	case "sign_extend":
		return bvResize(args[0], t.Sort.Bits, true)
	case "str.in_re":
		re := t.SMT()
		// "(str.in_re <arg> <re>)": recover the regex text
		prefix := "(str.in_re " + t.Args[0].SMT() + " "
		re = strings.TrimSuffix(strings.TrimPrefix(re, prefix), ")")
		if args[0].isConst() {
			// leave to the solver; cheap
		}
		return mkInRe(args[0], re)
	case "+", "<", "<=", ">", ">=":
		allc := true
		for _, a := range args {
			if !a.isConst() {
				allc = false
			}
		}
		if allc {
			switch t.Op {
			case "+":
				var s int64
				for _, a := range args {
					s += int64(a.U)
				}
				return mkIntC(s)
			case "<":
				return mkBool(int64(args[0].U) < int64(args[1].U))
			case "<=":
				return mkBool(int64(args[0].U) <= int64(args[1].U))
			case ">":
				return mkBool(int64(args[0].U) > int64(args[1].U))
			case ">=":
				return mkBool(int64(args[0].U) >= int64(args[1].U))
			}
		}
	}
	return &Term{Op: t.Op, Args: args, Sort: t.Sort}
}

func sortedVarNames(m map[string]Sort) []string {
	ns := make([]string, 0, len(m))
	for n := range m {
		ns = append(ns, n)
	}
	sort.Strings(ns)
	return ns
}
