// Copyright 2013 The Go Authors. All rights reserved.
// Use of this source code is governed by a BSD-style
// license that can be found in the LICENSE file.

// Package ssa/interp defines an interpreter for the SSA
// representation of Go programs.
//
// This interpreter is provided as an adjunct for testing the SSA
// construction algorithm.  Its purpose is to provide a minimal
// metacircular implementation of the dynamic semantics of each SSA
// instruction.  It is not, and will never be, a production-quality Go
// interpreter.
//
// The following is a partial list of Go features that are currently
// unsupported or incomplete in the interpreter.
//
// * Unsafe operations, including all uses of unsafe.Pointer, are
// impossible to support given the "boxed" value representation we
// have chosen.
//
// * The reflect package is only partially implemented.
//
// * The "testing" package is no longer supported because it
// depends on low-level details that change too often.
//
// * "sync/atomic" operations are not atomic due to the "boxed" value
// representation: it is not possible to read, modify and write an
// interface value atomically. As a consequence, Mutexes are currently
// broken.
//
// * recover is only partially implemented.  Also, the interpreter
// makes no attempt to distinguish target panics from interpreter
// crashes.
//
// * the sizes of the int, uint and uintptr types in the target
// program are assumed to be the same as those of the interpreter
// itself.
//
// * all values occupy space, even those of types defined by the spec
// to have zero size, e.g. struct{}.  This can cause asymptotic
// performance degradation.
//
// * os.Exit is implemented using panic, causing deferred functions to
// run.
package interp

import (
	"fmt"
	"go/token"
	"go/types"
	"log"
	"os"
	"reflect"
	"runtime"
	"slices"
	_ "unsafe"

	"golang.org/x/tools/go/ssa"
)

type continuation int

const (
	kNext continuation = iota
	kReturn
	kJump
)

// Mode is a bitmask of options affecting the interpreter.
type Mode uint

const (
	DisableRecover Mode = 1 << iota // Disable recover() in target programs; show interpreter crash instead.
	EnableTracing                   // Print a trace of all instructions as they are interpreted.
)

type methodSet map[string]*ssa.Function

// State shared between all interpreted goroutines.
type interpreter struct {
	osArgs             []value                // the value of os.Args
	prog               *ssa.Program           // the SSA program
	globals            map[*ssa.Global]*value // addresses of global variables (immutable)
	mode               Mode                   // interpreter options
	reflectPackage     *ssa.Package           // the fake reflect package
	errorMethods       methodSet              // the method set of reflect.error, which implements the error interface.
	rtypeMethods       methodSet              // the method set of rtype, which implements the reflect.Type interface.
	runtimeErrorString types.Type             // the runtime.errorString type
	sizes              types.Sizes            // the effective type-sizing function
	goroutines         int32                  // atomically updated

	// gosym additions
	timers     map[chan value]bool        // channels made by time.After: fire when a select would block
	ps         *pathState                 // the path being executed
	w          *Worker                    // owning worker
	pkgInit    map[*ssa.Package]int       // 0 not started, 1 running, 2 done, 3 failed
	poisoned   map[*ssa.Global]string     // globals left unassigned by a failed init -> reason
	seen       map[*ssa.Function]struct{} // functions executed (for evidence)
	intr       map[*ssa.Function]externalFn
	cov        map[*ssa.Function][]bool // block coverage (GOSYM_COVERAGE), nil when off
	initStores map[*ssa.Global]bool     // globals stored during the running init
	depth      int
	clock      int64  // fake monotone clock (ns)
	randCount  int    // rand.String calls on this path
	panicSite  string // where the innermost frame was when the current panic started
}

type deferred struct {
	fn    value
	args  []value
	instr *ssa.Defer
	tail  *deferred
}

type frame struct {
	i                *interpreter
	caller           *frame
	fn               *ssa.Function
	block, prevBlock *ssa.BasicBlock
	env              map[ssa.Value]value // dynamic values of SSA variables
	locals           []value
	defers           *deferred
	result           value
	panicking        bool
	panic            interface{}
	phitemps         []value // temporaries for parallel phi assignment
	cur              ssa.Instruction
	cov              []bool // block coverage of fn (nil: not recorded)
}

func (fr *frame) get(key ssa.Value) value {
	switch key := key.(type) {
	case nil:
		// Hack; simplifies handling of optional attributes
		// such as ssa.Slice.{Low,High}.
		return nil
	case *ssa.Function, *ssa.Builtin:
		return key
	case *ssa.Const:
		return constValue(key)
	case *ssa.Global:
		if r, ok := fr.i.globals[key]; ok {
			if key.Pkg != nil && fr.i.pkgInit[key.Pkg] != 2 {
				fr.i.ensureInit(key.Pkg, fr)
				if why, bad := fr.i.poisoned[key]; bad {
					unsupported("read of global %s: %s", key, why)
				}
			}
			return r
		}
	}
	if r, ok := fr.env[key]; ok {
		return r
	}
	panic(fmt.Sprintf("get: no value for %T: %v", key, key.Name()))
}

// runDefer runs a deferred call d.
// It always returns normally, but may set or clear fr.panic.
func (fr *frame) runDefer(d *deferred) {
	if fr.i.mode&EnableTracing != 0 {
		fmt.Fprintf(os.Stderr, "%s: invoking deferred function call\n",
			fr.i.prog.Fset.Position(d.instr.Pos()))
	}
	var ok bool
	defer func() {
		if !ok {
			// Deferred call created a new state of panic.
			r := recover()
			if isEngineControl(r) {
				panic(r)
			}
			fr.panicking = true
			fr.panic = r
		}
	}()
	call(fr.i, fr, d.instr.Pos(), d.fn, d.args)
	ok = true
}

// runDefers executes fr's deferred function calls in LIFO order.
//
// On entry, fr.panicking indicates a state of panic; if
// true, fr.panic contains the panic value.
//
// On completion, if a deferred call started a panic, or if no
// deferred call recovered from a previous state of panic, then
// runDefers itself panics after the last deferred call has run.
//
// If there was no initial state of panic, or it was recovered from,
// runDefers returns normally.
func (fr *frame) runDefers() {
	for d := fr.defers; d != nil; d = d.tail {
		fr.runDefer(d)
	}
	fr.defers = nil
	if fr.panicking {
		panic(fr.panic) // new panic, or still panicking
	}
}

// lookupMethod returns the method set for type typ, which may be one
// of the interpreter's fake types.
func lookupMethod(i *interpreter, typ types.Type, meth *types.Func) *ssa.Function {
	switch typ {
	case rtypeType:
		return i.rtypeMethods[meth.Id()]
	case errorType:
		return i.errorMethods[meth.Id()]
	}
	return i.prog.LookupMethod(typ, meth.Pkg(), meth.Name())
}

// visitInstr interprets a single ssa.Instruction within the activation
// record frame.  It returns a continuation value indicating where to
// read the next instruction from.
func visitInstr(fr *frame, instr ssa.Instruction) continuation {
	switch instr := instr.(type) {
	case *ssa.DebugRef:
		// no-op

	case *ssa.UnOp:
		fr.env[instr] = unop(fr, instr, fr.get(instr.X))

	case *ssa.BinOp:
		fr.env[instr] = binop(fr, instr.Op, instr.X.Type(), fr.get(instr.X), fr.get(instr.Y))

	case *ssa.Call:
		fn, args := prepareCall(fr, &instr.Call)
		fr.env[instr] = call(fr.i, fr, instr.Pos(), fn, args)

	case *ssa.ChangeInterface:
		fr.env[instr] = fr.get(instr.X)

	case *ssa.ChangeType:
		fr.env[instr] = fr.get(instr.X) // (can't fail)

	case *ssa.Convert:
		fr.env[instr] = conv(instr.Type(), instr.X.Type(), fr.get(instr.X))

	case *ssa.SliceToArrayPointer:
		fr.env[instr] = sliceToArrayPointer(instr.Type(), instr.X.Type(), fr.get(instr.X))

	case *ssa.MakeInterface:
		fr.env[instr] = iface{t: instr.X.Type(), v: fr.get(instr.X)}

	case *ssa.Extract:
		fr.env[instr] = fr.get(instr.Tuple).(tuple)[instr.Index]

	case *ssa.Slice:
		fr.env[instr] = slice(fr, fr.get(instr.X), fr.get(instr.Low), fr.get(instr.High), fr.get(instr.Max))

	case *ssa.Return:
		switch len(instr.Results) {
		case 0:
		case 1:
			fr.result = fr.get(instr.Results[0])
		default:
			var res []value
			for _, r := range instr.Results {
				res = append(res, fr.get(r))
			}
			fr.result = tuple(res)
		}
		fr.block = nil
		return kReturn

	case *ssa.RunDefers:
		fr.runDefers()

	case *ssa.Panic:
		panic(targetPanic{fr.get(instr.X)})

	case *ssa.Send:
		ch := fr.get(instr.Chan).(chan value)
		if ch == nil {
			unsupported("send on nil channel (blocks forever)")
		}
		select {
		case ch <- fr.get(instr.X):
		default:
			unsupported("channel send would block: no other goroutine runs under the engine")
		}

	case *ssa.Store:
		if fr.i.initStores != nil {
			if g, ok := instr.Addr.(*ssa.Global); ok {
				fr.i.initStores[g] = true
			}
		}
		store(mustDeref(instr.Addr.Type()), fr.get(instr.Addr).(*value), fr.get(instr.Val))

	case *ssa.If:
		succ := 1
		if fr.i.condValue(fr.get(instr.Cond)) {
			succ = 0
		}
		fr.prevBlock, fr.block = fr.block, fr.block.Succs[succ]
		return kJump

	case *ssa.Jump:
		fr.prevBlock, fr.block = fr.block, fr.block.Succs[0]
		return kJump

	case *ssa.Defer:
		fn, args := prepareCall(fr, &instr.Call)
		defers := &fr.defers
		if into := fr.get(instr.DeferStack); into != nil {
			defers = into.(**deferred)
		}
		*defers = &deferred{
			fn:    fn,
			args:  args,
			instr: instr,
			tail:  *defers,
		}

	case *ssa.Go:
		fn, args := prepareCall(fr, &instr.Call)
		fr.i.goStmt(fr, instr, fn, args)

	case *ssa.MakeChan:
		// goroutines started by `go` run synchronously (or not at all), so
		// every channel gets slack: an unbuffered producer/consumer pair
		// becomes produce-all-then-consume-all.
		fr.env[instr] = make(chan value, asInt64(fr.i.concrete(fr.get(instr.Size), "chan size"))+4096)

	case *ssa.Alloc:
		var addr *value
		if instr.Heap {
			// new
			addr = new(value)
			fr.env[instr] = addr
		} else {
			// local
			addr = fr.env[instr].(*value)
		}
		*addr = zero(mustDeref(instr.Type()))

	case *ssa.MakeSlice:
		slice := make([]value, asInt64(fr.i.concrete(fr.get(instr.Cap), "slice cap")))
		tElt := instr.Type().Underlying().(*types.Slice).Elem()
		for i := range slice {
			slice[i] = zero(tElt)
		}
		fr.env[instr] = slice[:asInt64(fr.i.concrete(fr.get(instr.Len), "slice len"))]

	case *ssa.MakeMap:
		fr.env[instr] = makeMap(instr.Type().Underlying().(*types.Map).Key(), 0)

	case *ssa.Range:
		fr.env[instr] = rangeIter(fr, fr.get(instr.X), instr.X.Type())

	case *ssa.Next:
		fr.env[instr] = fr.get(instr.Iter).(iter).next()

	case *ssa.FieldAddr:
		fr.env[instr] = &(*fr.get(instr.X).(*value)).(structure)[instr.Field]

	case *ssa.Field:
		fr.env[instr] = fr.get(instr.X).(structure)[instr.Field]

	case *ssa.IndexAddr:
		x := fr.get(instr.X)
		idx := fr.get(instr.Index)
		switch x := x.(type) {
		case []value:
			fr.env[instr] = &x[fr.i.index(idx, len(x))]
		case *value: // *array
			a := (*x).(array)
			fr.env[instr] = &a[fr.i.index(idx, len(a))]
		default:
			panic(fmt.Sprintf("unexpected x type in IndexAddr: %T", x))
		}

	case *ssa.Index:
		x := fr.get(instr.X)
		idx := fr.get(instr.Index)

		switch x := x.(type) {
		case array:
			fr.env[instr] = x[fr.i.index(idx, len(x))]
		case string:
			fr.env[instr] = x[fr.i.index(idx, len(x))]
		case symStr:
			fr.env[instr] = fr.i.symStrIndex(x, idx)
		default:
			panic(fmt.Sprintf("unexpected x type in Index: %T", x))
		}

	case *ssa.Lookup:
		fr.env[instr] = lookup(fr, instr, fr.get(instr.X), fr.get(instr.Index))

	case *ssa.MapUpdate:
		m := fr.get(instr.Map)
		key := fr.get(instr.Key)
		v := fr.get(instr.Value)
		switch m := m.(type) {
		case *omap:
			m.insert(fr, key, v)
		default:
			panic(fmt.Sprintf("illegal map type: %T", m))
		}

	case *ssa.TypeAssert:
		fr.env[instr] = typeAssert(fr.i, instr, fr.get(instr.X).(iface))

	case *ssa.MakeClosure:
		var bindings []value
		for _, binding := range instr.Bindings {
			bindings = append(bindings, fr.get(binding))
		}
		fr.env[instr] = &closure{instr.Fn.(*ssa.Function), bindings}

	case *ssa.Phi:
		log.Fatal("unreachable") // phis are processed at block entry

	case *ssa.Select:
		var cases []reflect.SelectCase
		if !instr.Blocking {
			cases = append(cases, reflect.SelectCase{
				Dir: reflect.SelectDefault,
			})
		}
		for _, state := range instr.States {
			var dir reflect.SelectDir
			if state.Dir == types.RecvOnly {
				dir = reflect.SelectRecv
			} else {
				dir = reflect.SelectSend
			}
			var send reflect.Value
			if state.Send != nil {
				send = reflect.ValueOf(fr.get(state.Send))
			}
			cases = append(cases, reflect.SelectCase{
				Dir:  dir,
				Chan: reflect.ValueOf(fr.get(state.Chan)),
				Send: send,
			})
		}
		if instr.Blocking {
			// a blocking select with no ready case would block forever
			cases = append(cases, reflect.SelectCase{Dir: reflect.SelectDefault})
		}
		chosen, recv, recvOk := reflect.Select(cases)
		for instr.Blocking && chosen == len(cases)-1 && fr.i.runLateGo() {
			// nothing was ready: a goroutine spawned earlier has now run
			// (harness flag "latego"); look again
			chosen, recv, recvOk = reflect.Select(cases)
		}
		if instr.Blocking && chosen == len(cases)-1 {
			// nothing is ready: a timer among the cases fires now
			fired := false
			for k, st := range instr.States {
				if st.Dir != types.RecvOnly {
					continue
				}
				if c, ok := fr.get(st.Chan).(chan value); ok && fr.i.timers[c] {
					chosen, recv, recvOk, fired = k, reflect.ValueOf(zero(st.Chan.Type().Underlying().(*types.Chan).Elem())), true, true
					break
				}
			}
			if !fired {
				unsupported("select would block: no other goroutine runs under the engine")
			}
		}
		if !instr.Blocking {
			chosen-- // default case should have index -1.
		}
		r := tuple{chosen, recvOk}
		for i, st := range instr.States {
			if st.Dir == types.RecvOnly {
				var v value
				if i == chosen && recvOk {
					// No need to copy since send makes an unaliased copy.
					v = recv.Interface().(value)
				} else {
					v = zero(st.Chan.Type().Underlying().(*types.Chan).Elem())
				}
				r = append(r, v)
			}
		}
		fr.env[instr] = r

	default:
		panic(fmt.Sprintf("unexpected instruction: %T", instr))
	}

	// if val, ok := instr.(ssa.Value); ok {
	// 	fmt.Println(toString(fr.env[val])) // debugging
	// }

	return kNext
}

// prepareCall determines the function value and argument values for a
// function call in a Call, Go or Defer instruction, performing
// interface method lookup if needed.
func prepareCall(fr *frame, call *ssa.CallCommon) (fn value, args []value) {
	v := fr.get(call.Value)
	if call.Method == nil {
		// Function call.
		fn = v
	} else {
		// Interface method invocation.
		recv := v.(iface)
		if recv.t == nil {
			panic("method invoked on nil interface")
		}
		if f := lookupMethod(fr.i, recv.t, call.Method); f == nil {
			// Unreachable in well-typed programs.
			panic(fmt.Sprintf("method set for dynamic type %v does not contain %s", recv.t, call.Method))
		} else {
			fn = f
		}
		args = append(args, recv.v)
	}
	for _, arg := range call.Args {
		args = append(args, fr.get(arg))
	}
	return
}

// call interprets a call to a function (function, builtin or closure)
// fn with arguments args, returning its result.
// callpos is the position of the callsite.
func call(i *interpreter, caller *frame, callpos token.Pos, fn value, args []value) value {
	switch fn := fn.(type) {
	case *ssa.Function:
		if fn == nil {
			panic("call of nil function") // nil of func type
		}
		return callSSA(i, caller, callpos, fn, args, nil)
	case *closure:
		return callSSA(i, caller, callpos, fn.Fn, args, fn.Env)
	case *ssa.Builtin:
		return callBuiltin(caller, callpos, fn, args)
	}
	panic(fmt.Sprintf("cannot call %T", fn))
}

func loc(fset *token.FileSet, pos token.Pos) string {
	if pos == token.NoPos {
		return ""
	}
	return " at " + fset.Position(pos).String()
}

// callSSA interprets a call to function fn with arguments args,
// and lexical environment env, returning its result.
// callpos is the position of the callsite.
func callSSA(i *interpreter, caller *frame, callpos token.Pos, fn *ssa.Function, args []value, env []value) value {
	if i.mode&EnableTracing != 0 {
		fset := fn.Prog.Fset
		fmt.Fprintf(os.Stderr, "%*sEntering %s%s.\n", i.depth, "", fn, loc(fset, fn.Pos()))
		defer fmt.Fprintf(os.Stderr, "%*sLeaving %s.\n", i.depth, "", fn)
	}
	if caller != nil && fn.Name() == "init" && fn.Pkg != nil && caller.fn.Pkg != fn.Pkg && fn.Synthetic != "" {
		// a package initialiser calling the initialiser of an import:
		// packages are initialised lazily instead
		return nil
	}
	fr := &frame{
		i:      i,
		caller: caller, // for panic/recover
		fn:     fn,
	}
	if i.cov != nil {
		fr.cov = i.covFor(fn)
	}
	i.depth++
	defer func() { i.depth-- }()
	if i.depth > 2000 {
		panic(pathEnd{"call-depth"})
	}
	if i.ps != nil {
		i.ps.calls++
	}
	if fn.Parent() == nil {
		if ext := i.intrinsicFor(fn); ext != nil {
			if i.mode&EnableTracing != 0 {
				fmt.Fprintln(os.Stderr, "\t(intrinsic)")
			}
			if r := ext(fr, args); r != (declined{}) {
				return r
			}
		}
		if fn.Blocks == nil {
			unsupported("no code for function: %s", fn.String())
		}
	}
	if pkg := fn.Pkg; pkg != nil {
		if i.pkgInit[pkg] != 2 && fn.Name() != "init" {
			i.ensureInit(pkg, caller)
		}
	}
	if _, ok := i.seen[fn]; !ok {
		i.seen[fn] = struct{}{}
	}

	// generic function body?
	if fn.TypeParams().Len() > 0 && len(fn.TypeArgs()) == 0 {
		panic("interp requires ssa.BuilderMode to include InstantiateGenerics to execute generics")
	}

	fr.env = make(map[ssa.Value]value)
	fr.block = fn.Blocks[0]
	fr.locals = make([]value, len(fn.Locals))
	for i, l := range fn.Locals {
		fr.locals[i] = zero(mustDeref(l.Type()))
		fr.env[l] = &fr.locals[i]
	}
	for i, p := range fn.Params {
		fr.env[p] = args[i]
	}
	for i, fv := range fn.FreeVars {
		fr.env[fv] = env[i]
	}
	for fr.block != nil {
		runFrame(fr)
	}
	// Destroy the locals to avoid accidental use after return.
	for i := range fn.Locals {
		fr.locals[i] = bad{}
	}
	return fr.result
}

// runFrame executes SSA instructions starting at fr.block and
// continuing until a return, a panic, or a recovered panic.
//
// After a panic, runFrame panics.
//
// After a normal return, fr.result contains the result of the call
// and fr.block is nil.
//
// A recovered panic in a function without named return parameters
// (NRPs) becomes a normal return of the zero value of the function's
// result type.
//
// After a recovered panic in a function with NRPs, fr.result is
// undefined and fr.block contains the block at which to resume
// control.
func runFrame(fr *frame) {
	defer func() {
		if fr.block == nil {
			return // normal return
		}
		if fr.i.mode&DisableRecover != 0 {
			return // let interpreter crash
		}
		r := recover()
		if fr.i.panicSite == "" && fr.cur != nil {
			fr.i.panicSite = fr.fn.String() + " @ " + fr.i.prog.Fset.Position(fr.cur.Pos()).String()
			for c, n := fr.caller, 0; c != nil && n < 8; c, n = c.caller, n+1 {
				fr.i.panicSite += " <- " + c.fn.String()
			}
		}
		if isEngineControl(r) {
			panic(r)
		}
		fr.panicking = true
		fr.panic = r
		if fr.i.mode&EnableTracing != 0 {
			fmt.Fprintf(os.Stderr, "Panicking: %T %v.\n", fr.panic, fr.panic)
		}
		fr.runDefers()
		fr.block = fr.fn.Recover
	}()

	for {
		if fr.i.mode&EnableTracing != 0 {
			fmt.Fprintf(os.Stderr, ".%s:\n", fr.block)
		}

		if fr.i.ps != nil {
			fr.i.ps.steps++
			if fr.i.ps.steps > fr.i.w.e.Cfg.StepLimit {
				panic(pathEnd{"step-limit"})
			}
		}
		if fr.cov != nil && fr.block.Index < len(fr.cov) {
			fr.cov[fr.block.Index] = true
		}
		nonPhis := executePhis(fr)
		for _, instr := range nonPhis {
			if fr.i.mode&EnableTracing != 0 {
				if v, ok := instr.(ssa.Value); ok {
					fmt.Fprintln(os.Stderr, "\t", v.Name(), "=", instr)
				} else {
					fmt.Fprintln(os.Stderr, "\t", instr)
				}
			}
			fr.cur = instr
			if visitInstr(fr, instr) == kReturn {
				return
			}
			// Inv: kNext (continue) or kJump (last instr)
		}
	}
}

// executePhis executes the phi-nodes at the start of the current
// block and returns the non-phi instructions.
func executePhis(fr *frame) []ssa.Instruction {
	firstNonPhi := -1
	for i, instr := range fr.block.Instrs {
		if _, ok := instr.(*ssa.Phi); !ok {
			firstNonPhi = i
			break
		}
	}
	// Inv: 0 <= firstNonPhi; every block contains a non-phi.

	nonPhis := fr.block.Instrs[firstNonPhi:]
	if firstNonPhi > 0 {
		phis := fr.block.Instrs[:firstNonPhi]
		// Execute parallel assignment of phis.
		//
		// See "the swap problem" in Briggs et al's "Practical Improvements
		// to the Construction and Destruction of SSA Form" for discussion.
		predIndex := slices.Index(fr.block.Preds, fr.prevBlock)
		fr.phitemps = fr.phitemps[:0]
		for _, phi := range phis {
			phi := phi.(*ssa.Phi)
			if fr.i.mode&EnableTracing != 0 {
				fmt.Fprintln(os.Stderr, "\t", phi.Name(), "=", phi)
			}
			fr.phitemps = append(fr.phitemps, fr.get(phi.Edges[predIndex]))
		}
		for i, phi := range phis {
			fr.env[phi.(*ssa.Phi)] = fr.phitemps[i]
		}
	}
	return nonPhis
}

// doRecover implements the recover() built-in.
func doRecover(caller *frame) value {
	// recover() must be exactly one level beneath the deferred
	// function (two levels beneath the panicking function) to
	// have any effect.  Thus we ignore both "defer recover()" and
	// "defer f() -> g() -> recover()".
	if caller.i.mode&DisableRecover == 0 &&
		caller != nil && !caller.panicking &&
		caller.caller != nil && caller.caller.panicking {
		caller.caller.panicking = false
		p := caller.caller.panic
		caller.caller.panic = nil

		// TODO(adonovan): support runtime.Goexit.
		switch p := p.(type) {
		case targetPanic:
			// The target program explicitly called panic().
			return p.v
		case runtime.Error:
			// The interpreter encountered a runtime error.
			return iface{caller.i.runtimeErrorString, p.Error()}
		case string:
			// The interpreter explicitly called panic().
			return iface{caller.i.runtimeErrorString, p}
		default:
			panic(fmt.Sprintf("unexpected panic type %T in target call to recover()", p))
		}
	}
	return iface{}
}
