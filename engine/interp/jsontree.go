package interp

// Structural JSON conversion between typed Go values of the interpreted
// program and JSON trees (map[string]any, []any, string, int64, float64,
// bool, nil), following encoding/json struct tags and the k8s number
// convention (integers decode to int64). It replaces Marshal-then-Unmarshal
// round trips, so that symbolic leaves survive.

import (
	"encoding/base64"
	"encoding/json"
	"fmt"
	"go/types"
	"reflect"
	"sort"
	"strings"
	"sync"
	"time"
)

var (
	tEmptyIface = types.NewInterfaceType(nil, nil).Complete()
	tMapStrAny  = types.NewMap(types.Typ[types.String], tEmptyIface)
	tSliceAny   = types.NewSlice(tEmptyIface)
)

var muJSON sync.Mutex

func base64Std(b []byte) string { return base64.StdEncoding.EncodeToString(b) }

func base64StdDecode(s string) ([]byte, error) { return base64.StdEncoding.DecodeString(s) }

type jsonErr struct{ msg string }

func jsonFail(format string, args ...interface{}) { panic(jsonErr{fmt.Sprintf(format, args...)}) }

type jsonField struct {
	name      string
	path      []int
	omitempty bool
	typ       types.Type
	quoted    bool
}

var jsonFieldCache = map[*types.Struct][]jsonField{}

// jsonFields lists the JSON-visible fields of a struct type, flattening
// embedded structs the way encoding/json does.
func jsonFields(st *types.Struct) []jsonField {
	muJSON.Lock()
	if f, ok := jsonFieldCache[st]; ok {
		muJSON.Unlock()
		return f
	}
	muJSON.Unlock()
	var out []jsonField
	seen := map[string]bool{}
	var walk func(st *types.Struct, prefix []int, depth int)
	type pending struct {
		st     *types.Struct
		prefix []int
	}
	var embedded []pending
	walk = func(st *types.Struct, prefix []int, depth int) {
		for k := 0; k < st.NumFields(); k++ {
			f := st.Field(k)
			tag := reflect.StructTag(st.Tag(k)).Get("json")
			if tag == "-" {
				continue
			}
			name, opts, _ := strings.Cut(tag, ",")
			p := append(append([]int{}, prefix...), k)
			if f.Embedded() && name == "" {
				ft := f.Type()
				if ptr, ok := ft.Underlying().(*types.Pointer); ok {
					ft = ptr.Elem()
				}
				if est, ok := ft.Underlying().(*types.Struct); ok && !hasCustomJSON(ft) {
					embedded = append(embedded, pending{est, p})
					continue
				}
			}
			if !f.Exported() {
				continue
			}
			if name == "" {
				name = f.Name()
			}
			if seen[name] {
				continue
			}
			seen[name] = true
			out = append(out, jsonField{name: name, path: p, omitempty: strings.Contains(","+opts+",", ",omitempty,"),
				typ: f.Type(), quoted: strings.Contains(","+opts+",", ",string,")})
		}
	}
	walk(st, nil, 0)
	for len(embedded) > 0 {
		e := embedded[0]
		embedded = embedded[1:]
		walk(e.st, e.prefix, 1)
	}
	muJSON.Lock()
	jsonFieldCache[st] = out
	muJSON.Unlock()
	return out
}

func typeName(t types.Type) string {
	if n, ok := t.(*types.Named); ok {
		if n.Obj().Pkg() != nil {
			return n.Obj().Pkg().Path() + "." + n.Obj().Name()
		}
		return n.Obj().Name()
	}
	if a, ok := t.(*types.Alias); ok {
		return typeName(types.Unalias(a))
	}
	return ""
}

// customJSON names the types whose JSON form is defined by methods and is
// modelled explicitly here.
func hasCustomJSON(t types.Type) bool {
	switch typeName(t) {
	case "k8s.io/apimachinery/pkg/apis/meta/v1.Time",
		"k8s.io/apimachinery/pkg/apis/meta/v1.MicroTime",
		"k8s.io/apimachinery/pkg/apis/meta/v1.Duration",
		"k8s.io/apimachinery/pkg/apis/meta/v1.FieldsV1",
		"k8s.io/apimachinery/pkg/util/intstr.IntOrString",
		"k8s.io/apimachinery/pkg/runtime.RawExtension",
		"k8s.io/apimachinery/pkg/api/resource.Quantity",
		"k8s.io/apiextensions-apiserver/pkg/apis/apiextensions/v1.JSON",
		"k8s.io/apiextensions-apiserver/pkg/apis/apiextensions/v1.JSONSchemaPropsOrBool",
		"k8s.io/apiextensions-apiserver/pkg/apis/apiextensions/v1.JSONSchemaPropsOrArray",
		"k8s.io/apiextensions-apiserver/pkg/apis/apiextensions/v1.JSONSchemaPropsOrStringArray",
		"time.Time":
		return true
	}
	return false
}

const unixToInternal int64 = 62135596800

func timeOfValue(v value) time.Time {
	s := v.(structure)
	wall, _ := s[0].(uint64)
	ext, _ := s[1].(int64)
	if wall == 0 && ext == 0 {
		return time.Time{}
	}
	if wall&(1<<63) != 0 {
		// monotonic form: seconds since 1885 in wall bits
		sec := int64(wall << 1 >> 31)
		return time.Unix(sec-(unixToInternal-59453308800), int64(wall&(1<<30-1))).UTC()
	}
	return time.Unix(ext-unixToInternal, int64(wall&(1<<30-1))).UTC()
}

func valueOfTime(t time.Time) value {
	if t.IsZero() {
		return structure{uint64(0), int64(0), (*value)(nil)}
	}
	return structure{uint64(t.Nanosecond()), t.Unix() + unixToInternal, (*value)(nil)}
}

func field(v value, path []int) value {
	for _, k := range path {
		if p, ok := v.(*value); ok {
			if p == nil {
				return nil
			}
			v = *p
		}
		v = v.(structure)[k]
	}
	return v
}

// isEmptyJSON implements encoding/json's omitempty test.
func isEmptyJSON(v value) bool {
	switch x := v.(type) {
	case bool:
		return !x
	case string:
		return x == ""
	case []value:
		return len(x) == 0
	case *omap:
		return x.len() == 0
	case *value:
		return x == nil
	case iface:
		return x.t == nil
	case float64:
		return x == 0
	case float32:
		return x == 0
	case array:
		return len(x) == 0
	case symStr, symInt, symBool:
		return false // decided by callers that care; treated as present
	}
	if _, ok := intKind(v); ok {
		return asInt64(v) == 0
	}
	return false
}

// typedToTree converts v of static type t into a JSON tree value boxed as
// an `any` (iface).
func (i *interpreter) typedToTree(fr *frame, t types.Type, v value) iface {
	if hasCustomJSON(t) {
		return i.customToTree(fr, t, v)
	}
	switch ut := t.Underlying().(type) {
	case *types.Basic:
		switch {
		case ut.Kind() == types.String:
			return iface{types.Typ[types.String], v}
		case ut.Kind() == types.Bool:
			return iface{types.Typ[types.Bool], v}
		case ut.Info()&types.IsInteger != 0:
			if s, ok := v.(symInt); ok {
				_, signed := kindBits(s.k)
				return iface{types.Typ[types.Int64], intValue(bvResize(s.t, 64, signed), types.Int64)}
			}
			return iface{types.Typ[types.Int64], asInt64(v)}
		case ut.Info()&types.IsFloat != 0:
			var f float64
			switch x := v.(type) {
			case float64:
				f = x
			case float32:
				f = float64(x)
			}
			if f == float64(int64(f)) {
				return iface{types.Typ[types.Int64], int64(f)}
			}
			return iface{types.Typ[types.Float64], f}
		}
	case *types.Pointer:
		p := v.(*value)
		if p == nil {
			return iface{}
		}
		return i.typedToTree(fr, ut.Elem(), *p)
	case *types.Interface:
		it := v.(iface)
		if it.t == nil {
			return iface{}
		}
		return i.typedToTree(fr, it.t, it.v)
	case *types.Slice:
		sl := v.([]value)
		if eb, ok := ut.Elem().Underlying().(*types.Basic); ok && eb.Kind() == types.Byte {
			if sl == nil {
				return iface{}
			}
			return iface{types.Typ[types.String], base64Std(bytesOf(fr, sl, "[]byte to JSON"))}
		}
		if sl == nil {
			return iface{}
		}
		out := make([]value, len(sl))
		for k, e := range sl {
			out[k] = i.typedToTree(fr, ut.Elem(), e)
		}
		return iface{tSliceAny, out}
	case *types.Array:
		a := v.(array)
		out := make([]value, len(a))
		for k, e := range a {
			out[k] = i.typedToTree(fr, ut.Elem(), e)
		}
		return iface{tSliceAny, out}
	case *types.Map:
		m := v.(*omap)
		if m == nil {
			return iface{}
		}
		if kb, ok := ut.Key().Underlying().(*types.Basic); !ok || kb.Kind() != types.String {
			unsupported("JSON of map with key type %s", ut.Key())
		}
		out := makeMap(types.Typ[types.String], 0).(*omap)
		// encoding/json sorts map keys; insertion order of the result does
		// not matter to JSON consumers, but keep it deterministic.
		m.each(func(k, e value) {
			out.appendDistinct(k, i.typedToTree(fr, ut.Elem(), e))
		})
		return iface{tMapStrAny, out}
	case *types.Struct:
		s := v.(structure)
		out := makeMap(types.Typ[types.String], 0).(*omap)
		for _, f := range jsonFields(ut) {
			fv := field(s, f.path)
			if fv == nil {
				continue // nil embedded pointer
			}
			if f.omitempty && isEmptyJSON(fv) {
				continue
			}
			tv := i.typedToTree(fr, f.typ, fv)
			if f.quoted {
				unsupported("JSON ',string' option")
			}
			out.insert(fr, f.name, tv)
		}
		return iface{tMapStrAny, out}
	}
	unsupported("JSON encoding of %s", t)
	return iface{}
}

func (i *interpreter) customToTree(fr *frame, t types.Type, v value) iface {
	switch typeName(t) {
	case "k8s.io/apimachinery/pkg/apis/meta/v1.Time", "k8s.io/apimachinery/pkg/apis/meta/v1.MicroTime":
		tm := timeOfValue(v.(structure)[0])
		if tm.IsZero() {
			return iface{}
		}
		if strings.HasSuffix(typeName(t), "MicroTime") {
			return iface{types.Typ[types.String], tm.UTC().Format("2006-01-02T15:04:05.000000Z07:00")}
		}
		return iface{types.Typ[types.String], tm.UTC().Format(time.RFC3339)}
	case "time.Time":
		return iface{types.Typ[types.String], timeOfValue(v).Format(time.RFC3339Nano)}
	case "k8s.io/apimachinery/pkg/apis/meta/v1.Duration":
		d := v.(structure)[0].(int64)
		return iface{types.Typ[types.String], time.Duration(d).String()}
	case "k8s.io/apimachinery/pkg/util/intstr.IntOrString":
		s := v.(structure)
		if asInt64(s[0]) == 0 {
			return iface{types.Typ[types.Int64], asInt64(s[1])}
		}
		return iface{types.Typ[types.String], s[2]}
	case "k8s.io/apimachinery/pkg/runtime.RawExtension":
		s := v.(structure)
		raw := s[0].([]value)
		if raw == nil {
			if obj := s[1].(iface); obj.t != nil {
				return i.typedToTree(fr, obj.t, obj.v)
			}
			return iface{}
		}
		return i.jsonBytesToTree(fr, bytesOf(fr, raw, "RawExtension.Raw"))
	case "k8s.io/apiextensions-apiserver/pkg/apis/apiextensions/v1.JSON",
		"k8s.io/apimachinery/pkg/apis/meta/v1.FieldsV1":
		raw := v.(structure)[0].([]value)
		if len(raw) == 0 {
			return iface{}
		}
		return i.jsonBytesToTree(fr, bytesOf(fr, raw, "raw JSON"))
	case "k8s.io/apiextensions-apiserver/pkg/apis/apiextensions/v1.JSONSchemaPropsOrBool":
		s := v.(structure) // {Allows bool, Schema *JSONSchemaProps}
		if p := s[1].(*value); p != nil {
			return i.typedToTree(fr, t.Underlying().(*types.Struct).Field(1).Type(), p)
		}
		return iface{types.Typ[types.Bool], s[0]}
	case "k8s.io/apiextensions-apiserver/pkg/apis/apiextensions/v1.JSONSchemaPropsOrArray":
		s := v.(structure) // {Schema *JSONSchemaProps, JSONSchemas []JSONSchemaProps}
		st := t.Underlying().(*types.Struct)
		if p := s[0].(*value); p != nil {
			return i.typedToTree(fr, st.Field(0).Type(), p)
		}
		if len(s[1].([]value)) > 0 {
			return i.typedToTree(fr, st.Field(1).Type(), s[1])
		}
		return iface{}
	case "k8s.io/apiextensions-apiserver/pkg/apis/apiextensions/v1.JSONSchemaPropsOrStringArray":
		s := v.(structure) // {Schema *JSONSchemaProps, Property []string}
		st := t.Underlying().(*types.Struct)
		if p := s[0].(*value); p != nil {
			return i.typedToTree(fr, st.Field(0).Type(), p)
		}
		if len(s[1].([]value)) > 0 {
			return i.typedToTree(fr, st.Field(1).Type(), s[1])
		}
		return iface{}
	}
	unsupported("JSON encoding of %s", t)
	return iface{}
}

// jsonBytesToTree decodes concrete JSON text into an interpreter tree with
// the k8s number convention.
func (i *interpreter) jsonBytesToTree(fr *frame, b []byte) iface {
	var x interface{}
	dec := json.NewDecoder(strings.NewReader(string(b)))
	dec.UseNumber()
	if err := dec.Decode(&x); err != nil {
		jsonFail("invalid JSON: %v", err)
	}
	return i.nativeToTree(fr, x)
}

func (i *interpreter) nativeToTree(fr *frame, x interface{}) iface {
	switch x := x.(type) {
	case nil:
		return iface{}
	case string:
		return iface{types.Typ[types.String], x}
	case bool:
		return iface{types.Typ[types.Bool], x}
	case json.Number:
		if n, err := x.Int64(); err == nil {
			return iface{types.Typ[types.Int64], n}
		}
		f, _ := x.Float64()
		return iface{types.Typ[types.Float64], f}
	case float64:
		if x == float64(int64(x)) {
			return iface{types.Typ[types.Int64], int64(x)}
		}
		return iface{types.Typ[types.Float64], x}
	case int64:
		return iface{types.Typ[types.Int64], x}
	case int:
		return iface{types.Typ[types.Int64], int64(x)}
	case []interface{}:
		out := make([]value, len(x))
		for k, e := range x {
			out[k] = i.nativeToTree(fr, e)
		}
		return iface{tSliceAny, out}
	case map[string]interface{}:
		m := makeMap(types.Typ[types.String], 0).(*omap)
		keys := make([]string, 0, len(x))
		for k := range x {
			keys = append(keys, k)
		}
		sort.Strings(keys)
		for _, k := range keys {
			m.insert(fr, k, i.nativeToTree(fr, x[k]))
		}
		return iface{tMapStrAny, m}
	}
	unsupported("nativeToTree of %T", x)
	return iface{}
}

// treeToNative converts a fully concrete tree into native Go data.
func (i *interpreter) treeToNative(v value) interface{} {
	switch x := v.(type) {
	case iface:
		if x.t == nil {
			return nil
		}
		return i.treeToNative(x.v)
	case string, bool, float64, int64:
		return x
	case []value:
		if x == nil {
			return []interface{}(nil)
		}
		out := make([]interface{}, len(x))
		for k, e := range x {
			out[k] = i.treeToNative(e)
		}
		return out
	case *omap:
		if x == nil {
			return map[string]interface{}(nil)
		}
		out := map[string]interface{}{}
		x.each(func(k, e value) {
			ks, ok := k.(string)
			if !ok {
				unsupported("native JSON of map with symbolic key")
			}
			out[ks] = i.treeToNative(e)
		})
		return out
	case symStr, symInt, symBool:
		unsupported("native JSON of symbolic value %s", toString(x))
	}
	if _, ok := intKind(v); ok {
		return asInt64(v)
	}
	if f, ok := v.(float32); ok {
		return float64(f)
	}
	unsupported("treeToNative of %T", v)
	return nil
}

// treeToTyped decodes tree into a new value of type t (json.Unmarshal
// semantics onto a zero value; `into` supplies the existing value for
// struct/map merging semantics and may be nil).
func (i *interpreter) treeToTyped(fr *frame, tree iface, t types.Type, into value) value {
	if into == nil {
		into = zero(t)
	}
	if hasCustomJSON(t) {
		return i.customFromTree(fr, tree, t, into)
	}
	if tree.t == nil {
		// JSON null: pointers, maps, slices, interfaces become nil; others unchanged
		switch t.Underlying().(type) {
		case *types.Pointer, *types.Map, *types.Slice, *types.Interface:
			return zero(t)
		}
		return into
	}
	tv := tree.v
	switch ut := t.Underlying().(type) {
	case *types.Basic:
		switch {
		case ut.Kind() == types.String:
			switch s := tv.(type) {
			case string, symStr:
				return s
			}
			jsonFail("cannot unmarshal %s into Go value of type %s", jsonKind(tv), t)
		case ut.Kind() == types.Bool:
			switch b := tv.(type) {
			case bool, symBool:
				return b
			}
			jsonFail("cannot unmarshal %s into Go value of type %s", jsonKind(tv), t)
		case ut.Info()&types.IsInteger != 0:
			switch n := tv.(type) {
			case symInt:
				bits, _ := kindBits(ut.Kind())
				_, signed := kindBits(n.k)
				return intValue(bvResize(n.t, bits, signed), ut.Kind())
			case float64:
				if n != float64(int64(n)) {
					jsonFail("cannot unmarshal number %v into Go value of type %s", n, t)
				}
				return conv(t, types.Typ[types.Int64], int64(n))
			}
			if _, ok := intKind(tv); ok {
				return conv(t, types.Typ[types.Int64], asInt64(tv))
			}
			jsonFail("cannot unmarshal %s into Go value of type %s", jsonKind(tv), t)
		case ut.Info()&types.IsFloat != 0:
			switch n := tv.(type) {
			case float64:
				return conv(t, types.Typ[types.Float64], n)
			}
			if _, ok := intKind(tv); ok && !isSym(tv) {
				return conv(t, types.Typ[types.Float64], float64(asInt64(tv)))
			}
			jsonFail("cannot unmarshal %s into Go value of type %s", jsonKind(tv), t)
		}
	case *types.Pointer:
		var cell value
		if p, ok := into.(*value); ok && p != nil {
			cell = i.treeToTyped(fr, tree, ut.Elem(), *p)
		} else {
			cell = i.treeToTyped(fr, tree, ut.Elem(), nil)
		}
		return &cell
	case *types.Interface:
		if ut.NumMethods() != 0 {
			jsonFail("cannot unmarshal into non-empty interface %s", t)
		}
		return i.copyTree(tree)
	case *types.Slice:
		if eb, ok := ut.Elem().Underlying().(*types.Basic); ok && eb.Kind() == types.Byte {
			s, ok := tv.(string)
			if !ok {
				if _, sym := tv.(symStr); sym {
					unsupported("base64 decoding of a symbolic string")
				}
				jsonFail("cannot unmarshal %s into Go value of type []byte", jsonKind(tv))
			}
			b, err := base64StdDecode(s)
			if err != nil {
				jsonFail("illegal base64 data")
			}
			return bytesValue(b)
		}
		sl, ok := tv.([]value)
		if !ok {
			jsonFail("cannot unmarshal %s into Go value of type %s", jsonKind(tv), t)
		}
		out := make([]value, len(sl))
		for k, e := range sl {
			out[k] = i.treeToTyped(fr, e.(iface), ut.Elem(), nil)
		}
		return out
	case *types.Array:
		sl, ok := tv.([]value)
		if !ok {
			jsonFail("cannot unmarshal %s into Go value of type %s", jsonKind(tv), t)
		}
		out := into.(array)
		for k := range out {
			if k < len(sl) {
				out[k] = i.treeToTyped(fr, sl[k].(iface), ut.Elem(), nil)
			}
		}
		return out
	case *types.Map:
		m, ok := tv.(*omap)
		if !ok {
			jsonFail("cannot unmarshal %s into Go value of type %s", jsonKind(tv), t)
		}
		out, _ := into.(*omap)
		if out == nil {
			out = makeMap(ut.Key(), 0).(*omap)
		}
		m.each(func(k, e value) {
			out.insert(fr, k, i.treeToTyped(fr, e.(iface), ut.Elem(), nil))
		})
		return out
	case *types.Struct:
		m, ok := tv.(*omap)
		if !ok {
			jsonFail("cannot unmarshal %s into Go value of type %s", jsonKind(tv), t)
		}
		out := into.(structure)
		fields := jsonFields(ut)
		for _, f := range fields {
			e, ok := m.lookup(fr, f.name)
			if !ok && m.nsym == 0 {
				// encoding/json matches field names case-insensitively
				m.each(func(k, v value) {
					if ks, isStr := k.(string); isStr && !ok && strings.EqualFold(ks, f.name) {
						e, ok = v, true
					}
				})
			}
			if !ok {
				continue
			}
			i.setField(fr, ut, out, f, e.(iface))
		}
		return out
	}
	unsupported("JSON decoding into %s", t)
	return nil
}

// setField decodes e into the (possibly embedded) field f of struct value s.
func (i *interpreter) setField(fr *frame, st *types.Struct, s structure, f jsonField, e iface) {
	cur := s
	curT := st
	for d, k := range f.path {
		ft := curT.Field(k).Type()
		if d == len(f.path)-1 {
			cur[k] = i.treeToTyped(fr, e, ft, cur[k])
			return
		}
		// descend into an embedded struct, allocating embedded pointers
		if ptr, ok := ft.Underlying().(*types.Pointer); ok {
			p := cur[k].(*value)
			if p == nil {
				cell := zero(ptr.Elem())
				p = &cell
				cur[k] = p
			}
			cur = (*p).(structure)
			curT = ptr.Elem().Underlying().(*types.Struct)
		} else {
			cur = cur[k].(structure)
			curT = ft.Underlying().(*types.Struct)
		}
	}
}

func (i *interpreter) customFromTree(fr *frame, tree iface, t types.Type, into value) value {
	switch typeName(t) {
	case "k8s.io/apimachinery/pkg/apis/meta/v1.Time", "k8s.io/apimachinery/pkg/apis/meta/v1.MicroTime":
		if tree.t == nil {
			return structure{valueOfTime(time.Time{})}
		}
		s, ok := tree.v.(string)
		if !ok {
			jsonFail("cannot unmarshal %s into metav1.Time", jsonKind(tree.v))
		}
		tm, err := time.Parse(time.RFC3339, s)
		if err != nil {
			jsonFail("parsing time %q", s)
		}
		return structure{valueOfTime(tm)}
	case "k8s.io/apimachinery/pkg/util/intstr.IntOrString":
		switch x := tree.v.(type) {
		case string, symStr:
			return structure{int64(1), int32(0), x}
		}
		if _, ok := intKind(tree.v); ok {
			return structure{int64(0), int32(asInt64(tree.v)), ""}
		}
	case "k8s.io/apimachinery/pkg/runtime.RawExtension":
		if tree.t == nil {
			return into
		}
		b, err := json.Marshal(i.treeToNative(tree))
		if err != nil {
			jsonFail("%v", err)
		}
		s := into.(structure)
		s[0] = bytesValue(b)
		return s
	case "k8s.io/apiextensions-apiserver/pkg/apis/apiextensions/v1.JSON",
		"k8s.io/apimachinery/pkg/apis/meta/v1.FieldsV1":
		b, err := json.Marshal(i.treeToNative(tree))
		if err != nil {
			jsonFail("%v", err)
		}
		s := into.(structure)
		s[0] = bytesValue(b)
		return s
	case "k8s.io/apiextensions-apiserver/pkg/apis/apiextensions/v1.JSONSchemaPropsOrBool":
		st := t.Underlying().(*types.Struct)
		s := into.(structure)
		if b, ok := tree.v.(bool); ok {
			s[0], s[1] = b, (*value)(nil)
			return s
		}
		s[0] = true
		s[1] = i.treeToTyped(fr, tree, st.Field(1).Type(), nil)
		return s
	case "k8s.io/apiextensions-apiserver/pkg/apis/apiextensions/v1.JSONSchemaPropsOrArray":
		st := t.Underlying().(*types.Struct)
		s := into.(structure)
		if _, ok := tree.v.([]value); ok {
			s[1] = i.treeToTyped(fr, tree, st.Field(1).Type(), nil)
			return s
		}
		s[0] = i.treeToTyped(fr, tree, st.Field(0).Type(), nil)
		return s
	case "k8s.io/apiextensions-apiserver/pkg/apis/apiextensions/v1.JSONSchemaPropsOrStringArray":
		st := t.Underlying().(*types.Struct)
		s := into.(structure)
		if _, ok := tree.v.([]value); ok {
			s[1] = i.treeToTyped(fr, tree, st.Field(1).Type(), nil)
			return s
		}
		s[0] = i.treeToTyped(fr, tree, st.Field(0).Type(), nil)
		return s
	case "k8s.io/apimachinery/pkg/apis/meta/v1.Duration":
		s, ok := tree.v.(string)
		if !ok {
			jsonFail("cannot unmarshal %s into metav1.Duration", jsonKind(tree.v))
		}
		d, err := time.ParseDuration(s)
		if err != nil {
			jsonFail("%v", err)
		}
		return structure{int64(d)}
	}
	unsupported("JSON decoding into %s", t)
	return nil
}

func jsonKind(v value) string {
	switch v.(type) {
	case string, symStr:
		return "string"
	case bool, symBool:
		return "bool"
	case []value:
		return "array"
	case *omap:
		return "object"
	}
	return "number"
}

// copyTree deep-copies a JSON tree (runtime.DeepCopyJSONValue).
func (i *interpreter) copyTree(v iface) iface {
	if v.t == nil {
		return v
	}
	switch x := v.v.(type) {
	case *omap:
		if x == nil {
			return v
		}
		out := makeMap(x.keyType, 0).(*omap)
		x.each(func(k, e value) {
			if ei, ok := e.(iface); ok {
				e = i.copyTree(ei)
			}
			out.appendDistinct(k, e)
		})
		return iface{v.t, out}
	case []value:
		if x == nil {
			return v
		}
		out := make([]value, len(x))
		for k, e := range x {
			if ei, ok := e.(iface); ok {
				e = i.copyTree(ei)
			}
			out[k] = e
		}
		return iface{v.t, out}
	}
	return v
}

// normalizeTree applies the k8s JSON round trip to a tree: typed maps and
// slices become map[string]any / []any, integers become int64.
func (i *interpreter) normalizeTree(fr *frame, v iface) iface {
	if v.t == nil {
		return v
	}
	return i.typedToTree(fr, v.t, v.v)
}
