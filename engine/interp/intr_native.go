package interp

// Native intrinsics: library functions with simple signatures that are run
// by the engine process itself when all their arguments are concrete.

import (
	"encoding/base64"
	"encoding/hex"
	"fmt"
	"go/types"
	"hash/crc32"
	"math"
	"path"
	"reflect"
	"strconv"
	"strings"
	"unicode"
	"unicode/utf8"
)

var nativeFuncs = map[string]interface{}{
	"internal/bytealg.IndexByteString":    strings.IndexByte,
	"internal/bytealg.IndexString":        strings.Index,
	"internal/bytealg.CountString":        func(s string, c byte) int { return strings.Count(s, string(c)) },
	"internal/stringslite.Index":          strings.Index,
	"internal/stringslite.IndexByte":      strings.IndexByte,
	"internal/stringslite.HasPrefix":      strings.HasPrefix,
	"internal/stringslite.HasSuffix":      strings.HasSuffix,
	"internal/stringslite.Cut":            strings.Cut,
	"hash/crc32.ChecksumIEEE":             crc32.ChecksumIEEE,
	"strings.Contains":                    strings.Contains,
	"strings.ContainsAny":                 strings.ContainsAny,
	"strings.ContainsRune":                strings.ContainsRune,
	"strings.Count":                       strings.Count,
	"strings.EqualFold":                   strings.EqualFold,
	"strings.Fields":                      strings.Fields,
	"strings.HasPrefix":                   strings.HasPrefix,
	"strings.HasSuffix":                   strings.HasSuffix,
	"strings.Index":                       strings.Index,
	"strings.IndexAny":                    strings.IndexAny,
	"strings.IndexByte":                   strings.IndexByte,
	"strings.IndexRune":                   strings.IndexRune,
	"strings.Join":                        strings.Join,
	"strings.LastIndex":                   strings.LastIndex,
	"strings.LastIndexByte":               strings.LastIndexByte,
	"strings.Repeat":                      strings.Repeat,
	"strings.Replace":                     strings.Replace,
	"strings.ReplaceAll":                  strings.ReplaceAll,
	"strings.Split":                       strings.Split,
	"strings.SplitN":                      strings.SplitN,
	"strings.SplitAfter":                  strings.SplitAfter,
	"strings.SplitAfterN":                 strings.SplitAfterN,
	"strings.Title":                       strings.Title,
	"strings.ToLower":                     strings.ToLower,
	"strings.ToUpper":                     strings.ToUpper,
	"strings.ToTitle":                     strings.ToTitle,
	"strings.Trim":                        strings.Trim,
	"strings.TrimLeft":                    strings.TrimLeft,
	"strings.TrimPrefix":                  strings.TrimPrefix,
	"strings.TrimRight":                   strings.TrimRight,
	"strings.TrimSpace":                   strings.TrimSpace,
	"strings.TrimSuffix":                  strings.TrimSuffix,
	"strings.Cut":                         strings.Cut,
	"strings.CutPrefix":                   strings.CutPrefix,
	"strings.CutSuffix":                   strings.CutSuffix,
	"strings.Compare":                     strings.Compare,
	"strconv.Itoa":                        strconv.Itoa,
	"strconv.FormatInt":                   strconv.FormatInt,
	"strconv.FormatUint":                  strconv.FormatUint,
	"strconv.FormatBool":                  strconv.FormatBool,
	"strconv.FormatFloat":                 strconv.FormatFloat,
	"strconv.Quote":                       strconv.Quote,
	"strconv.AppendInt":                   strconv.AppendInt,
	"strconv.AppendQuote":                 strconv.AppendQuote,
	"unicode.IsUpper":                     unicode.IsUpper,
	"unicode.IsLower":                     unicode.IsLower,
	"unicode.IsLetter":                    unicode.IsLetter,
	"unicode.IsDigit":                     unicode.IsDigit,
	"unicode.IsSpace":                     unicode.IsSpace,
	"unicode.ToLower":                     unicode.ToLower,
	"unicode.ToUpper":                     unicode.ToUpper,
	"unicode.IsPrint":                     unicode.IsPrint,
	"unicode/utf8.RuneLen":                utf8.RuneLen,
	"unicode/utf8.RuneCountInString":      utf8.RuneCountInString,
	"unicode/utf8.DecodeLastRuneInString": utf8.DecodeLastRuneInString,
	"unicode/utf8.AppendRune":             utf8.AppendRune,
	"unicode/utf8.EncodeRune":             nil,
	"math.Floor":                          math.Floor,
	"math.Ceil":                           math.Ceil,
	"math.Trunc":                          math.Trunc,
	"math.Round":                          math.Round,
	"math.Pow":                            math.Pow,
	"math.Mod":                            math.Mod,
	"math.Max":                            math.Max,
	"math.IsInf":                          math.IsInf,
	"math.Signbit":                        math.Signbit,
	"math.Log2":                           math.Log2,
	"math.Log10":                          math.Log10,
	"math.Modf":                           math.Modf,
	"math.Frexp":                          math.Frexp,
	"path.Base":                           path.Base,
	"path.Join":                           path.Join,
	"path.Dir":                            path.Dir,
	"path.Clean":                          path.Clean,
	"encoding/hex.EncodeToString":         hex.EncodeToString,
}

func init() {
	for name, f := range nativeFuncs {
		if f == nil {
			continue
		}
		externals[name] = makeNative(name, f)
	}
	// functions returning errors are wrapped by hand
	externals["strconv.Atoi"] = func(fr *frame, args []value) value {
		s := concreteString(fr, args[0], "strconv.Atoi argument")
		i, e := strconv.Atoi(s)
		return tuple{i, fr.i.nativeError(e)}
	}
	externals["strconv.ParseInt"] = func(fr *frame, args []value) value {
		s := concreteString(fr, args[0], "strconv.ParseInt argument")
		i, e := strconv.ParseInt(s, args[1].(int), args[2].(int))
		return tuple{i, fr.i.nativeError(e)}
	}
	externals["strconv.ParseUint"] = func(fr *frame, args []value) value {
		s := concreteString(fr, args[0], "strconv.ParseUint argument")
		i, e := strconv.ParseUint(s, args[1].(int), args[2].(int))
		return tuple{i, fr.i.nativeError(e)}
	}
	externals["strconv.ParseBool"] = func(fr *frame, args []value) value {
		s := concreteString(fr, args[0], "strconv.ParseBool argument")
		b, e := strconv.ParseBool(s)
		return tuple{b, fr.i.nativeError(e)}
	}
	externals["strconv.ParseFloat"] = func(fr *frame, args []value) value {
		s := concreteString(fr, args[0], "strconv.ParseFloat argument")
		f, e := strconv.ParseFloat(s, args[1].(int))
		return tuple{f, fr.i.nativeError(e)}
	}
	externals["strconv.Unquote"] = func(fr *frame, args []value) value {
		s := concreteString(fr, args[0], "strconv.Unquote argument")
		r, e := strconv.Unquote(s)
		return tuple{r, fr.i.nativeError(e)}
	}
	externals["(*encoding/base64.Encoding).EncodeToString"] = func(fr *frame, args []value) value {
		b := bytesOf(fr, args[1], "base64 input")
		return nativeBase64(args[0]).EncodeToString(b)
	}
	externals["(*encoding/base64.Encoding).DecodeString"] = func(fr *frame, args []value) value {
		s := concreteString(fr, args[1], "base64 input")
		b, e := nativeBase64(args[0]).DecodeString(s)
		return tuple{bytesValue(b), fr.i.nativeError(e)}
	}
}

// nativeBase64 rebuilds the native equivalent of an interpreted
// *base64.Encoding from its alphabet, padding character and strictness
// (fields encode, decodeMap, padChar, strict).
func nativeBase64(recv value) *base64.Encoding {
	p, _ := recv.(*value)
	if p == nil {
		unsupported("base64: nil encoding")
	}
	st, ok := (*p).(structure)
	if !ok || len(st) < 4 {
		unsupported("base64: unexpected encoding layout")
	}
	arr, ok := st[0].(array)
	if !ok || len(arr) != 64 {
		unsupported("base64: unexpected alphabet layout")
	}
	alpha := make([]byte, 64)
	for i, v := range arr {
		b, ok := v.(uint8)
		if !ok {
			unsupported("base64: symbolic alphabet")
		}
		alpha[i] = b
	}
	enc := base64.NewEncoding(string(alpha))
	pad, _ := st[2].(int32)
	enc = enc.WithPadding(rune(pad))
	if strict, _ := st[3].(bool); strict {
		enc = enc.Strict()
	}
	return enc
}

// nativeError converts a Go error produced by the engine into an interpreted
// error value (an opaque string-backed error).
func (i *interpreter) nativeError(e error) value {
	if e == nil {
		return iface{}
	}
	return iface{errorType, e.Error()}
}

func bytesOf(fr *frame, v value, what string) []byte {
	sl, ok := v.([]value)
	if !ok {
		unsupported("%s: expected []byte, got %T", what, v)
	}
	b := make([]byte, len(sl))
	for i, e := range sl {
		c, ok := e.(byte)
		if !ok {
			unsupported("%s: symbolic byte", what)
		}
		b[i] = c
	}
	return b
}

func bytesValue(b []byte) value {
	if b == nil {
		return []value(nil)
	}
	out := make([]value, len(b))
	for i, c := range b {
		out[i] = c
	}
	return out
}

// toNative converts an interpreter value to a reflect.Value of type t.
func toNative(v value, t reflect.Type) (reflect.Value, bool) {
	switch t.Kind() {
	case reflect.String:
		s, ok := v.(string)
		if !ok {
			return reflect.Value{}, false
		}
		return reflect.ValueOf(s).Convert(t), true
	case reflect.Bool:
		b, ok := v.(bool)
		if !ok {
			return reflect.Value{}, false
		}
		return reflect.ValueOf(b), true
	case reflect.Int, reflect.Int8, reflect.Int16, reflect.Int32, reflect.Int64,
		reflect.Uint, reflect.Uint8, reflect.Uint16, reflect.Uint32, reflect.Uint64, reflect.Uintptr:
		if _, ok := intKind(v); !ok || isSym(v) {
			return reflect.Value{}, false
		}
		return reflect.ValueOf(v).Convert(t), true
	case reflect.Float32, reflect.Float64:
		switch f := v.(type) {
		case float64:
			return reflect.ValueOf(f).Convert(t), true
		case float32:
			return reflect.ValueOf(f).Convert(t), true
		}
		return reflect.Value{}, false
	case reflect.Slice:
		sl, ok := v.([]value)
		if !ok {
			return reflect.Value{}, false
		}
		out := reflect.MakeSlice(t, len(sl), len(sl))
		if sl == nil {
			out = reflect.Zero(t)
		}
		for i, e := range sl {
			ev, ok := toNative(e, t.Elem())
			if !ok {
				return reflect.Value{}, false
			}
			out.Index(i).Set(ev)
		}
		return out, true
	}
	return reflect.Value{}, false
}

// fromNative converts a reflect.Value back to an interpreter value.
func fromNative(rv reflect.Value) value {
	switch rv.Kind() {
	case reflect.String:
		return rv.String()
	case reflect.Bool:
		return rv.Bool()
	case reflect.Int:
		return int(rv.Int())
	case reflect.Int8:
		return int8(rv.Int())
	case reflect.Int16:
		return int16(rv.Int())
	case reflect.Int32:
		return int32(rv.Int())
	case reflect.Int64:
		return rv.Int()
	case reflect.Uint:
		return uint(rv.Uint())
	case reflect.Uint8:
		return uint8(rv.Uint())
	case reflect.Uint16:
		return uint16(rv.Uint())
	case reflect.Uint32:
		return uint32(rv.Uint())
	case reflect.Uint64:
		return rv.Uint()
	case reflect.Float64:
		return rv.Float()
	case reflect.Float32:
		return float32(rv.Float())
	case reflect.Slice:
		if rv.IsNil() {
			return []value(nil)
		}
		out := make([]value, rv.Len())
		for i := range out {
			out[i] = fromNative(rv.Index(i))
		}
		return out
	}
	panic(fmt.Sprintf("fromNative: unsupported kind %s", rv.Kind()))
}

// sliceHasSym reports whether a is a slice with a symbolic element.
func sliceHasSym(fr *frame, a value) bool {
	sl, ok := a.([]value)
	if !ok {
		return false
	}
	for _, e := range sl {
		if fr.i.ps != nil {
			e = fr.i.ps.resolveValue(e)
		}
		if isSym(e) {
			return true
		}
	}
	return false
}

func makeNative(name string, f interface{}) externalFn {
	fv := reflect.ValueOf(f)
	ft := fv.Type()
	return func(fr *frame, args []value) value {
		in := make([]reflect.Value, len(args))
		for i, a := range args {
			if fr.i.ps != nil {
				a = fr.i.ps.resolveValue(a)
			}
			if isSym(a) || sliceHasSym(fr, a) {
				if r, ok := symbolicStringFunc(fr, name, args); ok {
					return r
				}
			}
			var pt reflect.Type
			if ft.IsVariadic() && i >= ft.NumIn()-1 {
				pt = ft.In(ft.NumIn() - 1)
			} else {
				pt = ft.In(i)
			}
			rv, ok := toNative(a, pt)
			if !ok {
				unsupported("%s: argument %d (%T) is not a concrete %s", name, i, a, pt)
			}
			in[i] = rv
		}
		var out []reflect.Value
		if ft.IsVariadic() {
			out = fv.CallSlice(in)
		} else {
			out = fv.Call(in)
		}
		switch len(out) {
		case 0:
			return nil
		case 1:
			return fromNative(out[0])
		}
		t := make(tuple, len(out))
		for i, o := range out {
			t[i] = fromNative(o)
		}
		return t
	}
}

// symbolicStringFunc models a few string functions on symbolic operands.
func symbolicStringFunc(fr *frame, name string, args []value) (value, bool) {
	str := func(i int) (*Term, bool) {
		switch a := args[i].(type) {
		case string:
			return mkStr(a), true
		case symStr:
			return fr.i.ps.resolve(a.t), true
		}
		return nil, false
	}
	switch name {
	case "strings.HasPrefix", "strings.HasSuffix", "strings.Contains":
		a, ok1 := str(0)
		b, ok2 := str(1)
		if !ok1 || !ok2 {
			return nil, false
		}
		switch name {
		case "strings.HasPrefix":
			return boolValue(mkStrPred("str.prefixof", b, a)), true
		case "strings.HasSuffix":
			return boolValue(mkStrPred("str.suffixof", b, a)), true
		default:
			return boolValue(mkStrPred("str.contains", a, b)), true
		}
	case "strings.Join":
		sl, ok := args[0].([]value)
		sep, ok2 := str(1)
		if !ok || !ok2 {
			return nil, false
		}
		var parts []*Term
		for i, e := range sl {
			if i > 0 {
				parts = append(parts, sep)
			}
			switch e := e.(type) {
			case string:
				parts = append(parts, mkStr(e))
			case symStr:
				parts = append(parts, e.t)
			default:
				return nil, false
			}
		}
		return strValue(mkConcat(parts...)), true
	case "strings.TrimPrefix", "strings.TrimSuffix":
		a, ok1 := str(0)
		b, ok2 := str(1)
		if !ok1 || !ok2 || !b.isConst() {
			return nil, false
		}
		parts := strParts(a)
		if name == "strings.TrimPrefix" {
			if len(parts) > 0 && parts[0].isConst() && len(parts[0].S) >= len(b.S) {
				if strings.HasPrefix(parts[0].S, b.S) {
					return strValue(mkConcat(append([]*Term{mkStr(parts[0].S[len(b.S):])}, parts[1:]...)...)), true
				}
				return strValue(a), true
			}
			// decide on the prefix test
			if fr.i.ps.decideBool(mkStrPred("str.prefixof", b, a), "trimprefix") {
				rest := mkVar(fr.i.ps.freshName("trim"), sortStr)
				fr.i.ps.assertPC(mkEq(a, mkConcat(b, rest)))
				return strValue(rest), true
			}
			return strValue(a), true
		}
		if len(parts) > 0 && parts[len(parts)-1].isConst() && len(parts[len(parts)-1].S) >= len(b.S) {
			l := parts[len(parts)-1].S
			if strings.HasSuffix(l, b.S) {
				return strValue(mkConcat(append(append([]*Term{}, parts[:len(parts)-1]...), mkStr(l[:len(l)-len(b.S)]))...)), true
			}
			return strValue(a), true
		}
		if fr.i.ps.decideBool(mkStrPred("str.suffixof", b, a), "trimsuffix") {
			rest := mkVar(fr.i.ps.freshName("trim"), sortStr)
			fr.i.ps.assertPC(mkEq(a, mkConcat(rest, b)))
			return strValue(rest), true
		}
		return strValue(a), true
	case "strings.Split":
		a, ok1 := str(0)
		b, ok2 := str(1)
		if !ok1 || !ok2 || !b.isConst() || len(b.S) != 1 {
			return nil, false
		}
		sep := b.S[0]
		var out []value
		var cur []*Term
		for _, p := range strParts(a) {
			if p.isConst() {
				rest := p.S
				for {
					idx := indexByte(rest, sep)
					if idx < 0 {
						break
					}
					cur = append(cur, mkStr(rest[:idx]))
					out = append(out, strValue(mkConcat(cur...)))
					cur = nil
					rest = rest[idx+1:]
				}
				cur = append(cur, mkStr(rest))
				continue
			}
			if !fr.i.ps.partExcludes(p, sep) {
				unsupported("strings.Split of symbolic string %s whose parts may contain %q", a, b.S)
			}
			cur = append(cur, p)
		}
		out = append(out, strValue(mkConcat(cur...)))
		return out, true
	case "strings.LastIndex", "strings.Index":
		// haystack symbolic, needle one constant byte: decide whether it occurs;
		// if so split the haystack at its last (first) occurrence with fresh
		// parts - definitional constraints on the path - and answer the length
		// of the part before it
		a, ok1 := str(0)
		b, ok2 := str(1)
		if !ok1 || !ok2 || !b.isConst() || len(b.S) != 1 {
			return nil, false
		}
		if a.isConst() {
			if name == "strings.Index" {
				return strings.Index(a.S, b.S), true
			}
			return strings.LastIndex(a.S, b.S), true
		}
		if !fr.i.ps.decideBool(mkStrPred("str.contains", a, b), "index-contains") {
			return -1, true
		}
		pre := mkVar(fr.i.ps.freshName("idxpre"), sortStr)
		post := mkVar(fr.i.ps.freshName("idxpost"), sortStr)
		fr.i.ps.assertPC(mkEq(a, mkConcat(pre, b, post)))
		if name == "strings.Index" {
			fr.i.ps.assertPC(mkNot(mkStrPred("str.contains", pre, b)))
		} else {
			fr.i.ps.assertPC(mkNot(mkStrPred("str.contains", post, b)))
		}
		return intValue(mkInt2BV(64, mkStrLen(pre)), types.Int), true
	case "strings.Cut":
		a, ok1 := str(0)
		b, ok2 := str(1)
		if !ok1 || !ok2 || !b.isConst() || len(b.S) != 1 {
			return nil, false
		}
		sep := b.S[0]
		var before []*Term
		parts := strParts(a)
		for k, p := range parts {
			if p.isConst() {
				if idx := indexByte(p.S, sep); idx >= 0 {
					before = append(before, mkStr(p.S[:idx]))
					after := append([]*Term{mkStr(p.S[idx+1:])}, parts[k+1:]...)
					return tuple{strValue(mkConcat(before...)), strValue(mkConcat(after...)), true}, true
				}
				before = append(before, p)
				continue
			}
			if !fr.i.ps.partExcludes(p, sep) {
				unsupported("strings.Cut of symbolic string %s whose parts may contain %q", a, b.S)
			}
			before = append(before, p)
		}
		return tuple{strValue(a), "", false}, true
	case "strconv.FormatInt", "strconv.Itoa", "strconv.FormatUint", "strconv.FormatBool":
		// decimal rendering of a symbolic number: an opaque string. Nothing
		// is known about it, so anything that branches on it is explored both
		// ways; native path validation catches a use that matters.
		if len(args) > 1 {
			if base, isInt := args[1].(int); !isInt || base != 10 {
				return symStr{mkVar(fr.i.ps.freshName("itoa"), sortStr)}, true
			}
		}
		if si, ok := fr.i.ps.resolveValue(args[0]).(symInt); ok {
			if _, signed := kindBits(si.k); !signed {
				return symStr{fr.i.ps.opaque("utoa", si.t)}, true
			}
			return symStr{fr.i.ps.opaque("itoa", si.t)}, true
		}
		if sb, ok := fr.i.ps.resolveValue(args[0]).(symBool); ok {
			return symStr{opaqueStringOf("btoa", sb.t)}, true
		}
		return symStr{mkVar(fr.i.ps.freshName("itoa"), sortStr)}, true
	case "strings.ToLower", "strings.ToUpper", "strings.TrimSpace":
		return nil, false
	}
	return nil, false
}

// freshName returns a deterministic fresh auxiliary variable name.
func (ps *pathState) freshName(prefix string) string {
	ps.fresh++
	return fmt.Sprintf("$%s%d", prefix, ps.fresh)
}

var _ = types.Typ

// opaqueStringOf returns the uninterpreted textual rendering of a symbolic
// value: a string variable named after the term, so that equal terms render
// equally (the rendering is a function of the value).
func opaqueStringOf(kind string, t *Term) *Term {
	return mkVar("$"+kind+"("+t.SMT()+")", sortStr)
}
