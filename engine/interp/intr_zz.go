package interp

// Intrinsics implementing the harness API (package zzverif).

import (
	"fmt"
	"go/types"
	"os"
	"strings"
)

const zzPath = "github.com/crossplane/crossplane/internal/zzverif"

func init() {
	for k, v := range map[string]externalFn{
		"Tier":      zzTier,
		"Bound":     zzBound,
		"Bool":      zzBool,
		"Int":       zzInt,
		"Int64":     zzInt64,
		"Str":       zzStr,
		"StrIn":     zzStrIn,
		"StrNo":     zzStrNo,
		"Choose":    zzChoose,
		"Assume":    zzAssume,
		"Assert":    zzAssert,
		"Cover":     zzCover,
		"MapOrders": zzMapOrders,
		"Note":      zzNote,
		"Observe":   zzObserve,
		"Implies":   zzImplies,
		"And":       zzAnd,
		"Or":        zzOr,
		"Not":       zzNot,
		"Ite":       zzIte,
		"IteInt":    zzIteInt,
		"HasPrefix": zzHasPrefix,
		"HasSuffix": zzHasSuffix,
		"Contains":  zzContains,
		"Concrete":  zzConcrete,
	} {
		externals[zzPath+"."+k] = v
	}
}

func needPath(fr *frame) *pathState {
	if fr.i.ps == nil {
		unsupported("harness API used outside a path")
	}
	return fr.i.ps
}

func concreteString(fr *frame, v value, what string) string {
	s, ok := fr.i.concrete(v, what).(string)
	if !ok {
		unsupported("%s must be a concrete string", what)
	}
	return s
}

func zzTier(fr *frame, args []value) value { return fr.i.w.e.Tier }

func zzBound(fr *frame, args []value) value {
	if fr.i.w.e.Tier == "thorough" {
		return args[1]
	}
	return args[0]
}

func (ps *pathState) newInput(name string, s Sort, kind string) *Term {
	n := ps.uniqueName(name)
	ps.inputs = append(ps.inputs, inputDecl{Name: n, Sort: s, Kind: kind})
	return mkVar(n, s)
}

func zzBool(fr *frame, args []value) value {
	ps := needPath(fr)
	return ps.resolveValue(symBool{ps.newInput(concreteString(fr, args[0], "input name"), sortBool, "bool")})
}

func zzInt(fr *frame, args []value) value {
	ps := needPath(fr)
	return ps.resolveValue(symInt{ps.newInput(concreteString(fr, args[0], "input name"), sortBV(64), "int"), types.Int})
}

func zzInt64(fr *frame, args []value) value {
	ps := needPath(fr)
	return ps.resolveValue(symInt{ps.newInput(concreteString(fr, args[0], "input name"), sortBV(64), "int64"), types.Int64})
}

func zzStr(fr *frame, args []value) value {
	ps := needPath(fr)
	return ps.resolveValue(symStr{ps.newInput(concreteString(fr, args[0], "input name"), sortStr, "str")})
}

// classToRe converts a bracket-expression body such as "a-z0-9.-" to an
// SMT-LIB regular expression matching one character of the class.
func classToRe(class string) string {
	var parts []string
	rs := []byte(class)
	for i := 0; i < len(rs); i++ {
		if i+2 < len(rs) && rs[i+1] == '-' {
			parts = append(parts, fmt.Sprintf("(re.range %s %s)", smtStringLit(string(rs[i])), smtStringLit(string(rs[i+2]))))
			i += 2
			continue
		}
		parts = append(parts, fmt.Sprintf("(str.to_re %s)", smtStringLit(string(rs[i]))))
	}
	if len(parts) == 1 {
		return parts[0]
	}
	return "(re.union " + strings.Join(parts, " ") + ")"
}

func zzStrIn(fr *frame, args []value) value {
	ps := needPath(fr)
	name := concreteString(fr, args[0], "input name")
	class := concreteString(fr, args[1], "character class")
	maxLen := int(asInt64(fr.i.concrete(args[2], "max length")))
	v := ps.newInput(name, sortStr, "str")
	c := mkInRe(v, "(re.* "+classToRe(class)+")")
	if maxLen > 0 {
		c = mkAnd(c, &Term{Op: "<=", Args: []*Term{mkStrLen(v), mkIntC(int64(maxLen))}, Sort: sortBool})
	}
	ps.assume(symBool{c}, "alphabet of "+name)
	if ps.alpha == nil {
		ps.alpha = map[string]string{}
	}
	ps.alpha[v.Name] = class
	return ps.resolveValue(symStr{v})
}

func zzChoose(fr *frame, args []value) value {
	ps := needPath(fr)
	name := concreteString(fr, args[0], "input name")
	n := int(asInt64(fr.i.concrete(args[1], "choice count")))
	if n <= 0 {
		panic(pathEnd{"assume-false"})
	}
	if n == 1 {
		return 0
	}
	v := ps.newInput(name, sortBV(64), "int")
	var alts []*Term
	for j := 0; j < n; j++ {
		alts = append(alts, mkEq(v, mkBV(64, uint64(j))))
	}
	// the variable is fresh: every alternative is feasible. The range
	// restriction is implied by the alternative asserted.
	return ps.decideFree(alts, "choose")
}

func zzAssume(fr *frame, args []value) value {
	needPath(fr).assume(args[0], "harness assumption at "+callerPos(fr))
	return nil
}

func callerPos(fr *frame) string {
	if fr.caller == nil {
		return "?"
	}
	return fr.caller.fn.Name()
}

func zzAssert(fr *frame, args []value) value {
	ps := needPath(fr)
	label := concreteString(fr, args[0], "assertion label")
	ps.check(label, args[1], fr.i.w.x.fn.Name())
	return nil
}

func zzCover(fr *frame, args []value) value {
	ps := needPath(fr)
	ps.covers[concreteString(fr, args[0], "cover label")] = true
	return nil
}

func zzMapOrders(fr *frame, args []value) value {
	needPath(fr).mapOrdersOff = !fr.i.concrete(args[0], "map order switch").(bool)
	return nil
}

func zzObserve(fr *frame, args []value) value {
	ps := needPath(fr)
	key := concreteString(fr, args[0], "observation key")
	var vals []value
	for _, a := range args[1].([]value) {
		it := a.(iface)
		if it.t == nil {
			vals = append(vals, "<nil>")
			continue
		}
		if types.Implements(it.t, errorIface) {
			vals = append(vals, "error")
			continue
		}
		vals = append(vals, it.v)
	}
	ps.observe(key, vals)
	if debugObs {
		fmt.Fprintf(os.Stderr, "gosym: observe %s %s\n", key, toString(vals))
	}
	return nil
}

var debugObs = os.Getenv("GOSYM_DEBUG_OBS") != ""

var errorIface = types.Universe.Lookup("error").Type().Underlying().(*types.Interface)

func zzImplies(fr *frame, args []value) value {
	return boolValue(mkImplies(boolTerm(args[0]), boolTerm(args[1])))
}

func zzAnd(fr *frame, args []value) value {
	var ts []*Term
	for _, a := range args[0].([]value) {
		ts = append(ts, boolTerm(a))
	}
	return boolValue(mkAnd(ts...))
}

func zzOr(fr *frame, args []value) value {
	var ts []*Term
	for _, a := range args[0].([]value) {
		ts = append(ts, boolTerm(a))
	}
	return boolValue(mkOr(ts...))
}

func zzNot(fr *frame, args []value) value { return boolValue(mkNot(boolTerm(args[0]))) }

func zzIte(fr *frame, args []value) value {
	return strValue(mkIte(boolTerm(args[0]), strTerm(args[1]), strTerm(args[2])))
}

func zzIteInt(fr *frame, args []value) value {
	return intValue(mkIte(boolTerm(args[0]), intTerm(args[1]), intTerm(args[2])), types.Int)
}

func zzHasPrefix(fr *frame, args []value) value {
	return boolValue(mkStrPred("str.prefixof", strTerm(args[1]), strTerm(args[0])))
}

func zzHasSuffix(fr *frame, args []value) value {
	return boolValue(mkStrPred("str.suffixof", strTerm(args[1]), strTerm(args[0])))
}

func zzContains(fr *frame, args []value) value {
	return boolValue(mkStrPred("str.contains", strTerm(args[0]), strTerm(args[1])))
}

func zzConcrete(fr *frame, args []value) value {
	if fr.i.ps != nil {
		return !isSym(fr.i.ps.resolveValue(args[0]))
	}
	return !isSym(args[0])
}

// classHas reports whether the bracket-expression body class admits byte c.
func classHas(class string, c byte) bool {
	rs := []byte(class)
	for i := 0; i < len(rs); i++ {
		if i+2 < len(rs) && rs[i+1] == '-' {
			if rs[i] <= c && c <= rs[i+2] {
				return true
			}
			i += 2
			continue
		}
		if rs[i] == c {
			return true
		}
	}
	return false
}

// partExcludes reports whether string part p (a constant or an input atom)
// is known not to contain byte c.
func (ps *pathState) partExcludes(p *Term, c byte) bool {
	if p.isConst() {
		for k := 0; k < len(p.S); k++ {
			if p.S[k] == c {
				return false
			}
		}
		return true
	}
	if p.Op == "var" {
		if o, ok := opaqueReg.Load(p.Name); ok {
			if _, dec := isDecimalKind(o.(opaqueInfo).kind); dec {
				return !(c >= '0' && c <= '9') && c != '-'
			}
		}
		if class, ok := ps.alpha[p.Name]; ok {
			if strings.HasPrefix(class, "^") {
				return strings.IndexByte(class[1:], c) >= 0
			}
			return !classHas(class, c)
		}
	}
	return false
}

// zzStrNo returns an arbitrary string that contains none of the bytes of
// args[1]. Cheaper for the solver than a character-class restriction.
func zzStrNo(fr *frame, args []value) value {
	ps := needPath(fr)
	name := concreteString(fr, args[0], "input name")
	excl := concreteString(fr, args[1], "excluded characters")
	v := ps.newInput(name, sortStr, "str")
	var cs []*Term
	for k := 0; k < len(excl); k++ {
		cs = append(cs, mkNot(mkStrPred("str.contains", v, mkStr(excl[k:k+1]))))
	}
	ps.assume(symBool{mkAnd(cs...)}, "excluded characters of "+name)
	if ps.alpha == nil {
		ps.alpha = map[string]string{}
	}
	ps.alpha[v.Name] = "^" + excl
	return ps.resolveValue(symStr{v})
}

func zzNote(fr *frame, args []value) value {
	ps := needPath(fr)
	label := concreteString(fr, args[0], "note label")
	var t *Term
	switch c := args[1].(type) {
	case bool:
		t = mkBool(c)
	case symBool:
		t = ps.resolve(c.t)
	}
	if t.isTrue() {
		return nil
	}
	failed := t.isFalse()
	if !failed {
		r, _ := ps.w.solver.Check(mkNot(t), false)
		failed = r == Sat
	}
	if failed {
		if ps.notes == nil {
			ps.notes = map[string]bool{}
		}
		ps.notes[label] = true
	}
	return nil
}
