package interp

// Engine: exploration of all paths of a harness function by re-execution.

import (
	"fmt"
	"go/token"
	"go/types"
	"math/rand"
	"os"
	"runtime"
	"runtime/debug"
	"sort"
	"strings"
	"sync"
	"time"

	"golang.org/x/tools/go/ssa"
)

type Config struct {
	Workers        int
	MaxPaths       int
	StepLimit      int64 // basic blocks per path
	QueryTimeoutMs int
	// CrossCheckEvery > 0: every n-th assertion query answered unsat is also put to the other z3 build
	CrossCheckEvery int
	Deadline        time.Duration
	Solver          string
	Trace           bool
	Seed            int64
	ModulePrefix    string // functions of packages with this prefix are reported as encoded
	KeepPaths       int    // number of path summaries kept for evidence / validation
	Verbose         bool
}

type Engine struct {
	Prog               *ssa.Program
	Cfg                Config
	sizes              types.Sizes
	runtimeErrorString types.Type
	intrinsics         map[string]externalFn
	prepOnce           sync.Once
	Tier               string
	SeqGo              bool     // run go statements synchronously at the spawn point
	LateGo             bool     // go statements run when the spawner blocks on a channel receive (harness flag "latego")
	TrackLocks         bool     // track sync.Mutex/RWMutex state per path (harness flag "locks")
	MapOrders          []string // functions (name substrings) whose small map ranges run in every order
}

// NewEngine prepares prog (already built) for interpretation.
func NewEngine(prog *ssa.Program, cfg Config) *Engine {
	if cfg.Workers <= 0 {
		cfg.Workers = runtime.NumCPU()
	}
	if cfg.StepLimit == 0 {
		cfg.StepLimit = 5_000_000
	}
	if cfg.QueryTimeoutMs == 0 {
		cfg.QueryTimeoutMs = 20000
	}
	if cfg.MaxPaths == 0 {
		cfg.MaxPaths = 200000
	}
	if cfg.Solver == "" {
		cfg.Solver = "z3"
	}
	if cfg.KeepPaths == 0 {
		cfg.KeepPaths = 64
	}
	e := &Engine{Prog: prog, Cfg: cfg, sizes: &types.StdSizes{WordSize: 8, MaxAlign: 8}}
	runtimePkg := prog.ImportedPackage("runtime")
	if runtimePkg == nil {
		panic("ssa.Program doesn't include runtime package")
	}
	e.runtimeErrorString = runtimePkg.Type("errorString").Object().Type()
	e.intrinsics = map[string]externalFn{}
	for k, v := range externals {
		e.intrinsics[k] = v
	}
	return e
}

func mustDeref(t types.Type) types.Type {
	if p, ok := t.Underlying().(*types.Pointer); ok {
		return p.Elem()
	}
	panic(fmt.Sprintf("mustDeref: %s is not a pointer", t))
}

func isEngineControl(r interface{}) bool {
	switch r.(type) {
	case pathEnd, unsupportedOp, *runtime.TypeAssertionError:
		return true
	}
	return false
}

// Worker owns one interpreter instance and one solver process.
type Worker struct {
	e             *Engine
	id            int
	i             *interpreter
	solver        *Solver
	x             *exploration
	assertQueries int
	assertSat     int
	assertUnsat   int
	assertUnknown int
	crossChecked  int
	crossDisagree int
}

func (e *Engine) newInterpreter(w *Worker) *interpreter {
	i := &interpreter{
		prog:               e.Prog,
		globals:            make(map[*ssa.Global]*value),
		sizes:              e.sizes,
		goroutines:         1,
		w:                  w,
		pkgInit:            map[*ssa.Package]int{},
		poisoned:           map[*ssa.Global]string{},
		seen:               map[*ssa.Function]struct{}{},
		intr:               map[*ssa.Function]externalFn{},
		runtimeErrorString: e.runtimeErrorString,
	}
	if e.Cfg.Trace {
		i.mode |= EnableTracing
	}
	e.prepOnce.Do(func() { initReflectProg(e.Prog) })
	initReflect(i)
	for _, pkg := range e.Prog.AllPackages() {
		for _, m := range pkg.Members {
			if v, ok := m.(*ssa.Global); ok {
				cell := zero(mustDeref(v.Type()))
				i.globals[v] = &cell
			}
		}
	}
	return i
}

// covFor returns the block-coverage slice of fn if fn belongs to the module
// under test (GOSYM_COVERAGE), nil otherwise.
func (i *interpreter) covFor(fn *ssa.Function) []bool {
	if c, ok := i.cov[fn]; ok {
		return c
	}
	var c []bool
	pkg := fn.Pkg
	if pkg == nil && fn.Origin() != nil {
		pkg = fn.Origin().Pkg
	}
	if pkg != nil && strings.HasPrefix(pkg.Pkg.Path(), i.w.e.Cfg.ModulePrefix) && !strings.Contains(pkg.Pkg.Path(), "/zzverif") {
		c = make([]bool, len(fn.Blocks))
	}
	i.cov[fn] = c
	return c
}

func (i *interpreter) intrinsicFor(fn *ssa.Function) externalFn {
	if f, ok := i.intr[fn]; ok {
		return f
	}
	f := i.w.e.intrinsics[fn.String()]
	if f == nil {
		if o := fn.Origin(); o != nil {
			f = i.w.e.intrinsics[o.String()]
		}
	}
	i.intr[fn] = f
	return f
}

// ensureInit runs the package initialiser of pkg on first use.
func (i *interpreter) ensureInit(pkg *ssa.Package, caller *frame) {
	if i.pkgInit[pkg] != 0 {
		return
	}
	i.pkgInit[pkg] = 1
	initFn := pkg.Func("init")
	if initFn == nil || initFn.Blocks == nil {
		i.pkgInit[pkg] = 2
		return
	}
	savedPS, savedDepth := i.ps, i.depth
	savedTrack := i.initStores
	i.ps = nil
	i.initStores = map[*ssa.Global]bool{}
	ok := false
	func() {
		defer func() {
			if ok {
				return
			}
			r := recover()
			reason := fmt.Sprintf("init of %s failed: %v", pkg.Pkg.Path(), panicString(r))
			if os.Getenv("GOSYM_DEBUG_INIT") != "" {
				fmt.Fprintf(os.Stderr, "gosym: %s\n", reason)
				if os.Getenv("GOSYM_DEBUG_INIT") == "stack" {
					debug.PrintStack()
				}
			}
			// poison the globals that init assigns statically but did not reach
			for _, g := range initAssignedGlobals(initFn) {
				if !i.initStores[g] {
					i.poisoned[g] = reason
				}
			}
			i.pkgInit[pkg] = 3
		}()
		call(i, nil, token.NoPos, initFn, nil)
		ok = true
	}()
	i.ps, i.depth, i.initStores = savedPS, savedDepth, savedTrack
	i.panicSite = ""
	if ok {
		i.pkgInit[pkg] = 2
	}
	// registries filled by the init functions of other packages
	if pkg.Pkg.Path() == "crypto" {
		for _, p := range []string{"crypto/sha256", "crypto/sha512", "crypto/sha1", "crypto/md5"} {
			if hp := i.prog.ImportedPackage(p); hp != nil {
				i.ensureInit(hp, caller)
			}
		}
	}
}

func panicString(r interface{}) string {
	switch r := r.(type) {
	case targetPanic:
		return "panic: " + toString(r.v)
	case unsupportedOp:
		return "unsupported: " + r.msg
	case pathEnd:
		return "path end: " + r.reason
	case error:
		return r.Error()
	}
	return fmt.Sprint(r)
}

var initGlobalsCache sync.Map

// initAssignedGlobals lists the globals that a package init function (and
// the init#N functions it calls) store to directly.
func initAssignedGlobals(initFn *ssa.Function) []*ssa.Global {
	if c, ok := initGlobalsCache.Load(initFn); ok {
		return c.([]*ssa.Global)
	}
	seen := map[*ssa.Global]bool{}
	var out []*ssa.Global
	var scan func(fn *ssa.Function)
	scan = func(fn *ssa.Function) {
		for _, b := range fn.Blocks {
			for _, in := range b.Instrs {
				switch in := in.(type) {
				case *ssa.Store:
					if g, ok := in.Addr.(*ssa.Global); ok && !seen[g] {
						seen[g] = true
						out = append(out, g)
					}
				case *ssa.Call:
					if f, ok := in.Call.Value.(*ssa.Function); ok && f.Pkg == fn.Pkg && strings.HasPrefix(f.Name(), "init#") {
						scan(f)
					}
				}
			}
		}
	}
	scan(initFn)
	initGlobalsCache.Store(initFn, out)
	return out
}

func (i *interpreter) condValue(v value) bool {
	switch v := v.(type) {
	case bool:
		return v
	case symBool:
		if i.ps == nil {
			unsupported("symbolic branch outside a path")
		}
		return i.ps.decideBool(v.t, "if")
	}
	panic(fmt.Sprintf("condValue: %T", v))
}

// concrete returns v if concrete, resolving bindings; otherwise the
// operation is unsupported on symbolic operands.
func (i *interpreter) concrete(v value, what string) value {
	if !isSym(v) {
		return v
	}
	if i.ps != nil {
		v = i.ps.resolveValue(v)
		if !isSym(v) {
			return v
		}
	}
	unsupported("%s must be concrete, got %s", what, toString(v))
	return nil
}

type boundsError string

func (e boundsError) Error() string { return string(e) }
func (e boundsError) RuntimeError() {}

// index resolves a slice/array/string index against length n.
func (i *interpreter) index(idx value, n int) int {
	s, ok := idx.(symInt)
	if !ok {
		return int(asInt64(idx))
	}
	if i.ps == nil {
		unsupported("symbolic index outside a path")
	}
	t := i.ps.resolve(s.t)
	if t.isConst() {
		_, signed := kindBits(s.k)
		if signed {
			return int(sext(t.U, t.Sort.Bits))
		}
		return int(t.U)
	}
	if n > 64 {
		unsupported("symbolic index into sequence of length %d", n)
	}
	bits := t.Sort.Bits
	var alts []*Term
	for j := 0; j < n; j++ {
		alts = append(alts, mkEq(t, mkBV(bits, uint64(j))))
	}
	alts = append(alts, mkNot(mkOr(alts...)))
	a := i.ps.decide(alts, "index")
	if a == n {
		panic(boundsError(fmt.Sprintf("runtime error: index out of range [symbolic] with length %d", n)))
	}
	return a
}

func (i *interpreter) symStrIndex(x symStr, idx value) value {
	if i.ps != nil {
		if s, ok := i.ps.resolveValue(x).(string); ok {
			return s[i.index(idx, len(s))]
		}
	}
	unsupported("index into symbolic string %s", x.t)
	return nil
}

// symStrSlice slices a symbolic string at concrete offsets that fall inside
// its leading constant part, or returns the whole string.
func (i *interpreter) symStrSlice(x symStr, lo, hi value) value {
	if i.ps != nil {
		if s, ok := i.ps.resolveValue(x).(string); ok {
			return slice(nil, s, lo, hi, nil)
		}
	}
	var l int64
	if lo != nil {
		l = asInt64(i.concrete(lo, "string slice low bound"))
	}
	parts := strParts(x.t)
	if hi == nil {
		// drop l leading bytes, which must lie within leading constants
		var rest []*Term
		rem := l
		for k, p := range parts {
			if rem == 0 {
				rest = append(rest, parts[k:]...)
				break
			}
			if !p.isConst() {
				unsupported("slice of symbolic string %s at offset inside a symbolic part", x.t)
			}
			if int64(len(p.S)) <= rem {
				rem -= int64(len(p.S))
				continue
			}
			rest = append(rest, mkStr(p.S[rem:]))
			rest = append(rest, parts[k+1:]...)
			rem = 0
			break
		}
		return strValue(mkConcat(rest...))
	}
	if hs, ok := i.ps.resolveValue(hi).(symInt); ok && hs.t.Op == "int2bv" && l == 0 {
		// s[:n] with n = (an integer expression over string lengths): split s
		// into a fresh prefix of that length and a rest (definitional
		// constraints on the path), after deciding that n is within bounds
		n := hs.t.Args[0]
		within := mkAnd(
			&Term{Op: ">=", Args: []*Term{n, mkIntC(0)}, Sort: sortBool},
			&Term{Op: "<=", Args: []*Term{n, mkStrLen(x.t)}, Sort: sortBool})
		if !i.ps.decideBool(within, "slice-bound") {
			panic(boundsError("runtime error: slice bounds out of range [symbolic]"))
		}
		pre := mkVar(i.ps.freshName("slicepre"), sortStr)
		rest := mkVar(i.ps.freshName("slicerest"), sortStr)
		i.ps.assertPC(mkEq(x.t, mkConcat(pre, rest)))
		i.ps.assertPC(mkEq(mkStrLen(pre), n))
		return strValue(pre)
	}
	h := asInt64(i.concrete(hi, "string slice high bound"))
	// [l:h] must lie within the leading constant parts
	var lead strings.Builder
	for _, p := range parts {
		if !p.isConst() {
			break
		}
		lead.WriteString(p.S)
	}
	if h <= int64(lead.Len()) {
		return lead.String()[l:h]
	}
	unsupported("slice [%d:%d] of symbolic string %s", l, h, x.t)
	return nil
}

// mapRange iterates a map in insertion order, except in the functions a
// harness names with //gosym:maporders: there a map with two or three live
// entries is iterated in every order (a decision point with n! alternatives,
// all feasible: Go leaves the order unspecified).
func (i *interpreter) mapRange(fr *frame, m *omap, t types.Type) iter {
	if i.ps == nil || i.ps.mapOrdersOff || m == nil || len(i.w.e.MapOrders) == 0 || fr == nil || fr.fn == nil {
		return &omapIter{m: m}
	}
	name := fr.fn.String()
	match := false
	for _, s := range i.w.e.MapOrders {
		if strings.Contains(name, s) {
			match = true
		}
	}
	if !match {
		return &omapIter{m: m}
	}
	var live []int
	for k := range m.keys {
		if !m.dead[k] {
			live = append(live, k)
		}
	}
	if len(live) < 2 || len(live) > 3 {
		return &omapIter{m: m}
	}
	perms := permutations(len(live))
	v := mkVar(i.ps.freshName("maporder"), sortBV(64))
	var alts []*Term
	for j := range perms {
		alts = append(alts, mkEq(v, mkBV(64, uint64(j))))
	}
	p := perms[i.ps.decideFree(alts, "maporder")]
	i.ps.mapOrders++
	it := &permIter{m: m}
	for _, q := range p {
		it.order = append(it.order, live[q])
	}
	return it
}

func permutations(n int) [][]int {
	if n == 2 {
		return [][]int{{0, 1}, {1, 0}}
	}
	return [][]int{{0, 1, 2}, {0, 2, 1}, {1, 0, 2}, {1, 2, 0}, {2, 0, 1}, {2, 1, 0}}
}

// permIter yields the entries that were live when the range began in a fixed
// order; entries deleted during the iteration are skipped, entries added are
// not produced (Go allows either).
type permIter struct {
	m     *omap
	order []int
	i     int
}

func (it *permIter) next() tuple {
	for it.i < len(it.order) {
		k := it.order[it.i]
		it.i++
		if k < len(it.m.dead) && !it.m.dead[k] {
			return tuple{true, it.m.keys[k], it.m.vals[k]}
		}
	}
	return tuple{false, nil, nil}
}

// pendingGo is a goroutine spawned under the "latego" mode and not yet run.
type pendingGo struct {
	fn   value
	args []value
	pos  token.Pos
}

// runLateGo runs the oldest pending goroutine to completion; false if none.
func (i *interpreter) runLateGo() bool {
	if i.ps == nil || len(i.ps.lateGo) == 0 {
		return false
	}
	g := i.ps.lateGo[0]
	i.ps.lateGo = i.ps.lateGo[1:]
	i.ps.inLateGo++
	defer func() { i.ps.inLateGo-- }()
	call(i, nil, g.pos, g.fn, g.args)
	return true
}

func (i *interpreter) goStmt(fr *frame, instr *ssa.Go, fn value, args []value) {
	if i.ps != nil {
		i.ps.goStmts++
	}
	if i.w.e.SeqGo || syncGo(fr.fn) {
		call(i, nil, instr.Pos(), fn, args)
		return
	}
	if i.w.e.LateGo && i.ps != nil {
		// run when the spawning thread of execution blocks on a channel
		i.ps.lateGo = append(i.ps.lateGo, pendingGo{fn: fn, args: args, pos: instr.Pos()})
		return
	}
	if i.w.e.Cfg.Verbose {
		fmt.Fprintf(os.Stderr, "gosym: go statement at %s not run\n", i.prog.Fset.Position(instr.Pos()))
	}
}

// ---------------------------------------------------------------------
// Exploration

type PathSummary struct {
	Decisions []Decision
	Outcome   string // ok, panic, unsupported, infeasible, assume-false, assert-failed, diverged, step-limit, budget
	Detail    string
	Obs       []Observation
	Covers    []string
	Model     map[string]string
	Inputs    []string
	Steps     int64
	Unknowns  int
	MapOrders int // map-order decision points on the path
}

type Report struct {
	Harness         string
	Blocks          map[string]bool // GOSYM_COVERAGE: blocks of executed module functions -> executed on some path
	Paths           int
	Completed       int // paths that ran to the end of the harness (ok)
	Outcomes        map[string]int
	Decisions       int
	Violations      []Violation
	Inconclusive    []string
	Unsupported     map[string]int
	Panics          map[string]int
	Covers          map[string]int
	Asserts         map[string]int
	Assumes         map[string]int
	Funcs           []string
	Samples         []PathSummary
	Solver          SolverStats
	AssertQueries   int
	AssertSat       int
	AssertUnsat     int
	AssertUnknown   int
	CrossChecked    int
	CrossDisagree   int
	FeasQueries     int
	Wall            time.Duration
	InitFailures    map[string]string
	GoStmts         int
	MaxPathSteps    int64
	IntrinsicsUsed  []string
	FeasUnknown     int
	PanicViolations []string
	Notes           map[string]int // Note label -> paths on which it can fail
}

type exploration struct {
	e              *Engine
	fn             *ssa.Function
	mu             sync.Mutex
	cond           *sync.Cond
	work           [][]Decision
	active         int
	report         *Report
	start          time.Time
	stop           bool
	funcs          map[string]bool
	intrUsed       map[string]bool
	cov            map[*ssa.Function][]bool
	panicSeen      map[string]bool
	okSeen, okKept int
	rng            *rand.Rand
}

func (w *Worker) noteInconclusive(msg string) {
	w.x.mu.Lock()
	defer w.x.mu.Unlock()
	w.x.addInconclusive(msg)
}

func (x *exploration) addInconclusive(msg string) {
	for _, m := range x.report.Inconclusive {
		if m == msg {
			return
		}
	}
	if len(x.report.Inconclusive) < 50 {
		x.report.Inconclusive = append(x.report.Inconclusive, msg)
	}
}

func (w *Worker) budgetCheck(ps *pathState) {
	x := w.x
	if x.e.Cfg.Deadline > 0 && time.Since(x.start) > x.e.Cfg.Deadline {
		panic(pathEnd{"budget"})
	}
}

// Explore runs harness function fn on all feasible paths.
func (e *Engine) Explore(fn *ssa.Function) *Report {
	x := &exploration{e: e, fn: fn, start: time.Now(), funcs: map[string]bool{}, intrUsed: map[string]bool{}, cov: map[*ssa.Function][]bool{},
		rng: rand.New(rand.NewSource(e.Cfg.Seed + 1))}
	x.cond = sync.NewCond(&x.mu)
	x.report = &Report{Harness: fn.String(), Outcomes: map[string]int{}, Unsupported: map[string]int{},
		Panics: map[string]int{}, Covers: map[string]int{}, Asserts: map[string]int{}, Assumes: map[string]int{},
		InitFailures: map[string]string{}}
	x.work = [][]Decision{nil}
	var wg sync.WaitGroup
	nw := e.Cfg.Workers
	for k := 0; k < nw; k++ {
		wg.Add(1)
		go func(id int) {
			defer wg.Done()
			w := &Worker{e: e, id: id, x: x}
			s, err := NewSolver(e.Cfg.Solver, e.Cfg.QueryTimeoutMs)
			if err != nil {
				x.mu.Lock()
				x.addInconclusive("cannot start solver: " + err.Error())
				x.stop = true
				x.cond.Broadcast()
				x.mu.Unlock()
				return
			}
			w.solver = s
			defer s.Close()
			w.i = e.newInterpreter(w)
			if os.Getenv("GOSYM_COVERAGE") != "" {
				w.i.cov = map[*ssa.Function][]bool{}
			}
			for {
				x.mu.Lock()
				for len(x.work) == 0 && x.active > 0 && !x.stop {
					x.cond.Wait()
				}
				if x.stop || (len(x.work) == 0 && x.active == 0) {
					x.cond.Broadcast()
					x.mu.Unlock()
					break
				}
				prefix := x.work[len(x.work)-1]
				x.work = x.work[:len(x.work)-1]
				x.active++
				x.mu.Unlock()

				sum, ps := w.runPath(prefix)

				x.mu.Lock()
				x.active--
				x.merge(w, sum, ps)
				x.cond.Broadcast()
				x.mu.Unlock()
			}
			x.mu.Lock()
			st := w.solver.Stats
			r := x.report
			r.Solver.Queries += st.Queries
			r.Solver.Sat += st.Sat
			r.Solver.Unsat += st.Unsat
			r.Solver.Unknown += st.Unknown
			r.Solver.Errors += st.Errors
			r.Solver.Fallbacks += st.Fallbacks
			r.Solver.Hangs += st.Hangs
			r.Solver.Time += st.Time
			if st.MaxQuery > r.Solver.MaxQuery {
				r.Solver.MaxQuery = st.MaxQuery
			}
			r.AssertQueries += w.assertQueries
			r.AssertSat += w.assertSat
			r.AssertUnsat += w.assertUnsat
			r.AssertUnknown += w.assertUnknown
			r.CrossChecked += w.crossChecked
			r.CrossDisagree += w.crossDisagree
			for f := range w.i.seen {
				if f.Pkg != nil && strings.HasPrefix(f.Pkg.Pkg.Path(), e.Cfg.ModulePrefix) {
					x.funcs[f.String()] = true
				} else if f.Pkg == nil {
					if o := f.Object(); o != nil && o.Pkg() != nil && strings.HasPrefix(o.Pkg().Path(), e.Cfg.ModulePrefix) {
						x.funcs[f.String()] = true
					}
				}
			}
			for f, c := range w.i.cov {
				if c == nil {
					continue
				}
				m := x.cov[f]
				if m == nil {
					m = make([]bool, len(c))
					x.cov[f] = m
				}
				for k, b := range c {
					if b {
						m[k] = true
					}
				}
			}
			for f, in := range w.i.intr {
				if in != nil {
					x.intrUsed[f.String()] = true
				}
			}
			for p, st := range w.i.pkgInit {
				if st == 3 {
					x.report.InitFailures[p.Pkg.Path()] = "failed"
				}
			}
			x.mu.Unlock()
		}(k)
	}
	wg.Wait()
	r := x.report
	for f := range x.funcs {
		r.Funcs = append(r.Funcs, f)
	}
	sort.Strings(r.Funcs)
	for f := range x.intrUsed {
		r.IntrinsicsUsed = append(r.IntrinsicsUsed, f)
	}
	sort.Strings(r.IntrinsicsUsed)
	// block coverage of the module functions executed (GOSYM_COVERAGE)
	for f, c := range x.cov {
		for k, hit := range c {
			if k >= len(f.Blocks) {
				continue
			}
			b := f.Blocks[k]
			pos := token.NoPos
			for _, in := range b.Instrs {
				if in.Pos() != token.NoPos {
					pos = in.Pos()
					break
				}
			}
			if pos == token.NoPos {
				continue
			}
			p := e.Prog.Fset.Position(pos)
			key := fmt.Sprintf("%s:%d %s b%d %s", p.Filename, p.Line, f.String(), k, b.Comment)
			if r.Blocks == nil {
				r.Blocks = map[string]bool{}
			}
			r.Blocks[key] = r.Blocks[key] || hit
		}
	}
	r.FeasQueries = r.Solver.Queries - r.AssertQueries
	r.Wall = time.Since(x.start)
	if r.Solver.Errors > 0 {
		x.addInconclusive(fmt.Sprintf("%d solver error lines", r.Solver.Errors))
	}
	return r
}

func (x *exploration) merge(w *Worker, sum PathSummary, ps *pathState) {
	r := x.report
	r.Paths++
	r.Outcomes[sum.Outcome]++
	r.Decisions += len(sum.Decisions)
	if sum.Steps > r.MaxPathSteps {
		r.MaxPathSteps = sum.Steps
	}
	r.GoStmts += ps.goStmts
	switch sum.Outcome {
	case "ok", "assert-failed":
		r.Completed++
	case "unsupported":
		r.Unsupported[sum.Detail]++
		x.addInconclusive("unsupported operation on a feasible path: " + sum.Detail)
	case "panic":
		r.Panics[sum.Detail]++
	case "diverged":
		x.addInconclusive("re-execution diverged: " + sum.Detail)
	case "step-limit", "call-depth":
		x.addInconclusive("path exceeded " + sum.Outcome)
	case "budget":
		x.addInconclusive("exploration budget exhausted")
		x.stop = true
	case "engine-error":
		x.addInconclusive("engine error: " + sum.Detail)
	}
	if sum.Unknowns > 0 {
		// both branches were kept: exploring a possibly infeasible path cannot
		// turn a violation into "held"; a counterexample from such a path would
		// fail native replay and be reported as a mismatch. Counted, not fatal.
		r.FeasUnknown += sum.Unknowns
	}
	for c := range ps.covers {
		r.Covers[c]++
	}
	for n := range ps.notes {
		if r.Notes == nil {
			r.Notes = map[string]int{}
		}
		r.Notes[n]++
	}
	for a, n := range ps.asserts {
		r.Asserts[a] += n
	}
	for _, a := range ps.assumes {
		r.Assumes[a]++
	}
	for _, v := range ps.viols {
		if len(r.Violations) < 200 {
			r.Violations = append(r.Violations, v)
		}
	}
	if sum.Outcome == "panic" && sum.Model != nil {
		// one replayable sample per distinct panic message, whatever the cap
		if x.panicSeen == nil {
			x.panicSeen = map[string]bool{}
		}
		if !x.panicSeen[sum.Detail] && len(x.panicSeen) < 16 {
			x.panicSeen[sum.Detail] = true
			r.Samples = append(r.Samples, sum)
		}
	} else if sum.Outcome == "ok" && sum.Model != nil {
		// reservoir sample of completed paths for native validation
		x.okSeen++
		if x.okKept < x.e.Cfg.KeepPaths {
			x.okKept++
			r.Samples = append(r.Samples, sum)
		} else if j := x.rng.Intn(x.okSeen); j < x.e.Cfg.KeepPaths {
			// replace the j-th kept ok sample
			k := 0
			for idx := range r.Samples {
				if r.Samples[idx].Outcome == "ok" {
					if k == j {
						r.Samples[idx] = sum
						break
					}
					k++
				}
			}
		}
	}
	if r.Paths >= x.e.Cfg.MaxPaths {
		x.addInconclusive(fmt.Sprintf("path limit %d reached", x.e.Cfg.MaxPaths))
		x.stop = true
	}
	if x.e.Cfg.Deadline > 0 && time.Since(x.start) > x.e.Cfg.Deadline {
		x.addInconclusive("exploration deadline reached")
		x.stop = true
	}
	x.work = append(x.work, ps.siblings...)
}

// runPath executes the harness once under the forced decision prefix.
func (w *Worker) runPath(prefix []Decision) (sum PathSummary, ps *pathState) {
	ps = newPathState(w, prefix)
	w.i.ps = ps
	w.i.depth = 0
	w.i.panicSite = ""
	w.i.randCount = 0
	w.i.clock = 0
	w.solver.Reset()
	sum.Outcome = "ok"
	func() {
		defer func() {
			r := recover()
			if r == nil {
				return
			}
			switch r := r.(type) {
			case pathEnd:
				sum.Outcome = r.reason
				sum.Detail = ps.diverged
			case unsupportedOp:
				sum.Outcome = "unsupported"
				sum.Detail = r.msg
				if os.Getenv("GOSYM_DEBUG_SITE") != "" {
					sum.Detail += " @ " + w.i.panicSite
				}
			case *runtime.TypeAssertionError:
				sum.Outcome = "unsupported"
				sum.Detail = "engine type confusion: " + r.Error() + " @ " + engineSite()
			case targetPanic:
				sum.Outcome = "panic"
				sum.Detail = toString(r.v)
			case runtime.Error:
				sum.Outcome = "panic"
				sum.Detail = r.Error()
				if os.Getenv("GOSYM_DEBUG_SITE") != "" {
					sum.Detail += " @ " + w.i.panicSite
				}
				if os.Getenv("GOSYM_DEBUG_PANIC") != "" {
					debug.PrintStack()
				}
			case string:
				sum.Outcome = "panic"
				sum.Detail = r
			default:
				sum.Outcome = "engine-error"
				sum.Detail = fmt.Sprint(r)
			}
		}()
		call(w.i, nil, token.NoPos, w.x.fn, nil)
	}()
	w.i.ps = nil
	sum.Decisions = ps.decisions
	sum.Obs = ps.obs
	sum.Covers = sortedKeys(ps.covers)
	sum.Steps = ps.steps
	sum.Unknowns = ps.unknowns
	sum.MapOrders = ps.mapOrders
	for _, in := range ps.inputs {
		sum.Inputs = append(sum.Inputs, in.Name)
	}
	if sum.Outcome == "ok" || sum.Outcome == "panic" {
		// a model of the path condition, used to validate the path natively
		if m, ok := ps.currentModel(); ok {
			sum.Model = m
			// evaluate symbolic observations under the model
			for oi := range sum.Obs {
				for vi, t := range sum.Obs[oi].syms {
					if t != nil {
						sum.Obs[oi].Vals[vi] = ps.evalUnderModel(t)
					}
				}
			}
		}
	}
	return
}

// engineSite names the engine source location of the innermost panic frame;
// used only in diagnostics.
func engineSite() string {
	st := string(debug.Stack())
	lines := strings.Split(st, "\n")
	for k, l := range lines {
		if strings.Contains(l, "panic(") && k+3 < len(lines) {
			return strings.TrimSpace(lines[k+2]) + " " + strings.TrimSpace(lines[k+3])
		}
	}
	return ""
}

// syncGo reports whether go statements inside fn are run synchronously at
// the spawn point: producer goroutines of lexers and errgroup workers.
func syncGo(fn *ssa.Function) bool {
	for f := fn; f != nil; f = f.Parent() {
		if f.Pkg != nil {
			switch f.Pkg.Pkg.Path() {
			case "golang.org/x/sync/errgroup",
				"github.com/crossplane/crossplane-runtime/pkg/fieldpath":
				return true
			}
		}
	}
	return false
}
