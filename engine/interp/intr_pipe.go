package interp

// Model of io.Pipe for the "latego" mode. The real pipe is a rendezvous
// between two goroutines; under the engine the writer's side runs first (the
// spawning thread of execution) and the reader's goroutine runs when the
// spawner blocks, so the pipe is an unbounded buffer: a Write never blocks, a
// Read returns what is buffered, end of file once the writer has closed, and
// is unsupported if it would have to wait for a writer that is still open.

import (
	"go/types"
)

type pipeModel struct {
	buf     []value // bytes written and not yet read
	wclosed bool
	werr    value // error the reader sees after the buffer is drained (nil iface = io.EOF)
	rclosed bool
	rerr    value // error the writer sees once the reader has closed
}

func (i *interpreter) ioErr(name string) value {
	g := i.prog.ImportedPackage("io").Var(name)
	return *i.globals[g]
}

func init() {
	pipeOf := func(fr *frame, v value) *pipeModel {
		p, _ := v.(*value)
		if fr.i.ps == nil || p == nil || fr.i.ps.pipes[p] == nil {
			unsupported("io.Pipe half not created by the modelled io.Pipe")
		}
		return fr.i.ps.pipes[p]
	}
	externals["io.Pipe"] = func(fr *frame, args []value) value {
		ps := fr.i.ps
		if ps == nil {
			unsupported("io.Pipe outside a path")
		}
		res := fr.fn.Signature.Results()
		var r value = zero(res.At(0).Type().(*types.Pointer).Elem())
		var w value = zero(res.At(1).Type().(*types.Pointer).Elem())
		m := &pipeModel{}
		if ps.pipes == nil {
			ps.pipes = map[*value]*pipeModel{}
		}
		ps.pipes[&r], ps.pipes[&w] = m, m
		return tuple{&r, &w}
	}
	externals["(*io.PipeWriter).Write"] = func(fr *frame, args []value) value {
		m := pipeOf(fr, args[0])
		if m.rclosed {
			return tuple{int(0), m.rerr}
		}
		if m.wclosed {
			return tuple{int(0), fr.i.ioErr("ErrClosedPipe")}
		}
		b, _ := args[1].([]value)
		m.buf = append(m.buf, b...)
		return tuple{len(b), iface{}}
	}
	closeW := func(fr *frame, args []value, err value) value {
		m := pipeOf(fr, args[0])
		if !m.wclosed {
			m.wclosed = true
			m.werr = err
		}
		return iface{}
	}
	externals["(*io.PipeWriter).Close"] = func(fr *frame, args []value) value { return closeW(fr, args, iface{}) }
	externals["(*io.PipeWriter).CloseWithError"] = func(fr *frame, args []value) value { return closeW(fr, args, args[1]) }
	externals["(*io.PipeReader).Read"] = func(fr *frame, args []value) value {
		m := pipeOf(fr, args[0])
		if m.rclosed {
			return tuple{int(0), fr.i.ioErr("ErrClosedPipe")}
		}
		p, _ := args[1].([]value)
		if len(m.buf) > 0 {
			n := copy(p, m.buf)
			m.buf = m.buf[n:]
			return tuple{n, iface{}}
		}
		if len(p) == 0 {
			return tuple{int(0), iface{}}
		}
		for !m.wclosed && len(m.buf) == 0 {
			// the reader is ahead of the writer: let a pending goroutine (the
			// writer's) run to completion first
			if !fr.i.runLateGo() {
				unsupported("io.Pipe read would have to wait for a writer that is still open")
			}
		}
		if len(m.buf) > 0 {
			n := copy(p, m.buf)
			m.buf = m.buf[n:]
			return tuple{n, iface{}}
		}
		if e, ok := m.werr.(iface); ok && e.t != nil {
			return tuple{int(0), m.werr}
		}
		return tuple{int(0), fr.i.ioErr("EOF")}
	}
	closeR := func(fr *frame, args []value, err value) value {
		m := pipeOf(fr, args[0])
		if !m.rclosed {
			m.rclosed = true
			m.rerr = err
			if e, ok := err.(iface); !ok || e.t == nil {
				m.rerr = fr.i.ioErr("ErrClosedPipe")
			}
		}
		return iface{}
	}
	externals["(*io.PipeReader).Close"] = func(fr *frame, args []value) value { return closeR(fr, args, iface{}) }
	externals["(*io.PipeReader).CloseWithError"] = func(fr *frame, args []value) value { return closeR(fr, args, args[1]) }
}
