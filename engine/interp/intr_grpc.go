package interp

// Model of the part of google.golang.org/grpc that crossplane's
// PackagedFunctionRunner touches. The real package cannot be interpreted (its
// initialisers reach the operating system, protobuf descriptors and a JSON
// service config), so a client connection is an opaque object with a target,
// a closed flag and the chain of unary interceptors it was created with:
//
//	NewClient(target, opts...)   a fresh connection; never fails
//	(*ClientConn).Target()       the target it was created with
//	(*ClientConn).Close()        marks it closed
//	(*ClientConn).GetState()     Shutdown once closed, Idle before
//	(*ClientConn).Invoke(...)    calls the first chained interceptor, which
//	                             must end the call (network I/O is not
//	                             modelled; without an interceptor the path is
//	                             unsupported)
//
// The harness runs natively against the real grpc package (a connection is
// lazy: nothing is dialled before the first RPC, and the harness's
// interceptor ends every call), so the validation of sampled paths compares
// this model with the real thing.

import (
	"go/token"
	"go/types"

	"golang.org/x/tools/go/ssa"
)

type grpcConn struct {
	target       value
	closed       bool
	interceptors []value
}

// grpcInterceptors marks the DialOption that carries chained interceptors.
type grpcInterceptors struct{ fns []value }

func (ps *pathState) grpcConnOf(v value) *grpcConn {
	p, _ := v.(*value)
	if ps.grpcConns == nil || p == nil {
		return nil
	}
	return ps.grpcConns[p]
}

func init() {
	const pkg = "google.golang.org/grpc"
	nilOption := func(fr *frame, args []value) value { return iface{} }
	externals[pkg+".WithTransportCredentials"] = nilOption
	externals[pkg+".WithDefaultServiceConfig"] = nilOption
	externals["google.golang.org/grpc/credentials/insecure.NewCredentials"] = func(fr *frame, args []value) value { return iface{} }
	externals[pkg+".StaticMethod"] = func(fr *frame, args []value) value { return iface{} }
	externals[pkg+".WithChainUnaryInterceptor"] = func(fr *frame, args []value) value {
		fns, _ := args[0].([]value)
		// the dynamic type only has to be non-nil: nothing inspects it
		return iface{t: fr.fn.Signature.Params().At(0).Type(), v: grpcInterceptors{fns: append([]value{}, fns...)}}
	}
	externals[pkg+".NewClient"] = func(fr *frame, args []value) value {
		ps := fr.i.ps
		if ps == nil {
			unsupported("grpc.NewClient outside a path")
		}
		res := fr.fn.Signature.Results().At(0).Type() // *ClientConn
		var cell value = zero(res.(*types.Pointer).Elem())
		c := &grpcConn{target: args[0]}
		if opts, ok := args[1].([]value); ok {
			for _, o := range opts {
				if m, ok := o.(iface); ok {
					if gi, ok := m.v.(grpcInterceptors); ok {
						c.interceptors = append(c.interceptors, gi.fns...)
					}
				}
			}
		}
		if ps.grpcConns == nil {
			ps.grpcConns = map[*value]*grpcConn{}
		}
		ps.grpcConns[&cell] = c
		return tuple{&cell, iface{}}
	}
	conn := func(fr *frame, v value) *grpcConn {
		if fr.i.ps == nil {
			unsupported("grpc connection used outside a path")
		}
		c := fr.i.ps.grpcConnOf(v)
		if c == nil {
			unsupported("grpc connection not created by the modelled grpc.NewClient")
		}
		return c
	}
	externals["(*"+pkg+".ClientConn).Target"] = func(fr *frame, args []value) value { return conn(fr, args[0]).target }
	externals["(*"+pkg+".ClientConn).Close"] = func(fr *frame, args []value) value {
		conn(fr, args[0]).closed = true
		return iface{}
	}
	externals["(*"+pkg+".ClientConn).GetState"] = func(fr *frame, args []value) value {
		// connectivity.State: Idle = 0, Shutdown = 4
		if conn(fr, args[0]).closed {
			return int(4)
		}
		return int(0)
	}
	externals["(*"+pkg+".ClientConn).Invoke"] = func(fr *frame, args []value) value {
		c := conn(fr, args[0])
		if len(c.interceptors) == 0 {
			unsupported("gRPC call without an interceptor that ends it: network I/O is not modelled")
		}
		// interceptor(ctx, method, req, reply, cc, invoker, opts...)
		// the invoker is nil: an interceptor that hands the call on would reach the network
		return call(fr.i, fr, token.NoPos, c.interceptors[0], []value{args[1], args[2], args[3], args[4], args[0], (*ssa.Function)(nil), args[5]})
	}
}
