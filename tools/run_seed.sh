#!/bin/bash
# usage: run_seed.sh <seed dir name> [tier] : applies the seeded change to /repo, runs the property's check, undoes the change
set -u
seed=$1; tier=${2:-quick}
pid=${seed%%-*}
cd /repo && git apply /verif/seeded/$seed/patch.diff || exit 3
/verif/bin/gosym check $pid --tier $tier 2>&1 | grep -v "^WARNING" | grep -v "^gosym: C" | tail -6
rc=${PIPESTATUS[0]}
git -C /repo checkout -- . 
echo "exit=$rc"
