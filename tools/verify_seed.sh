#!/bin/bash
# usage: verify_seed.sh <ID> <worktree> <pkgdir> <demo test file in worktree> <demo run regex>
# Confirms in the scratch worktree: existing tests pass with the change; demo fails with it, passes without.
set -u
export GOFLAGS=-mod=mod GOPROXY=off GOSUMDB=off GOTOOLCHAIN=local
id=$1; wt=$2; pkg=$3; demo=$4; rx=$5
cd $wt || exit 2
git diff -- . ':!*_test.go' > /tmp/seed-$id/patch.check.diff
echo "--- existing tests with change (demo excluded)"
mv $demo /tmp/seed-$id/_demo_hold.go
go test -vet=off -count=1 ./$pkg/ 2>&1 | tail -2
mv /tmp/seed-$id/_demo_hold.go $demo
echo "--- demo with change (expect FAIL)"
go test -vet=off -count=1 -run "$rx" ./$pkg/ 2>&1 | tail -3
echo "--- demo without change (expect ok)"
git apply -R /tmp/seed-$id/patch.check.diff
go test -vet=off -count=1 -run "$rx" ./$pkg/ 2>&1 | tail -2
git apply /tmp/seed-$id/patch.check.diff
