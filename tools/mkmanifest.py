#!/usr/bin/env python3
"""Regenerates /verif/MANIFEST.json from harness/*/check.json and not_applicable.json."""
import json, os, glob, sys
root = os.path.dirname(os.path.dirname(os.path.abspath(__file__)))
props = [json.loads(l) for l in open(os.path.join(root, 'properties.jsonl'))]
na_path = os.path.join(root, 'not_applicable.json')
na_reasons = json.load(open(na_path)) if os.path.exists(na_path) else {}
checks = []
claimed = set()
for p in props:
    pid = p['id']
    cj = os.path.join(root, 'harness', pid, 'check.json')
    if not os.path.exists(cj):
        continue
    c = json.load(open(cj))
    if c.get('disabled'):
        continue
    claimed.add(pid)
    note = "Trusted base: go/packages + go/ssa (x/tools v0.29.0), the gosym interpreter core and its intrinsics (cross-checked on every run by native replay of sampled path models), z3 4.8.12. Bounds (quick): %s. Bounds (thorough): %s. Assumptions: %s." % (
        c['bounds'].get('quick', ''), c['bounds'].get('thorough', ''), '; '.join(c.get('assumptions', [])) or 'none')
    if c.get('not_covered'):
        note += " NOT covered (outside the claim): " + '; '.join(c['not_covered']) + "."
    checks.append({
        "property_id": pid,
        "quick_cmd": "/verif/bin/gosym check %s --tier quick" % pid,
        "thorough_cmd": "/verif/bin/gosym check %s --tier thorough" % pid,
        "evidence_file": "/verif/evidence/%s.json" % pid,
        "replay_cmd_template": "/verif/bin/gosym replay {path}",
        "engine": "gosym",
        "level_claimed": {
            "category": "model_checking",
            "text": c.get('level_text') or ("Bounded symbolic model checking of the implementation: the real functions' go/ssa form is executed on symbolic inputs; every branch and every assertion is an SMT query, so within the stated bounds the verdict covers all values of the symbolic inputs; nothing is claimed outside the bounds. " + c.get('title', '')),
            "design_ref": "DESIGN.md section 6, " + pid,
        },
        "level_note": note,
        "technique": "solver-based bounded symbolic execution of the real Go code (own go/ssa executor + z3), counterexamples replayed natively",
    })
not_applicable = []
for p in props:
    if p['id'] not in claimed:
        not_applicable.append({"property_id": p['id'], "reason": na_reasons.get(p['id'], "check not built yet in this session; planned per DESIGN.md section 9")})
m = {
    "version": 1,
    "setup_cmd": "cd /verif/engine && GOFLAGS=-mod=mod GOPROXY=off GOSUMDB=off GOTOOLCHAIN=local go build -o /verif/bin/gosym ./cmd/gosym",
    "hooks": {
        "guard": "verif",
        "enable": "no hooks are committed in /repo: harnesses and the internal/zzverif package are injected by overlay (go/packages Overlay; go test -tags verif -overlay)",
        "baseline_off_cmd": json.load(open('/root/.vp/BASELINE.json'))['cmd'],
        "source_commits": [],
        "add_only": True,
    },
    "engines": [{"name": "gosym", "path": "/verif/engine", "serves_properties": sorted(claimed),
                 "kind_free_text": "forking symbolic interpreter over go/ssa (fork of x/tools go/ssa/interp v0.29.0) with SMT back end (z3 over pipes)"}],
    "checks": checks,
    "not_applicable": not_applicable,
    "notes": "Exit codes of every check: 0 held within bounds, 1 violation (replayed natively), 2 inconclusive (never reported as success). See DESIGN.md.",
}
json.dump(m, open(os.path.join(root, 'MANIFEST.json'), 'w'), indent=1)
print("claimed:", sorted(claimed))
