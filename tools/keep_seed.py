#!/usr/bin/env python3
"""keep_seed.py <ID> <seq> <pkgdir> <demo-regex> '<needs>' : copies a verified seed into /verif/seeded/<ID>-<seq>/"""
import sys, os, shutil, json
pid, seq, pkgdir, rx, needs = sys.argv[1:6]
src = '/tmp/seed-%s' % pid
dst = '/verif/seeded/%s-%s' % (pid, seq)
os.makedirs(dst, exist_ok=True)
shutil.copy(os.path.join(src, 'patch.check.diff'), os.path.join(dst, 'patch.diff'))
shutil.copy(os.path.join(src, 'demo_test.go'), os.path.join(dst, 'demo_test.go.txt'))
if os.path.exists(os.path.join(src, 'notes.md')):
    shutil.copy(os.path.join(src, 'notes.md'), os.path.join(dst, 'notes.md'))
meta = {
 "property": pid,
 "needs_to_manifest": needs,
 "demo": {"file": "demo_test.go.txt", "package_dir": pkgdir, "run": rx},
 "verified": "tools/verify_seed.sh: existing package tests pass with the change; demo fails with the change and passes without (scratch worktree, removed afterwards)",
 "source": "independent sub-agent given only the property text and a scratch worktree",
 "detected_by": None,
}
json.dump(meta, open(os.path.join(dst, 'meta.json'), 'w'), indent=1)
print(dst)
