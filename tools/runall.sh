#!/bin/bash
# runs every claimed check (quick by default) and prints its result lines
tier=${1:-quick}
root=${VERIF_ROOT:-/verif}
for d in $root/harness/C*/; do
  id=$(basename $d)
  [ -f $d/check.json ] || continue
  start=$(date +%s)
  $root/bin/gosym check $id --tier $tier 2>/dev/null | grep -v "^WARNING" | grep "INCONCLUSIVE\|VIOLATION\|NOTE\|$id $tier:" | cut -c1-400
  echo "  ($id $tier took $(( $(date +%s) - start )) s)"
done
