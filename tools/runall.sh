#!/bin/bash
# runs every claimed check (quick by default) and prints one line each
tier=${1:-quick}
for d in /verif/harness/C*/; do
  id=$(basename $d)
  [ -f $d/check.json ] || continue
  out=$(/verif/bin/gosym check $id --tier $tier 2>/dev/null | grep -v "^WARNING" | tail -1)
  echo "$out"
done
