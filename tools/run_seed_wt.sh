#!/bin/bash
# usage: run_seed_wt.sh <patch file | seed dir name> <ID> [gosym check args...]
# Runs a property's check against a scratch worktree of /repo with a seeded
# change applied (so /repo itself stays untouched and other runs against it
# are not disturbed), then removes the worktree. Evidence is not written.
set -u
p=$1; pid=$2; shift 2
[ -f "$p" ] || p=/verif/seeded/$p/patch.diff
wt=$(mktemp -d /tmp/wt-run-XXXXXX); rmdir $wt
git -C /repo worktree add --detach $wt HEAD -q || exit 3
( cd $wt && git apply $p ) || { git -C /repo worktree remove --force $wt; exit 3; }
export GOFLAGS=-mod=mod GOPROXY=off GOSUMDB=off GOTOOLCHAIN=local
VERIF_REPO=$wt GOSYM_NO_EVIDENCE=1 GOSYM_WORK_SUFFIX=-seed$$ /verif/bin/gosym check $pid "$@" 2>&1 | grep -v "^WARNING" | grep -v "^gosym: C" | sed "s#$wt#/repo#g" | tail -6 | cut -c1-600
rc=${PIPESTATUS[0]}
git -C /repo worktree remove --force $wt
echo "exit=$rc"
