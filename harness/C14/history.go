//go:build verif

//gosym:package github.com/crossplane/crossplane/internal/controller/pkg/manager
//gosym:file zz_c14_history_verif.go

package manager

import (
	"context"
	"errors"

	"github.com/google/go-containerregistry/pkg/name"
	ggcr "github.com/google/go-containerregistry/pkg/v1"
	corev1 "k8s.io/api/core/v1"
	metav1 "k8s.io/apimachinery/pkg/apis/meta/v1"
	"k8s.io/apimachinery/pkg/types"
	"k8s.io/utils/ptr"
	"sigs.k8s.io/controller-runtime/pkg/reconcile"

	v1 "github.com/crossplane/crossplane/apis/pkg/v1"
	"github.com/crossplane/crossplane/internal/xpkg"
	zz "github.com/crossplane/crossplane/internal/zzverif"
	"github.com/crossplane/crossplane/internal/zzverif/kube"
)

var (
	zzSources = []string{"xpkg.example.org/org/provider-x:v1.0.0", "xpkg.example.org/org/provider-x:v2.0.0", "xpkg.example.org/org/provider-x:v3.0.0"}
	zzDigests = []string{
		"1111111111111111111111111111111111111111111111111111111111111111",
		"2222222222222222222222222222222222222222222222222222222222222222",
		"3333333333333333333333333333333333333333333333333333333333333333",
	}
)

// zzRegistry answers HEAD requests: a fixed digest per tag, or a failure
// when the harness says so.
type zzRegistry struct {
	fail  bool
	heads int
}

func (r *zzRegistry) Fetch(context.Context, name.Reference, ...string) (ggcr.Image, error) {
	return nil, errors.New("not modelled")
}
func (r *zzRegistry) Tags(context.Context, name.Reference, ...string) ([]string, error) {
	return nil, errors.New("not modelled")
}
func (r *zzRegistry) Head(_ context.Context, ref name.Reference, _ ...string) (*ggcr.Descriptor, error) {
	r.heads++
	if r.fail {
		return nil, errors.New("registry unavailable")
	}
	for i, s := range zzSources {
		if ref.String() == s {
			return &ggcr.Descriptor{Digest: ggcr.Hash{Algorithm: "sha256", Hex: zzDigests[i]}}, nil
		}
	}
	return nil, errors.New("unknown image")
}

// HarnessC14History: a sequence of package source edits (including
// rollbacks) interleaved with reconciles during which the registry may be
// unavailable, under every pull policy, with the real PackageRevisioner.
// After every reconcile that reports success the revision for the package's
// current source exists, is numbered last and is the only Active one.
//
//gosym:harness
//gosym:cover registry-failure source-edit rollback success-after-failure dotted-package-name
func HarnessC14History() {
	// a plain name, or one that is a DNS subdomain but not a DNS label
	zzPkgName = []string{"provider-x", "acme.io-provider-x"}[zz.Choose("package.name", 2)]
	if zzPkgName != "provider-x" {
		zz.Cover("dotted-package-name")
	}
	s := kube.New()
	s.Register(&v1.Provider{}, &v1.ProviderList{}, zzPkgGroup, "Provider")
	s.Register(&v1.ProviderRevision{}, &v1.ProviderRevisionList{}, zzPkgGroup, "ProviderRevision")

	p := &v1.Provider{ObjectMeta: metav1.ObjectMeta{Name: zzPkgName, UID: zzPkgUID}}
	cur := 0
	p.Spec.Package = zzSources[cur]
	policy := zz.Choose("pullPolicy", 3)
	switch policy {
	case 1:
		p.Spec.PackagePullPolicy = ptr.To(corev1.PullAlways)
	case 2:
		p.Spec.PackagePullPolicy = ptr.To(corev1.PullIfNotPresent)
	}
	s.Put(p)
	s.OnMutate = zzAtMostOneActive(s)

	reg := &zzRegistry{}
	r := NewReconciler(&zzManager{c: s},
		WithNewPackageFn(func() v1.Package { return &v1.Provider{} }),
		WithNewPackageRevisionFn(func() v1.PackageRevision { return &v1.ProviderRevision{} }),
		WithNewPackageRevisionListFn(func() v1.PackageRevisionList { return &v1.ProviderRevisionList{} }),
		WithRevisioner(NewPackageRevisioner(reg)),
		WithConfigStore(zzConfig{}),
	)
	req := reconcile.Request{NamespacedName: types.NamespacedName{Name: zzPkgName}}

	steps := zz.Bound(4, 5)
	failedBefore := false
	seen := map[int]bool{}
	for step := 0; step < steps; step++ {
		n := "step" + string(rune('0'+step))
		// the user may edit the package source (forward or back)
		if step > 0 && zz.Bool(n+".edit") {
			next := zz.Choose(n+".source", len(zzSources))
			if next != cur {
				zz.Cover("source-edit")
				if seen[next] {
					zz.Cover("rollback")
				}
				stored := &v1.Provider{}
				s.Peek("", zzPkgName, stored)
				stored.Spec.Package = zzSources[next]
				s.Put(stored)
				cur = next
			}
		}
		reg.fail = zz.Bool(n + ".registryDown")
		res, err := r.Reconcile(context.Background(), req)
		if reg.fail {
			zz.Cover("registry-failure")
		}
		if err != nil || res.Requeue {
			failedBefore = true
			continue
		}
		if failedBefore {
			zz.Cover("success-after-failure")
		}
		seen[cur] = true
		// the revision for the current source exists, is numbered last, and is Active
		want := xpkg.FriendlyID(zzPkgName, zzDigests[cur])
		var curRev *zzRevState
		revs := zzStoredRevisions(s)
		for i := range revs {
			if revs[i].name == want {
				curRev = &revs[i]
			}
		}
		zz.Assert("revision-for-current-source-exists", curRev != nil)
		if curRev == nil {
			return
		}
		zz.Assert("revision-for-current-source-active", curRev.active)
		for _, o := range revs {
			if o.name != want {
				zz.Assert("revision-for-current-source-numbered-last", curRev.number > o.number)
				zz.Assert("other-revisions-inactive", !o.active)
			}
		}
		stored := &v1.Provider{}
		s.Peek("", zzPkgName, stored)
		zz.Assert("status-names-current-revision", stored.Status.CurrentRevision == want)
		// one revision per digest ever resolved: re-resolving creates nothing new
		zz.Assert("one-revision-per-digest", len(revs) <= len(zzSources))
	}
	zz.Observe("heads", reg.heads, s.Count(zzPkgGroup, "ProviderRevision"))
}
