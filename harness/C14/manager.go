//go:build verif

//gosym:package github.com/crossplane/crossplane/internal/controller/pkg/manager
//gosym:file zz_c14_manager_verif.go

package manager

import (
	"context"

	"k8s.io/apimachinery/pkg/types"
	ctrl "sigs.k8s.io/controller-runtime"
	"sigs.k8s.io/controller-runtime/pkg/client"
	"sigs.k8s.io/controller-runtime/pkg/reconcile"

	v1 "github.com/crossplane/crossplane/apis/pkg/v1"
	"github.com/crossplane/crossplane/apis/pkg/v1beta1"
	zz "github.com/crossplane/crossplane/internal/zzverif"
	"github.com/crossplane/crossplane/internal/zzverif/kube"

	metav1 "k8s.io/apimachinery/pkg/apis/meta/v1"
	"k8s.io/utils/ptr"
)

const (
	zzPkgGroup = "pkg.crossplane.io"
	zzPkgUID   = "uid-provider-x"
)

// zzManager hands the store out as the manager's client.
type zzManager struct {
	ctrl.Manager
	c client.Client
}

func (m *zzManager) GetClient() client.Client { return m.c }

// zzRevisioner is the registry: it answers the revision name the package's
// current source resolves to.
type zzRevisioner struct{ name string }

func (r *zzRevisioner) Revision(context.Context, v1.Package, ...string) (string, error) {
	return r.name, nil
}

type zzConfig struct{}

func (zzConfig) PullSecretFor(context.Context, string) (string, string, error) { return "", "", nil }
func (zzConfig) ImageVerificationConfigFor(context.Context, string) (string, *v1beta1.ImageVerification, error) {
	return "", nil, nil
}

var zzRevNames = []string{"provider-x-aaaa", "provider-x-bbbb", "provider-x-cccc"}

const zzNewRev = "provider-x-new0"

type zzRevState struct {
	name   string
	number int64
	active bool
}

func zzStoredRevisions(s *kube.Store) []zzRevState {
	var out []zzRevState
	s.Each(func(group, kind, _ string, name string, doc map[string]any) {
		if group != zzPkgGroup || kind != "ProviderRevision" {
			return
		}
		spec, _ := doc["spec"].(map[string]any)
		n, _ := spec["revision"].(int64)
		st, _ := spec["desiredState"].(string)
		out = append(out, zzRevState{name: name, number: n, active: st == string(v1.PackageRevisionActive)})
	})
	return out
}

func zzSetup(nRev int) (*kube.Store, *v1.Provider, []zzRevState) {
	s := kube.New()
	s.Register(&v1.Provider{}, &v1.ProviderList{}, zzPkgGroup, "Provider")
	s.Register(&v1.ProviderRevision{}, &v1.ProviderRevisionList{}, zzPkgGroup, "ProviderRevision")

	p := &v1.Provider{ObjectMeta: metav1.ObjectMeta{Name: zzPkgName, UID: zzPkgUID}}
	p.Spec.Package = "xpkg.example.org/org/provider-x:v1.0.0"
	switch zz.Choose("historyLimit", 4) {
	case 0: // unset
	case 1:
		p.Spec.RevisionHistoryLimit = ptr.To(int64(0))
	case 2:
		p.Spec.RevisionHistoryLimit = ptr.To(int64(1))
	case 3:
		p.Spec.RevisionHistoryLimit = ptr.To(int64(2))
	}
	if zz.Bool("manualActivation") {
		p.Spec.RevisionActivationPolicy = ptr.To(v1.ManualActivation)
	}
	s.Put(p)

	n := zz.Choose("revisions", nRev+1)
	var pre []zzRevState
	anyActive := false
	for i := 0; i < n; i++ {
		nm := "rev" + string(rune('0'+i))
		num := zz.Int64(nm + ".number")
		zz.Assume(num >= 1)
		zz.Assume(num < 1<<40)
		for _, o := range pre {
			zz.Assume(o.number != num)
		}
		active := zz.Bool(nm + ".active")
		// representation invariant established by every earlier reconcile:
		// at most one revision is Active
		zz.Assume(zz.Not(zz.And(active, anyActive)))
		anyActive = zz.Or(anyActive, active)
		r := &v1.ProviderRevision{ObjectMeta: metav1.ObjectMeta{
			Name:   zzRevNames[i],
			Labels: map[string]string{v1.LabelParentPackage: zzPkgName},
			OwnerReferences: []metav1.OwnerReference{{
				APIVersion: v1.SchemeGroupVersion.String(), Kind: "Provider", Name: zzPkgName, UID: zzPkgUID,
				Controller: ptr.To(true), BlockOwnerDeletion: ptr.To(true),
			}},
		}}
		r.Spec.Revision = num
		r.Spec.Package = "xpkg.example.org/org/provider-x:v0." + string(rune('0'+i))
		r.Spec.DesiredState = v1.PackageRevisionInactive
		if active {
			r.Spec.DesiredState = v1.PackageRevisionActive
		}
		s.Put(r)
		pre = append(pre, zzRevState{name: zzRevNames[i], number: num, active: active})
	}
	return s, p, pre
}

func zzReconciler(s *kube.Store, current string) *Reconciler {
	return NewReconciler(&zzManager{c: s},
		WithNewPackageFn(func() v1.Package { return &v1.Provider{} }),
		WithNewPackageRevisionFn(func() v1.PackageRevision { return &v1.ProviderRevision{} }),
		WithNewPackageRevisionListFn(func() v1.PackageRevisionList { return &v1.ProviderRevisionList{} }),
		WithRevisioner(&zzRevisioner{name: current}),
		WithConfigStore(zzConfig{}),
	)
}

// zzAtMostOneActive is the invariant checked after every store mutation.
func zzAtMostOneActive(s *kube.Store) func() {
	return func() {
		n := 0
		for _, r := range zzStoredRevisions(s) {
			if r.active {
				n++
			}
		}
		zz.Assert("at-most-one-active-at-every-instant", n <= 1)
	}
}

// zzPkgName is the package's name. HarnessC14History also runs with a name
// that is not a DNS label (object names are DNS subdomains).
var zzPkgName = "provider-x"

// HarnessC14Reconcile: one fault-free package reconcile from an arbitrary
// valid pre-state (0..N existing revisions with symbolic revision numbers
// and activity, any history limit, either activation policy, the source
// resolving to any existing revision or to a new one), then a second one.
//
//gosym:harness
//gosym:cover gc-delete current-existed current-new rollback-to-older
func HarnessC14Reconcile() {
	zzPkgName = "provider-x"
	nRev := zz.Bound(3, 3)
	s, p, pre := zzSetup(nRev)

	// the digest the registry answers: one of the existing revisions, or new
	cur := zzNewRev
	if k := zz.Choose("currentIs", len(pre)+1); k < len(pre) {
		cur = pre[k].name
		zz.Cover("current-existed")
	} else {
		zz.Cover("current-new")
	}

	s.OnMutate = zzAtMostOneActive(s)
	r := zzReconciler(s, cur)
	res, err := r.Reconcile(context.Background(), reconcile.Request{NamespacedName: types.NamespacedName{Name: zzPkgName}})
	zz.Assert("reconcile-no-error", err == nil)
	if err != nil || res.Requeue {
		return
	}

	post := zzStoredRevisions(s)
	limit := p.Spec.RevisionHistoryLimit

	// the current revision exists, is numbered last, is Active unless manual
	var curRev *zzRevState
	for i := range post {
		if post[i].name == cur {
			curRev = &post[i]
		}
	}
	zz.Assert("current-revision-exists", curRev != nil)
	if curRev == nil {
		return
	}
	for _, o := range post {
		if o.name != cur {
			zz.Assert("current-revision-numbered-last", curRev.number > o.number)
			zz.Assert("others-inactive", zz.Not(o.active))
		}
	}
	wasActive := false
	for _, o := range pre {
		if o.name == cur {
			wasActive = o.active
			for _, q := range pre {
				if q.name != cur {
					if zz.Bool("witness-rollback") { // cover only: current was not the newest
						zz.Assume(q.number > o.number)
						zz.Cover("rollback-to-older")
					}
				}
			}
		}
	}
	if p.Spec.RevisionActivationPolicy == nil {
		zz.Assert("current-revision-active", curRev.active)
	} else {
		zz.Assert("manual-activation-respected", curRev.active == wasActive)
	}

	// history garbage collection
	var deleted []string
	for _, c := range s.Writes(false) {
		if c.Verb == kube.VerbDelete {
			deleted = append(deleted, c.Name)
		}
	}
	gcDue := limit != nil && *limit != 0 && int64(len(pre)) > *limit+1
	if len(deleted) > 0 {
		zz.Cover("gc-delete")
	}
	zz.Assert("gc-only-when-due", len(deleted) == 0 || gcDue)
	zz.Assert("gc-deletes-at-most-one", len(deleted) <= 1)
	for _, d := range deleted {
		zz.Assert("gc-spares-current-revision", d != cur)
		var dn int64
		for _, o := range pre {
			if o.name == d {
				dn = o.number
			}
		}
		for _, o := range pre {
			if o.name != cur && o.name != d {
				zz.Assert("gc-deletes-oldest-non-current", dn < o.number)
			}
		}
	}

	// re-resolving the same image creates nothing new
	before := s.Count(zzPkgGroup, "ProviderRevision")
	r2 := zzReconciler(s, cur)
	_, err2 := r2.Reconcile(context.Background(), reconcile.Request{NamespacedName: types.NamespacedName{Name: zzPkgName}})
	zz.Assert("second-reconcile-no-error", err2 == nil)
	zz.Assert("second-reconcile-creates-no-revision", s.Count(zzPkgGroup, "ProviderRevision") <= before)
	zz.Observe("post", len(post), len(deleted), curRev.active)
}

// HarnessC14Faults: a package reconcile interrupted at any API call (error
// without effect, error after effect, conflict) from an arbitrary valid
// pre-state, followed by a fault-free retry. At every instant at most one
// revision is Active; the interrupted reconcile deletes at most one revision
// and never the current one; after the retry the current revision exists, is
// numbered last and is Active (unless activation is manual) and all others
// are inactive.
//
//gosym:harness
//gosym:cover fault-hit conflict-hit retried-ok
func HarnessC14Faults() {
	zzPkgName = "provider-x"
	nRev := zz.Bound(2, 3)
	s, p, pre := zzSetup(nRev)
	cur := zzNewRev
	if k := zz.Choose("currentIs", len(pre)+1); k < len(pre) {
		cur = pre[k].name
	}
	s.OnMutate = zzAtMostOneActive(s)
	req := reconcile.Request{NamespacedName: types.NamespacedName{Name: zzPkgName}}

	s.FaultAt = zz.Choose("fault.at", zz.Bound(8, 10))
	s.FaultKind = 1 + zz.Choose("fault.kind", 3)
	_, _ = zzReconciler(s, cur).Reconcile(context.Background(), req)
	if s.Faulted {
		zz.Cover("fault-hit")
		if s.FaultKind == kube.FaultConflict {
			zz.Cover("conflict-hit")
		}
	}
	s.FaultAt = -1
	deleted := 0
	for _, c := range s.Writes(false) {
		if c.Verb == kube.VerbDelete && c.Effect {
			deleted++
			zz.Assert("interrupted-reconcile-never-deletes-the-current-revision", c.Name != cur)
		}
	}
	zz.Assert("interrupted-reconcile-deletes-at-most-one-revision", deleted <= 1)

	// retry until the reconcile settles (a conflict asks for a requeue)
	var res reconcile.Result
	var err error
	for try := 0; try < 2; try++ {
		res, err = zzReconciler(s, cur).Reconcile(context.Background(), req)
		if err == nil && !res.Requeue {
			break
		}
	}
	zz.Assert("retry-settles", err == nil && !res.Requeue)
	if err != nil || res.Requeue {
		return
	}
	zz.Cover("retried-ok")
	post := zzStoredRevisions(s)
	var curRev *zzRevState
	for i := range post {
		if post[i].name == cur {
			curRev = &post[i]
		}
	}
	zz.Assert("current-revision-exists-after-retry", curRev != nil)
	if curRev == nil {
		return
	}
	for _, o := range post {
		if o.name != cur {
			zz.Assert("current-revision-numbered-last-after-retry", curRev.number > o.number)
			zz.Assert("others-inactive-after-retry", zz.Not(o.active))
		}
	}
	if p.Spec.RevisionActivationPolicy == nil {
		zz.Assert("current-revision-active-after-retry", curRev.active)
	}
}

// HarnessC14PreviousIncarnation: the package was deleted and created again
// under its name; a revision of the previous incarnation is still there -
// labelled with the package's name, controlled by the old package's UID,
// Active or not - and the new package's source resolves to another digest.
// Whatever the reconciles (two of them) make of that revision, at no instant
// are two revisions that carry the package's label Active.
//
//gosym:harness
//gosym:cover old-revision-active old-revision-inactive
func HarnessC14PreviousIncarnation() {
	zzPkgName = "provider-x"
	s := kube.New()
	s.Register(&v1.Provider{}, &v1.ProviderList{}, zzPkgGroup, "Provider")
	s.Register(&v1.ProviderRevision{}, &v1.ProviderRevisionList{}, zzPkgGroup, "ProviderRevision")
	p := &v1.Provider{ObjectMeta: metav1.ObjectMeta{Name: zzPkgName, UID: zzPkgUID}}
	p.Spec.Package = "xpkg.example.org/org/provider-x:v1.0.0"
	if zz.Bool("manualActivation") {
		p.Spec.RevisionActivationPolicy = ptr.To(v1.ManualActivation)
	}
	s.Put(p)
	old := &v1.ProviderRevision{ObjectMeta: metav1.ObjectMeta{
		Name:   zzRevNames[0],
		Labels: map[string]string{v1.LabelParentPackage: zzPkgName},
		OwnerReferences: []metav1.OwnerReference{{
			APIVersion: v1.SchemeGroupVersion.String(), Kind: "Provider", Name: zzPkgName, UID: "uid-of-the-deleted-package",
			Controller: ptr.To(true), BlockOwnerDeletion: ptr.To(true),
		}},
	}}
	old.Spec.Revision = 1 + zz.Int64("old.number")
	zz.Assume(old.Spec.Revision >= 1)
	zz.Assume(old.Spec.Revision < 1<<40)
	old.Spec.Package = "xpkg.example.org/org/provider-x:v0.9.0"
	old.Spec.DesiredState = v1.PackageRevisionInactive
	if zz.Bool("old.active") {
		zz.Cover("old-revision-active")
		old.Spec.DesiredState = v1.PackageRevisionActive
	} else {
		zz.Cover("old-revision-inactive")
	}
	s.Put(old)

	s.OnMutate = zzAtMostOneActive(s)
	r := zzReconciler(s, zzNewRev)
	for k := 0; k < 2; k++ {
		_, _ = r.Reconcile(context.Background(), reconcile.Request{NamespacedName: types.NamespacedName{Name: zzPkgName}})
	}
	n := 0
	for _, rv := range zzStoredRevisions(s) {
		if rv.active {
			n++
		}
	}
	zz.Assert("at-most-one-active-at-the-end", n <= 1)
}

// HarnessC14TerminatingRevision: the Active revision of the package is being
// deleted - it carries a deletion timestamp and is held by a finalizer - when
// the package's source moves to a new digest. It is still there and still
// Active, so it is deactivated before the new revision is activated: at no
// instant are two revisions Active, and the new revision's number is above it.
//
//gosym:harness
//gosym:cover terminating
func HarnessC14TerminatingRevision() {
	zzPkgName = "provider-x"
	s := kube.New()
	s.Register(&v1.Provider{}, &v1.ProviderList{}, zzPkgGroup, "Provider")
	s.Register(&v1.ProviderRevision{}, &v1.ProviderRevisionList{}, zzPkgGroup, "ProviderRevision")
	p := &v1.Provider{ObjectMeta: metav1.ObjectMeta{Name: zzPkgName, UID: zzPkgUID}}
	p.Spec.Package = "xpkg.example.org/org/provider-x:v1.0.0"
	s.Put(p)
	now := metav1.Now()
	old := &v1.ProviderRevision{ObjectMeta: metav1.ObjectMeta{
		Name:              zzRevNames[0],
		Labels:            map[string]string{v1.LabelParentPackage: zzPkgName},
		Finalizers:        []string{"revision.pkg.crossplane.io"},
		DeletionTimestamp: &now,
		OwnerReferences: []metav1.OwnerReference{{
			APIVersion: v1.SchemeGroupVersion.String(), Kind: "Provider", Name: zzPkgName, UID: zzPkgUID,
			Controller: ptr.To(true), BlockOwnerDeletion: ptr.To(true),
		}},
	}}
	old.Spec.Revision = 1 + zz.Int64("old.number")
	zz.Assume(old.Spec.Revision >= 1)
	zz.Assume(old.Spec.Revision < 1<<40)
	old.Spec.Package = "xpkg.example.org/org/provider-x:v0.9.0"
	old.Spec.DesiredState = v1.PackageRevisionActive
	s.Put(old)
	zz.Cover("terminating")

	s.OnMutate = zzAtMostOneActive(s)
	r := zzReconciler(s, zzNewRev)
	_, err := r.Reconcile(context.Background(), reconcile.Request{NamespacedName: types.NamespacedName{Name: zzPkgName}})
	zz.Assert("reconcile-no-error", err == nil)
	var oldNum, newNum int64 = -1, -1
	for _, rv := range zzStoredRevisions(s) {
		if rv.name == zzRevNames[0] {
			oldNum = rv.number
			zz.Assert("terminating-revision-is-deactivated", !rv.active)
		}
		if rv.name == zzNewRev {
			newNum = rv.number
		}
	}
	if oldNum >= 0 && newNum >= 0 {
		zz.Assert("current-revision-numbered-above-the-terminating-one", newNum > oldNum)
	}
}
