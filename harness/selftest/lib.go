//go:build verif

//gosym:package github.com/crossplane/crossplane/internal/xpkg
//gosym:file zz_selftest_verif.go

package xpkg

import (
	"fmt"
	"strings"
	"unicode/utf8"

	"github.com/google/go-containerregistry/pkg/name"

	zz "github.com/crossplane/crossplane/internal/zzverif"
)

// HarnessSelfTestLib runs library code on concrete inputs and records the
// results; native validation compares them with the compiled behaviour.
//
//gosym:harness
func HarnessSelfTestLib() {
	zz.Observe("map", strings.Map(func(r rune) rune {
		if strings.ContainsRune("abc", r) {
			return -1
		}
		return r
	}, "xaybzc"))
	zz.Observe("count", utf8.RuneCountInString("héllo"))
	zz.Observe("split", len(strings.Split("a:b:c", ":")), strings.Join(strings.Split("a:b:c", ":")[:2], "+"))
	for _, s := range []string{"crossplane-contrib/provider-aws:v1.0.0", "xpkg.upbound.io/crossplane-contrib/provider-aws:v1.0.0", "registry.example.org:5000/acme/p@sha256:ecc25c121431dfc7058754427f97c034ecde26d4aafa0da16d258090e0443904", "UPPER/x", "a b"} {
		ref, err := name.ParseReference(s, name.WithDefaultRegistry(""))
		if err != nil {
			zz.Observe("ref-err", s, err.Error())
			continue
		}
		zz.Observe("ref", ref.String(), ref.Context().RepositoryStr(), ref.Context().RegistryStr(), ref.Identifier(), ParsePackageSourceFromReference(ref))
		zz.Observe("dns", ToDNSLabel(ref.Context().RepositoryStr()))
	}
	zz.Observe("fmt", fmt.Sprintf("%s|%d|%v|%q|%5d|%-4s|%t|%x", "s", 42, int64(7), "q", 3, "ab", true, 255))
	zz.Observe("fmt2", fmt.Sprintf("%v %v", []string{"a", "b"}, map[string]int{"k": 1}))
	zz.Observe("errf", fmt.Errorf("wrap: %w", fmt.Errorf("inner %d", 1)).Error())
}
