//go:build verif

//gosym:package github.com/crossplane/crossplane/internal/names
//gosym:file zz_c06_names_verif.go

package names

import (
	"context"

	metav1 "k8s.io/apimachinery/pkg/apis/meta/v1"

	"github.com/crossplane/crossplane-runtime/pkg/resource/unstructured/composite"

	zz "github.com/crossplane/crossplane/internal/zzverif"
	"github.com/crossplane/crossplane/internal/zzverif/kube"
)

// zzNamer proposes candidates from a fixed list (the real one appends a
// random suffix).
type zzNamer struct {
	candidates []string
	next       int
}

func (n *zzNamer) GenerateName(base string) string {
	c := n.candidates[n.next%len(n.candidates)]
	n.next++
	return base + c
}

// HarnessC06Names: the name an XR is created under is never the name of an
// object that exists - live or on its way out - because the object under that
// name may be another claim's XR; when every candidate is taken the generator
// gives up with an error.
//
//gosym:harness
//gosym:cover candidate-taken candidate-terminating name-chosen gave-up
func HarnessC06Names() {
	s := kube.New()
	cands := []string{"aaaaa", "bbbbb", "ccccc"}
	states := make([]int, len(cands))
	now := metav1.Now()
	for i, c := range cands {
		states[i] = zz.Choose("candidate"+string(rune('0'+i))+".state", 3) // free, taken, taken by an object being deleted
		if states[i] == 0 {
			continue
		}
		x := composite.New()
		x.SetAPIVersion("example.org/v1")
		x.SetKind("XR")
		x.SetName("cm-" + c)
		x.Object["spec"] = map[string]any{"claimRef": map[string]any{"apiVersion": "example.org/v1", "kind": "Claim", "name": "cm", "namespace": "other"}}
		if states[i] == 2 {
			x.SetFinalizers([]string{"composite.apiextensions.crossplane.io"})
			x.SetDeletionTimestamp(&now)
			zz.Cover("candidate-terminating")
		} else {
			zz.Cover("candidate-taken")
		}
		s.Put(x)
	}
	g := &nameGenerator{reader: s, namer: &zzNamer{candidates: cands}}
	xr := composite.New()
	xr.SetAPIVersion("example.org/v1")
	xr.SetKind("XR")
	xr.SetGenerateName("cm-")
	err := g.GenerateName(context.Background(), xr)
	if err != nil {
		zz.Cover("gave-up")
		zz.Assert("gives-up-only-when-every-candidate-is-taken", states[0] != 0 && states[1] != 0 && states[2] != 0)
		zz.Assert("no-name-set-on-failure", xr.GetName() == "")
		return
	}
	zz.Cover("name-chosen")
	zz.Assert("a-name-was-chosen", xr.GetName() != "")
	zz.Assert("chosen-name-belongs-to-no-existing-object", !s.Exists("example.org", "XR", "", xr.GetName()))
}
