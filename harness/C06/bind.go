//go:build verif

//gosym:package github.com/crossplane/crossplane/internal/controller/apiextensions/claim
//gosym:file zz_c06_bind_verif.go

package claim

import (
	"context"
	"reflect"

	kerrors "k8s.io/apimachinery/pkg/api/errors"
	metav1 "k8s.io/apimachinery/pkg/apis/meta/v1"
	"k8s.io/apimachinery/pkg/apis/meta/v1/unstructured"
	"k8s.io/apimachinery/pkg/runtime"
	"k8s.io/apimachinery/pkg/runtime/schema"
	"k8s.io/apimachinery/pkg/types"
	"sigs.k8s.io/controller-runtime/pkg/client"
	"sigs.k8s.io/controller-runtime/pkg/reconcile"

	"github.com/crossplane/crossplane-runtime/pkg/resource"
	"github.com/crossplane/crossplane-runtime/pkg/resource/unstructured/claim"
	"github.com/crossplane/crossplane-runtime/pkg/resource/unstructured/composite"

	"github.com/crossplane/crossplane/internal/names"
	zz "github.com/crossplane/crossplane/internal/zzverif"
	"github.com/crossplane/crossplane/internal/zzverif/kube"
)

// zzStale is a client whose reads of the claim come from a cache that may
// lag the store; everything else, and every write, goes to the store.
type zzStale struct {
	*kube.Store
	stale map[string]any // cached claim document, nil = cache is current
}

func (c *zzStale) Get(ctx context.Context, key client.ObjectKey, obj client.Object, opts ...client.GetOption) error {
	if c.stale != nil && obj.GetObjectKind().GroupVersionKind().Kind == "Claim" {
		obj.(runtime.Unstructured).SetUnstructuredContent(runtime.DeepCopyJSON(c.stale))
		return nil
	}
	return c.Store.Get(ctx, key, obj, opts...)
}

func zzXRsOfClaim(s *kube.Store) []string {
	var out []string
	s.Each(func(group, kind, _ string, name string, doc map[string]any) {
		if kind != "XR" {
			return
		}
		spec, _ := doc["spec"].(map[string]any)
		cr, _ := spec["claimRef"].(map[string]any)
		if cr != nil && cr["name"] == any("cm") && cr["namespace"] == any("team") {
			out = append(out, name)
		}
	})
	return out
}

func zzStoredClaimRef(s *kube.Store) string {
	doc := s.Doc("example.org", "Claim", "team", "cm")
	spec, _ := doc["spec"].(map[string]any)
	rr, _ := spec["resourceRef"].(map[string]any)
	n, _ := rr["name"].(string)
	return n
}

// zzBindInvariant holds at every instant: an XR that names this claim as its
// claim exists only if the stored claim durably references that XR.
func zzBindInvariant(s *kube.Store) func() {
	return func() {
		ref := zzStoredClaimRef(s)
		for _, x := range zzXRsOfClaim(s) {
			zz.Assert("xr-exists-only-after-claim-durably-references-it", x == ref)
		}
		zz.Assert("at-most-one-xr-per-claim-at-every-instant", len(zzXRsOfClaim(s)) <= 1)
	}
}

func zzClaimReconciler(c client.Client, ssa bool) *Reconciler {
	opts := []ReconcilerOption{}
	if ssa {
		opts = append(opts, WithCompositeSyncer(NewServerSideCompositeSyncer(c, names.NewNameGenerator(c))),
			WithManagedFieldsUpgrader(NewPatchingManagedFieldsUpgrader(c)))
	}
	return NewReconciler(c, resource.CompositeClaimKind(zzClaimGVK), resource.CompositeKind(zzXRGVK), opts...)
}

// HarnessC06Bind: a claim reconcile interrupted at any API call, retried;
// with a claim read from a stale cache; against an XR that belongs to another
// claim.
//
//gosym:harness
//gosym:cover fault-hit stale-read other-claims-xr bound deleted-claim concurrent-write read-timeout
func HarnessC06Bind() {
	s := kube.New()
	cm := claim.New(claim.WithGroupVersionKind(zzClaimGVK))
	cm.SetName("cm")
	cm.SetNamespace("team")
	cm.SetUID("uid-claim")
	cm.Object["spec"] = map[string]any{"param": "v"}

	// does the stored claim already reference an XR, and does that XR exist,
	// and whose is it?
	hasRef := zz.Bool("claim.hasResourceRef")
	xrState := zz.Choose("xr.state", 4) // absent, unbound, ours, another claim's
	// another claim differs from ours in its name or in its namespace
	otherName := zz.Str("other.claim.name")
	otherNS := zz.Str("other.claim.namespace")
	zz.Assume(zz.Or(otherName != "cm", otherNS != "team"))
	zz.Assume(otherName != "")
	zz.Assume(otherNS != "")
	if hasRef {
		cm.SetResourceReference(composite.New(composite.WithGroupVersionKind(zzXRGVK)).GetReference())
		cm.Object["spec"].(map[string]any)["resourceRef"] = map[string]any{"apiVersion": "example.org/v1", "kind": "XR", "name": "xr-pre"}
	}
	deleting := zz.Bool("claim.deleting")
	// a claim that records an XR got its finalizer in the same or an earlier
	// reconcile (the finalizer is added before the reference is recorded)
	if hasRef {
		cm.SetFinalizers([]string{finalizer})
	}
	if deleting {
		cm.SetFinalizers([]string{finalizer})
		now := metav1.Now()
		cm.SetDeletionTimestamp(&now)
	}
	s.Put(cm)
	var otherBefore map[string]any
	if hasRef && xrState != 0 {
		xr := composite.New(composite.WithGroupVersionKind(zzXRGVK))
		xr.SetName("xr-pre")
		xr.SetUID("uid-xr-pre")
		spec := map[string]any{"param": "old"}
		switch xrState {
		case 2:
			spec["claimRef"] = map[string]any{"apiVersion": "example.org/v1", "kind": "Claim", "name": "cm", "namespace": "team"}
		case 3:
			spec["claimRef"] = map[string]any{"apiVersion": "example.org/v1", "kind": "Claim", "name": otherName, "namespace": otherNS}
			zz.Cover("other-claims-xr")
		}
		xr.Object["spec"] = spec
		if zz.Bool("xr.clientSideApplied") {
			// last written with client-side apply: the managed-fields upgrade to
			// server-side apply has not begun for it
			xr.SetManagedFields([]metav1.ManagedFieldsEntry{{Manager: "crossplane", Operation: metav1.ManagedFieldsOperationUpdate}})
		}
		s.Put(xr)
		if xrState == 3 {
			otherBefore = runtime.DeepCopyJSON(s.Doc("example.org", "XR", "", "xr-pre"))
		}
	}

	ssa := zz.Bool("syncer.ssa")
	c := &zzStale{Store: s}
	// a stale cache: the reconciler sees the claim as it was before its
	// resourceRef was recorded
	stale := hasRef && zz.Bool("cache.stale")
	if stale {
		zz.Cover("stale-read")
		old := runtime.DeepCopyJSON(s.Doc("example.org", "Claim", "team", "cm"))
		delete(old["spec"].(map[string]any), "resourceRef")
		old["metadata"].(map[string]any)["resourceVersion"] = "0"
		c.stale = old
	}

	s.OnMutate = zzBindInvariant(s)
	r := zzClaimReconciler(c, ssa)
	req := reconcile.Request{NamespacedName: types.NamespacedName{Namespace: "team", Name: "cm"}}

	s.FaultAt = zz.Choose("fault.at", zz.Bound(10, 12)) - 1
	s.FaultKind = 1 + zz.Choose("fault.kind", 3)
	// a read that fails may fail as a timeout (the server did not answer in
	// time) instead of an internal error
	if s.FaultAt >= 0 && s.FaultKind == kube.FaultErrNoEffect && xrState == 3 && zz.Bool("fault.readTimesOut") {
		zz.Cover("read-timeout")
		s.ReadFaultErr = kerrors.NewServerTimeout(schema.GroupResource{Group: "example.org", Resource: "xrs"}, "get", 1)
	}
	if s.FaultAt < 0 && !stale {
		// instead of a fault: another actor writes the claim immediately before
		// the reconcile's j-th API call (what the reconciler holds is stale
		// from then on)
		raceAt := zz.Choose("otherWriter.at", zz.Bound(10, 12)) - 1
		s.BeforeCall = func(n int) {
			if n == raceAt {
				zz.Cover("concurrent-write")
				s.Touch("example.org", "Claim", "team", "cm")
			}
		}
	}
	xrsBefore := s.Count("example.org", "XR")
	_, _ = r.Reconcile(context.Background(), req)
	if s.Faulted {
		zz.Cover("fault-hit")
	}
	s.FaultAt = -1
	s.BeforeCall = nil
	if stale {
		// the stale claim update must be refused: no XR created or patched
		zz.Assert("stale-read-creates-no-xr", s.Count("example.org", "XR") == xrsBefore)
	}
	c.stale = nil // the cache catches up

	if zz.Tier() == "thorough" && s.Faulted {
		// thorough: the first retry is cut short by a second failure
		s.Faulted = false
		s.FaultAt = s.Calls() + zz.Choose("fault2.at", 10) - 1
		if s.FaultAt < s.Calls() {
			s.FaultAt = -1
		}
		s.FaultKind = 1 + zz.Choose("fault2.kind", 2)
		_, _ = r.Reconcile(context.Background(), req)
		if s.Faulted {
			zz.Cover("second-fault-hit")
		}
		s.FaultAt = -1
	}

	// retry
	_, err := r.Reconcile(context.Background(), req)
	if xrState == 3 {
		// an XR whose claim reference names a different claim is never touched
		zz.Assert("other-claims-xr-left-exactly-as-it-was", reflect.DeepEqual(otherBefore, s.Doc("example.org", "XR", "", "xr-pre")))
		for _, w := range s.Writes(false) {
			if w.Kind == "XR" && w.Name == "xr-pre" {
				zz.Assert("no-write-addressed-to-other-claims-xr", !w.Effect)
			}
		}
		return
	}
	if deleting {
		zz.Cover("deleted-claim")
		return
	}
	zz.Assert("retry-no-error", err == nil)
	xs := zzXRsOfClaim(s)
	zz.Assert("exactly-one-xr-bound-after-retry", len(xs) == 1)
	if len(xs) == 1 {
		zz.Cover("bound")
		zz.Assert("claim-references-its-xr", zzStoredClaimRef(s) == xs[0])
		if hasRef {
			zz.Assert("retry-reuses-the-recorded-name", xs[0] == "xr-pre")
		}
	}
	zz.Observe("xrs", len(xs))
}

// HarnessC06DeletedBehindCache: a bound claim has been deleted - and with it
// its XR - but the reconciler still reads the bound claim from a cache that
// lags the deletion (the claim may have been created again since, as a new
// object). That reconcile does not bring the XR back: an XR exists only for a
// claim that durably references it.
//
//gosym:harness
//gosym:cover claim-gone claim-recreated
func HarnessC06DeletedBehindCache() {
	s := kube.New()
	cm := claim.New(claim.WithGroupVersionKind(zzClaimGVK))
	cm.SetName("cm")
	cm.SetNamespace("team")
	cm.SetUID("uid-claim")
	cm.SetFinalizers([]string{finalizer})
	cm.Object["spec"] = map[string]any{"param": "v", "resourceRef": map[string]any{"apiVersion": "example.org/v1", "kind": "XR", "name": "xr-pre"}}
	s.Put(cm)
	cached := runtime.DeepCopyJSON(s.Doc("example.org", "Claim", "team", "cm"))
	// the claim (and its XR) are deleted; what the cache holds is history
	del := claim.New(claim.WithGroupVersionKind(zzClaimGVK))
	del.SetName("cm")
	del.SetNamespace("team")
	s.Put(del)
	s.Touch("example.org", "Claim", "team", "cm")
	recreated := zz.Bool("claim.recreated")
	if recreated {
		zz.Cover("claim-recreated")
		again := claim.New(claim.WithGroupVersionKind(zzClaimGVK))
		again.SetName("cm")
		again.SetNamespace("team")
		again.SetUID("uid-claim-2")
		again.Object["spec"] = map[string]any{"param": "v"}
		s.Put(again)
		s.Touch("example.org", "Claim", "team", "cm")
	} else {
		zz.Cover("claim-gone")
		_ = s.Delete(context.Background(), del)
	}
	c := &zzStale{Store: s, stale: cached}
	r := zzClaimReconciler(c, zz.Bool("syncer.ssa"))
	_, _ = r.Reconcile(context.Background(), reconcile.Request{NamespacedName: types.NamespacedName{Namespace: "team", Name: "cm"}})
	zz.Assert("deleted-claims-xr-is-not-brought-back", s.Count("example.org", "XR") == 0)
}

// HarnessC06OtherKind: the claim's resourceRef names an object of another
// kind (a hand-edited or migrated reference) that exists under that name and
// is bound to a different claim. The claim's controller only ever deals in
// its own XR kind: whatever it does about the reference, the other object is
// left exactly as it was.
//
//gosym:harness
//gosym:cover other-kind other-version
func HarnessC06OtherKind() {
	s := kube.New()
	refAPI, refKind := "example.org/v1", "OtherXR"
	if zz.Bool("ref.differsInVersionOnly") {
		zz.Cover("other-version")
		refAPI, refKind = "example.org/v2", "XR"
	} else {
		zz.Cover("other-kind")
	}
	cm := claim.New(claim.WithGroupVersionKind(zzClaimGVK))
	cm.SetName("cm")
	cm.SetNamespace("team")
	cm.SetUID("uid-claim")
	cm.SetFinalizers([]string{finalizer})
	cm.Object["spec"] = map[string]any{"param": "v", "resourceRef": map[string]any{"apiVersion": refAPI, "kind": refKind, "name": "xr-pre"}}
	s.Put(cm)
	other := &unstructured.Unstructured{Object: map[string]any{}}
	other.SetAPIVersion(refAPI)
	other.SetKind(refKind)
	other.SetName("xr-pre")
	other.SetUID("uid-other-xr")
	other.Object["spec"] = map[string]any{"param": "theirs", "claimRef": map[string]any{"apiVersion": "example.org/v1", "kind": "Claim", "name": "another", "namespace": "team"}}
	other.SetLabels(map[string]string{"crossplane.io/claim-name": "another", "crossplane.io/claim-namespace": "team"})
	s.Put(other)
	group := "example.org"
	before := runtime.DeepCopyJSON(s.Doc(group, refKind, "", "xr-pre"))
	zz.Assert("other-object-stored", before != nil)

	r := zzClaimReconciler(s, zz.Bool("syncer.ssa"))
	for k := 0; k < 2; k++ {
		_, _ = r.Reconcile(context.Background(), reconcile.Request{NamespacedName: types.NamespacedName{Namespace: "team", Name: "cm"}})
	}
	zz.Assert("object-of-another-kind-bound-to-another-claim-left-as-it-was", reflect.DeepEqual(before, s.Doc(group, refKind, "", "xr-pre")))
}
