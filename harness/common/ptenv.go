//go:build verif

//gosym:package github.com/crossplane/crossplane/internal/controller/apiextensions/composite
//gosym:file zz_common_ptenv_verif.go

package composite

import (
	metav1 "k8s.io/apimachinery/pkg/apis/meta/v1"
	"k8s.io/apimachinery/pkg/runtime"
	"k8s.io/utils/ptr"

	v1 "github.com/crossplane/crossplane/apis/apiextensions/v1"
)

// zzPTRevision returns a resources-mode revision whose named templates are
// the candidates selected by present.
func zzPTRevision(present []bool, patches func(i int) []v1.Patch) *v1.CompositionRevision {
	rev := &v1.CompositionRevision{ObjectMeta: metav1.ObjectMeta{Name: "comp-rev1"}}
	mode := v1.CompositionModeResources
	rev.Spec.Mode = &mode
	rev.Spec.CompositeTypeRef = v1.TypeReference{APIVersion: "example.org/v1", Kind: "XR"}
	for i, p := range present {
		if !p {
			continue
		}
		t := v1.ComposedTemplate{
			Name: ptr.To(zzResNames[i]),
			Base: runtime.RawExtension{Raw: []byte(`{"apiVersion":"example.org/v1","kind":"Composed","spec":{"field":"new-` + zzResNames[i] + `"}}`)},
		}
		if patches != nil {
			t.Patches = patches(i)
		}
		rev.Spec.Resources = append(rev.Spec.Resources, t)
	}
	return rev
}
