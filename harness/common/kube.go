//go:build verif

//gosym:package github.com/crossplane/crossplane/internal/zzverif/kube
//gosym:file kube.go

// Package kube is a small model of the Kubernetes API server used as the
// environment of the gosym harnesses: a JSON document store with optimistic
// concurrency, finalizers, owner references, server-side apply as
// create-or-merge, merge patches, label and field-index selection, a write
// log, fault injection and an invariant hook that runs after every mutation
// (every prefix of the write sequence is a possible crash point).
//
// It is ordinary Go: the engine interprets it, and native replays run it
// compiled, so both worlds see the same environment.
package kube

import (
	"context"
	"reflect"
	"strconv"
	"strings"

	"k8s.io/apimachinery/pkg/api/meta"
	kerrors "k8s.io/apimachinery/pkg/api/errors"
	metav1 "k8s.io/apimachinery/pkg/apis/meta/v1"
	"k8s.io/apimachinery/pkg/runtime"
	"k8s.io/apimachinery/pkg/runtime/schema"
	"k8s.io/apimachinery/pkg/types"
	"k8s.io/apimachinery/pkg/util/json"
	"sigs.k8s.io/controller-runtime/pkg/client"
)

// Verbs of the write log.
const (
	VerbGet          = "get"
	VerbList         = "list"
	VerbCreate       = "create"
	VerbUpdate       = "update"
	VerbPatch        = "patch"
	VerbApply        = "apply"
	VerbDelete       = "delete"
	VerbStatusUpdate = "status-update"
	VerbStatusPatch  = "status-patch"
)

// Fault outcomes.
const (
	FaultNone        = 0 // the call succeeds
	FaultErrNoEffect = 1 // the call fails and changes nothing
	FaultErrEffect   = 2 // the call takes effect but the caller sees an error (timeout after commit, crash after call)
	FaultConflict    = 3 // the call fails with a conflict and changes nothing
)

// Call is one entry of the call log.
type Call struct {
	Verb   string
	Group  string
	Kind   string
	NS     string
	Name   string
	DryRun bool
	Err    bool // the caller saw an error
	Effect bool // the store changed
}

type entry struct {
	group, kind, ns, name string
	doc                   map[string]any
}

type kindReg struct {
	t           reflect.Type
	group, kind string
	list        bool
}

// Store is the API server model.
type Store struct {
	entries []*entry
	kinds   []kindReg
	rv      int
	uid     int
	gen     int
	now     int

	Log []Call

	// FaultAt is the index (among all calls through this store, reads
	// included) of the call that misbehaves; negative = none.
	FaultAt   int
	FaultKind int
	// ReadFaultErr, if set, is the error a faulted Get or List answers with
	// instead of the generic server error (e.g. a REST-mapper no-match error).
	ReadFaultErr error
	calls     int
	Faulted   bool

	// OnMutate runs after every change to the stored state.
	OnMutate func()

	// BeforeCreate runs at the start of every Create call (after fault
	// injection): lets a harness model a concurrent writer winning a race.
	BeforeCreate func(group, kind, ns, name string)

	// BeforeCall runs at the start of every call with the call's index: lets
	// a harness model another actor writing (Touch) between two calls of the
	// code under test.
	BeforeCall func(n int)

	// Reject makes the API server refuse (as invalid) any write of an object
	// for which it returns true; the answer is the same in dry-run mode.
	Reject func(group, kind, ns, name string) bool

	// RejectObject is Reject with access to the object being written.
	RejectObject func(obj client.Object) bool

	indexers []indexer

	// PreserveStatus makes writes to the main resource leave .status as
	// stored (the behaviour of kinds with a status subresource, which is what
	// CRDs and every Crossplane type have); only Status() writes change it.
	// Off by default: most harnesses never look at the status of what the
	// code under test writes through the main resource.
	PreserveStatus bool
}

type indexer struct {
	group, kind, field string
	fn                 client.IndexerFunc
}

// New returns an empty store without faults.
func New() *Store { return &Store{FaultAt: -1} }

// Register tells the store the group and kind of a typed object (and of its
// list type). Unstructured objects carry their own.
func (s *Store) Register(obj runtime.Object, list runtime.Object, group, kind string) {
	s.kinds = append(s.kinds, kindReg{t: reflect.TypeOf(obj), group: group, kind: kind})
	if list != nil {
		s.kinds = append(s.kinds, kindReg{t: reflect.TypeOf(list), group: group, kind: kind, list: true})
	}
}

// GK returns the group and kind of obj.
func (s *Store) GK(obj runtime.Object) (string, string) {
	t := reflect.TypeOf(obj)
	for _, k := range s.kinds {
		if k.t == t {
			return k.group, k.kind
		}
	}
	gvk := obj.GetObjectKind().GroupVersionKind()
	return gvk.Group, gvk.Kind
}

// listGK returns the group and the item kind of a list object.
func (s *Store) listGK(list client.ObjectList) (string, string) {
	t := reflect.TypeOf(list)
	for _, k := range s.kinds {
		if k.t == t {
			return k.group, k.kind
		}
	}
	gvk := list.GetObjectKind().GroupVersionKind()
	return gvk.Group, strings.TrimSuffix(gvk.Kind, "List")
}

func (s *Store) find(group, kind, ns, name string) int {
	for i, e := range s.entries {
		if e.group == group && e.kind == kind && e.ns == ns && e.name == name {
			return i
		}
	}
	return -1
}

func toDoc(obj runtime.Object) map[string]any {
	m, err := runtime.DefaultUnstructuredConverter.ToUnstructured(obj)
	if err != nil {
		panic("kube model: cannot convert object: " + err.Error())
	}
	dropNulls(m)
	return m
}

// dropNulls removes null-valued object members: a typed object sent by a
// client carries "field": null for nil slices and maps without omitempty,
// which the API server reads back as absent.
func dropNulls(m map[string]any) {
	for k, v := range m {
		switch x := v.(type) {
		case nil:
			delete(m, k)
		case map[string]any:
			dropNulls(x)
		case []any:
			for _, e := range x {
				if em, ok := e.(map[string]any); ok {
					dropNulls(em)
				}
			}
		}
	}
}

func fromDoc(doc map[string]any, obj runtime.Object) {
	if err := runtime.DefaultUnstructuredConverter.FromUnstructured(runtime.DeepCopyJSON(doc), obj); err != nil {
		panic("kube model: cannot convert document: " + err.Error())
	}
}

func metaOf(doc map[string]any) map[string]any {
	m, ok := doc["metadata"].(map[string]any)
	if !ok {
		m = map[string]any{}
		doc["metadata"] = m
	}
	return m
}

func str(m map[string]any, k string) string {
	s, _ := m[k].(string)
	return s
}

// fault decides the outcome of the next call.
func (s *Store) fault() int {
	n := s.calls
	s.calls++
	if s.BeforeCall != nil {
		s.BeforeCall(n)
	}
	if s.FaultAt >= 0 && n == s.FaultAt && !s.Faulted {
		s.Faulted = true
		return s.FaultKind
	}
	return FaultNone
}

func (s *Store) log(c Call) { s.Log = append(s.Log, c) }

func (s *Store) mutated() {
	if s.OnMutate != nil {
		s.OnMutate()
	}
}

func (s *Store) nextRV() string { s.rv++; return strconv.Itoa(s.rv) }

func gr(group, kind string) schema.GroupResource {
	return schema.GroupResource{Group: group, Resource: kind}
}

var errInjected = kerrors.NewInternalError(errString("injected API server failure"))

type errString string

func (e errString) Error() string { return string(e) }

// ---------------------------------------------------------------------
// direct access for harnesses (no faults, no log)

// Touch is a write by another actor that changes nothing the code under test
// looks at (an annotation): the stored object gets a new resourceVersion, so
// a writer holding the previous version conflicts.
func (s *Store) Touch(group, kind, ns, name string) {
	i := s.find(group, kind, ns, name)
	if i < 0 {
		return
	}
	md := metaOf(s.entries[i].doc)
	ann, _ := md["annotations"].(map[string]any)
	if ann == nil {
		ann = map[string]any{}
		md["annotations"] = ann
	}
	ann["example.org/touched-by-another-actor"] = "true"
	md["resourceVersion"] = s.nextRV()
	s.mutated()
}

// Put stores obj as is (pre-state construction).
func (s *Store) Put(obj client.Object) {
	group, kind := s.GK(obj)
	doc := toDoc(obj)
	md := metaOf(doc)
	if str(md, "resourceVersion") == "" {
		md["resourceVersion"] = s.nextRV()
	}
	if str(md, "uid") == "" {
		s.uid++
		md["uid"] = "uid-" + strconv.Itoa(s.uid)
	}
	if str(md, "creationTimestamp") == "" {
		md["creationTimestamp"] = createdAt
	}
	ns, name := obj.GetNamespace(), obj.GetName()
	if i := s.find(group, kind, ns, name); i >= 0 {
		s.entries[i].doc = doc
		return
	}
	s.entries = append(s.entries, &entry{group: group, kind: kind, ns: ns, name: name, doc: doc})
}

// Peek reads the stored object into obj and reports whether it exists.
func (s *Store) Peek(ns, name string, obj client.Object) bool {
	group, kind := s.GK(obj)
	i := s.find(group, kind, ns, name)
	if i < 0 {
		return false
	}
	fromDoc(s.entries[i].doc, obj)
	return true
}

// Exists reports whether an object of the given group/kind exists.
func (s *Store) Exists(group, kind, ns, name string) bool { return s.find(group, kind, ns, name) >= 0 }

// Doc returns the stored document (not a copy) or nil.
func (s *Store) Doc(group, kind, ns, name string) map[string]any {
	if i := s.find(group, kind, ns, name); i >= 0 {
		return s.entries[i].doc
	}
	return nil
}

// Each visits every stored document.
func (s *Store) Each(f func(group, kind, ns, name string, doc map[string]any)) {
	for _, e := range s.entries {
		f(e.group, e.kind, e.ns, e.name, e.doc)
	}
}

// Count returns the number of stored objects of a group/kind.
func (s *Store) Count(group, kind string) int {
	n := 0
	for _, e := range s.entries {
		if e.group == group && e.kind == kind {
			n++
		}
	}
	return n
}

// Writes returns the logged calls that changed or tried to change state
// (everything except get and list), excluding dry runs unless asked.
func (s *Store) Writes(includeDryRun bool) []Call {
	var out []Call
	for _, c := range s.Log {
		if c.Verb == VerbGet || c.Verb == VerbList {
			continue
		}
		if c.DryRun && !includeDryRun {
			continue
		}
		out = append(out, c)
	}
	return out
}

// Calls is the number of API calls made so far.
func (s *Store) Calls() int { return s.calls }

// ControllerUID returns the UID of the controller owner reference of a
// stored document, or "".
func ControllerUID(doc map[string]any) string {
	refs, _ := metaOf(doc)["ownerReferences"].([]any)
	for _, r := range refs {
		rm, ok := r.(map[string]any)
		if !ok {
			continue
		}
		if c, _ := rm["controller"].(bool); c {
			return str(rm, "uid")
		}
	}
	return ""
}

// OwnerUIDs returns the UIDs of all owner references of a document.
func OwnerUIDs(doc map[string]any) []string {
	var out []string
	refs, _ := metaOf(doc)["ownerReferences"].([]any)
	for _, r := range refs {
		if rm, ok := r.(map[string]any); ok {
			out = append(out, str(rm, "uid"))
		}
	}
	return out
}

// ---------------------------------------------------------------------
// client.Client

var _ client.Client = &Store{}

func (s *Store) Scheme() *runtime.Scheme     { return nil }
func (s *Store) RESTMapper() meta.RESTMapper { return nil }
func (s *Store) GroupVersionKindFor(obj runtime.Object) (schema.GroupVersionKind, error) {
	g, k := s.GK(obj)
	return schema.GroupVersionKind{Group: g, Kind: k}, nil
}
func (s *Store) IsObjectNamespaced(obj runtime.Object) (bool, error) { return false, nil }
func (s *Store) SubResource(string) client.SubResourceClient        { panic("kube model: subresources other than status are not modelled") }
func (s *Store) Status() client.SubResourceWriter                   { return &statusWriter{s} }

func (s *Store) Get(_ context.Context, key client.ObjectKey, obj client.Object, _ ...client.GetOption) error {
	group, kind := s.GK(obj)
	c := Call{Verb: VerbGet, Group: group, Kind: kind, NS: key.Namespace, Name: key.Name}
	if f := s.fault(); f != FaultNone {
		c.Err = true
		s.log(c)
		if s.ReadFaultErr != nil {
			return s.ReadFaultErr
		}
		return errInjected
	}
	i := s.find(group, kind, key.Namespace, key.Name)
	if i < 0 {
		c.Err = true
		s.log(c)
		return kerrors.NewNotFound(gr(group, kind), key.Name)
	}
	s.log(c)
	fromDoc(s.entries[i].doc, obj)
	return nil
}

func labelsOf(doc map[string]any) map[string]any {
	l, _ := metaOf(doc)["labels"].(map[string]any)
	return l
}

func (s *Store) List(_ context.Context, list client.ObjectList, opts ...client.ListOption) error {
	group, kind := s.listGK(list)
	c := Call{Verb: VerbList, Group: group, Kind: kind}
	if f := s.fault(); f != FaultNone {
		c.Err = true
		s.log(c)
		if s.ReadFaultErr != nil {
			return s.ReadFaultErr
		}
		return errInjected
	}
	lo := &client.ListOptions{}
	for _, o := range opts {
		o.ApplyToList(lo)
	}
	c.NS = lo.Namespace
	s.log(c)
	items := make([]any, 0)
	for _, e := range s.entries {
		if e.group != group || e.kind != kind {
			continue
		}
		if lo.Namespace != "" && e.ns != lo.Namespace {
			continue
		}
		if lo.LabelSelector != nil {
			ls := map[string]string{}
			for k, v := range labelsOf(e.doc) {
				if sv, ok := v.(string); ok {
					ls[k] = sv
				}
			}
			if !lo.LabelSelector.Matches(labelSet(ls)) {
				continue
			}
		}
		if lo.FieldSelector != nil {
			if !s.matchFields(e, lo) {
				continue
			}
		}
		items = append(items, runtime.DeepCopyJSON(e.doc))
	}
	doc := map[string]any{"items": items}
	if u, ok := list.(runtime.Unstructured); ok {
		// keep apiVersion/kind of the list
		for k, v := range u.UnstructuredContent() {
			if k != "items" {
				doc[k] = v
			}
		}
		// the server returns every item with the apiVersion and kind served
		if av, ok := doc["apiVersion"]; ok {
			for _, it := range items {
				m := it.(map[string]any)
				m["apiVersion"] = av
				m["kind"] = kind
			}
		}
		u.SetUnstructuredContent(doc)
		return nil
	}
	if err := runtime.DefaultUnstructuredConverter.FromUnstructured(doc, list); err != nil {
		panic("kube model: cannot convert list: " + err.Error())
	}
	return nil
}

type labelSet map[string]string

func (l labelSet) Has(k string) bool   { _, ok := l[k]; return ok }
func (l labelSet) Get(k string) string { return l[k] }
func (l labelSet) Lookup(k string) (string, bool) {
	v, ok := l[k]
	return v, ok
}

// IndexField registers a field index function (client.FieldIndexer).
func (s *Store) IndexField(_ context.Context, obj client.Object, field string, fn client.IndexerFunc) error {
	group, kind := s.GK(obj)
	s.indexers = append(s.indexers, indexer{group: group, kind: kind, field: field, fn: fn})
	return nil
}

// NewIndexed builds the typed object an index function expects from a stored
// document. Set by harnesses that use field indexes.
var NewIndexed func(group, kind string) client.Object

func (s *Store) matchFields(e *entry, lo *client.ListOptions) bool {
	reqs := lo.FieldSelector.Requirements()
	for _, r := range reqs {
		matched := false
		for _, ix := range s.indexers {
			if ix.group != e.group || ix.kind != e.kind || ix.field != r.Field {
				continue
			}
			obj := NewIndexed(e.group, e.kind)
			fromDoc(e.doc, obj)
			for _, v := range ix.fn(obj) {
				if v == r.Value {
					matched = true
				}
			}
		}
		if !matched {
			return false
		}
	}
	return true
}

func (s *Store) rejected(group, kind, ns, name string) bool {
	return s.Reject != nil && s.Reject(group, kind, ns, name)
}

func (s *Store) rejectedObj(obj client.Object) bool {
	return s.RejectObject != nil && s.RejectObject(obj)
}

func (s *Store) Create(_ context.Context, obj client.Object, opts ...client.CreateOption) error {
	co := &client.CreateOptions{}
	for _, o := range opts {
		o.ApplyToCreate(co)
	}
	group, kind := s.GK(obj)
	name := obj.GetName()
	if name == "" && obj.GetGenerateName() != "" {
		s.gen++
		name = obj.GetGenerateName() + "gen" + strconv.Itoa(s.gen)
	}
	c := Call{Verb: VerbCreate, Group: group, Kind: kind, NS: obj.GetNamespace(), Name: name, DryRun: len(co.DryRun) > 0}
	f := s.fault()
	if f == FaultErrNoEffect || f == FaultConflict {
		c.Err = true
		s.log(c)
		return errInjected
	}
	if s.BeforeCreate != nil {
		s.BeforeCreate(group, kind, c.NS, name)
	}
	if s.find(group, kind, c.NS, name) >= 0 {
		c.Err = true
		s.log(c)
		return kerrors.NewAlreadyExists(gr(group, kind), name)
	}
	if s.rejected(group, kind, c.NS, name) || s.rejectedObj(obj) {
		c.Err = true
		s.log(c)
		return kerrors.NewInvalid(schema.GroupKind{Group: group, Kind: kind}, name, nil)
	}
	if c.DryRun {
		s.log(c)
		return nil
	}
	doc := toDoc(obj)
	md := metaOf(doc)
	md["name"] = name
	md["resourceVersion"] = s.nextRV()
	if str(md, "uid") == "" {
		s.uid++
		md["uid"] = "uid-" + strconv.Itoa(s.uid)
	}
	md["generation"] = int64(1)
	md["creationTimestamp"] = createdAt
	s.entries = append(s.entries, &entry{group: group, kind: kind, ns: c.NS, name: name, doc: doc})
	c.Effect = true
	if f == FaultErrEffect {
		c.Err = true
		s.log(c)
		s.mutated()
		return errInjected
	}
	s.log(c)
	fromDoc(doc, obj)
	s.mutated()
	return nil
}

func (s *Store) Update(_ context.Context, obj client.Object, opts ...client.UpdateOption) error {
	uo := &client.UpdateOptions{}
	for _, o := range opts {
		o.ApplyToUpdate(uo)
	}
	group, kind := s.GK(obj)
	c := Call{Verb: VerbUpdate, Group: group, Kind: kind, NS: obj.GetNamespace(), Name: obj.GetName(), DryRun: len(uo.DryRun) > 0}
	f := s.fault()
	if f == FaultErrNoEffect {
		c.Err = true
		s.log(c)
		return errInjected
	}
	if f == FaultConflict {
		c.Err = true
		s.log(c)
		return kerrors.NewConflict(gr(group, kind), c.Name, errString("injected conflict"))
	}
	i := s.find(group, kind, c.NS, c.Name)
	if i < 0 {
		c.Err = true
		s.log(c)
		return kerrors.NewNotFound(gr(group, kind), c.Name)
	}
	cur := s.entries[i].doc
	if rv := obj.GetResourceVersion(); rv != "" && rv != str(metaOf(cur), "resourceVersion") {
		c.Err = true
		s.log(c)
		return kerrors.NewConflict(gr(group, kind), c.Name, errString("the object has been modified"))
	}
	if s.rejected(group, kind, c.NS, c.Name) || s.rejectedObj(obj) {
		c.Err = true
		s.log(c)
		return kerrors.NewInvalid(schema.GroupKind{Group: group, Kind: kind}, c.Name, nil)
	}
	if c.DryRun {
		s.log(c)
		return nil
	}
	doc := toDoc(obj)
	serverOwned(cur, doc)
	s.keepStatus(cur, doc)
	// an update that changes nothing is a no-op: the resourceVersion stays
	if !reflect.DeepEqual(doc, cur) {
		s.replace(i, doc)
		c.Effect = true
	}
	if f == FaultErrEffect {
		c.Err = true
		s.log(c)
		s.mutated()
		return errInjected
	}
	s.log(c)
	if s.find(group, kind, c.NS, c.Name) >= 0 {
		fromDoc(doc, obj)
	}
	s.mutated()
	return nil
}

const createdAt = "2024-01-01T00:00:00Z"

// serverOwned copies the metadata fields only the API server may change from
// the current document into next.
// keepStatus carries the stored status over into next when the store models
// a status subresource.
func (s *Store) keepStatus(cur, next map[string]any) {
	if !s.PreserveStatus {
		return
	}
	if st, ok := cur["status"]; ok {
		next["status"] = st
	} else {
		delete(next, "status")
	}
}

func serverOwned(cur, next map[string]any) {
	cm, nm := metaOf(cur), metaOf(next)
	for _, k := range []string{"uid", "creationTimestamp", "deletionTimestamp", "generation", "resourceVersion", "name", "namespace"} {
		if v, ok := cm[k]; ok {
			nm[k] = v
		} else {
			delete(nm, k)
		}
	}
}

// replace installs doc as the new content of entry i, keeping server-owned
// metadata, and finalises deletion when the last finalizer goes away.
func (s *Store) replace(i int, doc map[string]any) {
	cur := metaOf(s.entries[i].doc)
	md := metaOf(doc)
	md["uid"] = cur["uid"]
	md["resourceVersion"] = s.nextRV()
	if ts, ok := cur["deletionTimestamp"]; ok {
		md["deletionTimestamp"] = ts
	}
	if g, ok := cur["generation"]; ok {
		md["generation"] = g
	}
	if ct, ok := cur["creationTimestamp"]; ok {
		md["creationTimestamp"] = ct
	}
	s.entries[i].doc = doc
	if _, deleting := md["deletionTimestamp"]; deleting {
		if fs, _ := md["finalizers"].([]any); len(fs) == 0 {
			s.entries = append(s.entries[:i:i], s.entries[i+1:]...)
		}
	}
}

// mergePatch applies an RFC 7386 JSON merge patch.
func mergePatch(dst, patch map[string]any) {
	for k, v := range patch {
		if v == nil {
			delete(dst, k)
			continue
		}
		pm, isMap := v.(map[string]any)
		if !isMap {
			dst[k] = v
			continue
		}
		dm, ok := dst[k].(map[string]any)
		if !ok {
			dm = map[string]any{}
			dst[k] = dm
		}
		mergePatch(dm, pm)
	}
}

func controllerCount(doc map[string]any) int {
	n := 0
	refs, _ := metaOf(doc)["ownerReferences"].([]any)
	for _, r := range refs {
		if rm, ok := r.(map[string]any); ok {
			if c, _ := rm["controller"].(bool); c {
				n++
			}
		}
	}
	return n
}

// applyMerge is the model of server-side apply onto an existing document:
// objects merge field by field, scalars and lists are replaced, and owner
// references are merged by UID.
func applyMerge(dst, applied map[string]any) { applyMergeAt(dst, applied, true) }

func applyMergeAt(dst, applied map[string]any, top bool) {
	for k, v := range applied {
		if top && k == "metadata" {
			continue // object metadata is merged by applyMetadata
		}
		pm, isMap := v.(map[string]any)
		if !isMap {
			dst[k] = v
			continue
		}
		dm, ok := dst[k].(map[string]any)
		if !ok {
			dm = map[string]any{}
			dst[k] = dm
		}
		applyMergeAt(dm, pm, false)
	}
}

func applyMetadata(dst, applied map[string]any) {
	dmd, amd := metaOf(dst), metaOf(applied)
	for _, k := range []string{"labels", "annotations"} {
		am, _ := amd[k].(map[string]any)
		if len(am) == 0 {
			continue
		}
		dm, _ := dmd[k].(map[string]any)
		if dm == nil {
			dm = map[string]any{}
			dmd[k] = dm
		}
		for kk, vv := range am {
			dm[kk] = vv
		}
	}
	if fs, ok := amd["finalizers"]; ok {
		dmd["finalizers"] = fs
	}
	if mf, ok := amd["managedFields"]; ok {
		dmd["managedFields"] = mf
	}
	arefs, _ := amd["ownerReferences"].([]any)
	drefs, _ := dmd["ownerReferences"].([]any)
	for _, ar := range arefs {
		arm, _ := ar.(map[string]any)
		found := false
		for j, dr := range drefs {
			if drm, _ := dr.(map[string]any); str(drm, "uid") == str(arm, "uid") {
				drefs[j] = ar
				found = true
			}
		}
		if !found {
			drefs = append(drefs, ar)
		}
	}
	if len(drefs) > 0 {
		dmd["ownerReferences"] = drefs
	}
}

func (s *Store) Patch(_ context.Context, obj client.Object, p client.Patch, opts ...client.PatchOption) error {
	po := &client.PatchOptions{}
	for _, o := range opts {
		o.ApplyToPatch(po)
	}
	group, kind := s.GK(obj)
	verb := VerbPatch
	if p.Type() == types.ApplyPatchType {
		verb = VerbApply
	}
	c := Call{Verb: verb, Group: group, Kind: kind, NS: obj.GetNamespace(), Name: obj.GetName(), DryRun: len(po.DryRun) > 0}
	f := s.fault()
	if f == FaultErrNoEffect {
		c.Err = true
		s.log(c)
		return errInjected
	}
	if f == FaultConflict {
		c.Err = true
		s.log(c)
		return kerrors.NewConflict(gr(group, kind), c.Name, errString("injected conflict"))
	}
	if kind == "" {
		// an object without a kind never reaches the API server: the client
		// cannot even work out where to send it
		c.Err = true
		s.log(c)
		return kerrors.NewBadRequest("Object 'Kind' is missing")
	}
	data, err := p.Data(obj)
	if err != nil {
		panic("kube model: patch data: " + err.Error())
	}
	i := s.find(group, kind, c.NS, c.Name)
	if p.Type() == types.JSONPatchType {
		// Only the two JSON patches Crossplane sends are modelled: they
		// rewrite metadata.managedFields (which the model does not keep beyond
		// the applying manager's entry) under a resourceVersion test.
		var ops []any
		if err := json.Unmarshal(data, &ops); err != nil {
			panic("kube model: JSON patch is not an array: " + err.Error())
		}
		if i < 0 {
			c.Err = true
			s.log(c)
			return kerrors.NewNotFound(gr(group, kind), c.Name)
		}
		md := metaOf(s.entries[i].doc)
		for _, o := range ops {
			om, _ := o.(map[string]any)
			path := str(om, "path")
			switch {
			case path == "/metadata/resourceVersion":
				if str(om, "value") != str(md, "resourceVersion") {
					c.Err = true
					s.log(c)
					return kerrors.NewConflict(gr(group, kind), c.Name, errString("the object has been modified"))
				}
			case strings.HasPrefix(path, "/metadata/managedFields"):
				if str(om, "op") == "replace" {
					delete(md, "managedFields")
				}
			default:
				panic("kube model: JSON patch path " + path + " is not modelled")
			}
		}
		s.log(c)
		fromDoc(s.entries[i].doc, obj)
		return nil
	}
	patch := map[string]any{}
	if err := json.Unmarshal(data, &patch); err != nil {
		panic("kube model: patch is not a JSON object: " + err.Error())
	}
	if p.Type() == types.ApplyPatchType && po.FieldManager != "" {
		// server-side apply records the applying manager
		metaOf(patch)["managedFields"] = []any{map[string]any{"manager": po.FieldManager, "operation": "Apply"}}
	}
	switch p.Type() {
	case types.ApplyPatchType:
		if c.Name == "" {
			c.Err = true
			s.log(c)
			return kerrors.NewBadRequest("metadata.name is required to apply")
		}
		if s.rejected(group, kind, c.NS, c.Name) || s.rejectedObj(obj) {
			c.Err = true
			s.log(c)
			return kerrors.NewInvalid(schema.GroupKind{Group: group, Kind: kind}, c.Name, nil)
		}
		if i < 0 {
			if controllerCount(patch) > 1 {
				c.Err = true
				s.log(c)
				return kerrors.NewInvalid(schema.GroupKind{Group: group, Kind: kind}, c.Name, nil)
			}
			if c.DryRun {
				s.log(c)
				return nil
			}
			md := metaOf(patch)
			md["resourceVersion"] = s.nextRV()
			s.uid++
			md["uid"] = "uid-" + strconv.Itoa(s.uid)
			md["generation"] = int64(1)
			md["creationTimestamp"] = createdAt
			s.entries = append(s.entries, &entry{group: group, kind: kind, ns: c.NS, name: c.Name, doc: patch})
			c.Effect = true
			if f == FaultErrEffect {
				c.Err = true
				s.log(c)
				s.mutated()
				return errInjected
			}
			s.log(c)
			fromDoc(patch, obj)
			s.mutated()
			return nil
		}
		next := runtime.DeepCopyJSON(s.entries[i].doc)
		applyMerge(next, patch)
		applyMetadata(next, patch)
		serverOwned(s.entries[i].doc, next)
		s.keepStatus(s.entries[i].doc, next)
		// the API server refuses an object with two controller references
		if controllerCount(next) > 1 {
			c.Err = true
			s.log(c)
			return kerrors.NewInvalid(schema.GroupKind{Group: group, Kind: kind}, c.Name, nil)
		}
		if uid := str(metaOf(patch), "uid"); uid != "" && uid != str(metaOf(next), "uid") {
			c.Err = true
			s.log(c)
			return kerrors.NewConflict(gr(group, kind), c.Name, errString("uid precondition failed"))
		}
		if c.DryRun {
			s.log(c)
			return nil
		}
		if !reflect.DeepEqual(next, s.entries[i].doc) {
			metaOf(next)["resourceVersion"] = s.nextRV()
			s.entries[i].doc = next
			c.Effect = true
		}
		if f == FaultErrEffect {
			c.Err = true
			s.log(c)
			s.mutated()
			return errInjected
		}
		s.log(c)
		fromDoc(next, obj)
		if c.Effect {
			s.mutated()
		}
		return nil
	case types.MergePatchType:
		if i < 0 {
			c.Err = true
			s.log(c)
			return kerrors.NewNotFound(gr(group, kind), c.Name)
		}
		if s.rejected(group, kind, c.NS, c.Name) || s.rejectedObj(obj) {
			c.Err = true
			s.log(c)
			return kerrors.NewInvalid(schema.GroupKind{Group: group, Kind: kind}, c.Name, nil)
		}
		next := runtime.DeepCopyJSON(s.entries[i].doc)
		if prv := str(metaOf(patch), "resourceVersion"); prv != "" && prv != str(metaOf(next), "resourceVersion") {
			c.Err = true
			s.log(c)
			return kerrors.NewConflict(gr(group, kind), c.Name, errString("the object has been modified"))
		}
		mergePatch(next, patch)
		serverOwned(s.entries[i].doc, next)
		s.keepStatus(s.entries[i].doc, next)
		if c.DryRun {
			s.log(c)
			return nil
		}
		if !reflect.DeepEqual(next, s.entries[i].doc) {
			s.replace(i, next)
			c.Effect = true
		}
		if f == FaultErrEffect {
			c.Err = true
			s.log(c)
			s.mutated()
			return errInjected
		}
		s.log(c)
		if s.find(group, kind, c.NS, c.Name) >= 0 {
			fromDoc(next, obj)
		}
		if c.Effect {
			s.mutated()
		}
		return nil
	}
	panic("kube model: patch type " + string(p.Type()) + " is not modelled")
}

func (s *Store) Delete(_ context.Context, obj client.Object, opts ...client.DeleteOption) error {
	do := &client.DeleteOptions{}
	for _, o := range opts {
		o.ApplyToDelete(do)
	}
	group, kind := s.GK(obj)
	c := Call{Verb: VerbDelete, Group: group, Kind: kind, NS: obj.GetNamespace(), Name: obj.GetName(), DryRun: len(do.DryRun) > 0}
	f := s.fault()
	if f == FaultErrNoEffect || f == FaultConflict {
		c.Err = true
		s.log(c)
		return errInjected
	}
	i := s.find(group, kind, c.NS, c.Name)
	if i < 0 {
		c.Err = true
		s.log(c)
		return kerrors.NewNotFound(gr(group, kind), c.Name)
	}
	md := metaOf(s.entries[i].doc)
	if do.Preconditions != nil {
		if do.Preconditions.UID != nil && string(*do.Preconditions.UID) != str(md, "uid") {
			c.Err = true
			s.log(c)
			return kerrors.NewConflict(gr(group, kind), c.Name, errString("uid precondition failed"))
		}
		if do.Preconditions.ResourceVersion != nil && *do.Preconditions.ResourceVersion != str(md, "resourceVersion") {
			c.Err = true
			s.log(c)
			return kerrors.NewConflict(gr(group, kind), c.Name, errString("resourceVersion precondition failed"))
		}
	}
	if c.DryRun {
		s.log(c)
		return nil
	}
	if fs, _ := md["finalizers"].([]any); len(fs) > 0 {
		if _, already := md["deletionTimestamp"]; !already {
			s.now++
			md["deletionTimestamp"] = "2024-01-01T00:00:" + two(s.now%60) + "Z"
			md["resourceVersion"] = s.nextRV()
			c.Effect = true
		}
	} else {
		s.entries = append(s.entries[:i:i], s.entries[i+1:]...)
		c.Effect = true
	}
	if f == FaultErrEffect {
		c.Err = true
		s.log(c)
		s.mutated()
		return errInjected
	}
	s.log(c)
	if c.Effect {
		s.mutated()
	}
	return nil
}

func two(n int) string {
	if n < 10 {
		return "0" + strconv.Itoa(n)
	}
	return strconv.Itoa(n)
}

// DeleteAllOf deletes every object of obj's group/kind (in the option's
// namespace, if any), one by one, with the semantics of Delete.
func (s *Store) DeleteAllOf(ctx context.Context, obj client.Object, opts ...client.DeleteAllOfOption) error {
	do := &client.DeleteAllOfOptions{}
	for _, o := range opts {
		o.ApplyToDeleteAllOf(do)
	}
	group, kind := s.GK(obj)
	c := Call{Verb: VerbDelete, Group: group, Kind: kind, NS: do.Namespace, Name: "*"}
	if f := s.fault(); f == FaultErrNoEffect || f == FaultConflict {
		c.Err = true
		s.log(c)
		return errInjected
	}
	var names [][2]string
	for _, e := range s.entries {
		if e.group == group && e.kind == kind && (do.Namespace == "" || e.ns == do.Namespace) {
			names = append(names, [2]string{e.ns, e.name})
		}
	}
	for _, n := range names {
		i := s.find(group, kind, n[0], n[1])
		if i < 0 {
			continue
		}
		md := metaOf(s.entries[i].doc)
		if fs, _ := md["finalizers"].([]any); len(fs) > 0 {
			if _, already := md["deletionTimestamp"]; !already {
				s.now++
				md["deletionTimestamp"] = "2024-01-01T00:00:" + two(s.now%60) + "Z"
				md["resourceVersion"] = s.nextRV()
				c.Effect = true
			}
		} else {
			s.entries = append(s.entries[:i:i], s.entries[i+1:]...)
			c.Effect = true
		}
	}
	s.log(c)
	if c.Effect {
		s.mutated()
	}
	return nil
}

type statusWriter struct{ s *Store }

func (w *statusWriter) Create(context.Context, client.Object, client.Object, ...client.SubResourceCreateOption) error {
	panic("kube model: status create is not modelled")
}

func (w *statusWriter) Update(_ context.Context, obj client.Object, _ ...client.SubResourceUpdateOption) error {
	s := w.s
	group, kind := s.GK(obj)
	c := Call{Verb: VerbStatusUpdate, Group: group, Kind: kind, NS: obj.GetNamespace(), Name: obj.GetName()}
	f := s.fault()
	if f == FaultErrNoEffect {
		c.Err = true
		s.log(c)
		return errInjected
	}
	if f == FaultConflict {
		c.Err = true
		s.log(c)
		return kerrors.NewConflict(gr(group, kind), c.Name, errString("injected conflict"))
	}
	i := s.find(group, kind, c.NS, c.Name)
	if i < 0 {
		c.Err = true
		s.log(c)
		return kerrors.NewNotFound(gr(group, kind), c.Name)
	}
	cur := s.entries[i].doc
	if rv := obj.GetResourceVersion(); rv != "" && rv != str(metaOf(cur), "resourceVersion") {
		c.Err = true
		s.log(c)
		return kerrors.NewConflict(gr(group, kind), c.Name, errString("the object has been modified"))
	}
	doc := toDoc(obj)
	next := runtime.DeepCopyJSON(cur)
	if st, ok := doc["status"]; ok {
		next["status"] = st
	} else {
		delete(next, "status")
	}
	if !reflect.DeepEqual(next, cur) {
		metaOf(next)["resourceVersion"] = s.nextRV()
		s.entries[i].doc = next
		c.Effect = true
	}
	if f == FaultErrEffect {
		c.Err = true
		s.log(c)
		s.mutated()
		return errInjected
	}
	s.log(c)
	fromDoc(next, obj)
	if c.Effect {
		s.mutated()
	}
	return nil
}

func (w *statusWriter) Patch(ctx context.Context, obj client.Object, p client.Patch, _ ...client.SubResourcePatchOption) error {
	s := w.s
	group, kind := s.GK(obj)
	c := Call{Verb: VerbStatusPatch, Group: group, Kind: kind, NS: obj.GetNamespace(), Name: obj.GetName()}
	f := s.fault()
	if f == FaultErrNoEffect || f == FaultConflict {
		c.Err = true
		s.log(c)
		return errInjected
	}
	i := s.find(group, kind, c.NS, c.Name)
	if i < 0 {
		c.Err = true
		s.log(c)
		return kerrors.NewNotFound(gr(group, kind), c.Name)
	}
	data, err := p.Data(obj)
	if err != nil {
		panic("kube model: patch data: " + err.Error())
	}
	patch := map[string]any{}
	if err := json.Unmarshal(data, &patch); err != nil {
		panic("kube model: patch is not a JSON object: " + err.Error())
	}
	next := runtime.DeepCopyJSON(s.entries[i].doc)
	if st, ok := patch["status"].(map[string]any); ok {
		cur, _ := next["status"].(map[string]any)
		if cur == nil || p.Type() == types.ApplyPatchType {
			cur = map[string]any{}
		}
		mergePatch(cur, st)
		next["status"] = cur
	}
	if !reflect.DeepEqual(next, s.entries[i].doc) {
		metaOf(next)["resourceVersion"] = s.nextRV()
		s.entries[i].doc = next
		c.Effect = true
	}
	if f == FaultErrEffect {
		c.Err = true
		s.log(c)
		s.mutated()
		return errInjected
	}
	s.log(c)
	fromDoc(next, obj)
	if c.Effect {
		s.mutated()
	}
	return nil
}

var _ = metav1.Now
