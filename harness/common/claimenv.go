//go:build verif

//gosym:package github.com/crossplane/crossplane/internal/controller/apiextensions/claim
//gosym:file zz_common_claimenv_verif.go

package claim

import "k8s.io/apimachinery/pkg/runtime/schema"

var (
	zzClaimGVK = schema.GroupVersionKind{Group: "example.org", Version: "v1", Kind: "Claim"}
	zzXRGVK    = schema.GroupVersionKind{Group: "example.org", Version: "v1", Kind: "XR"}
)
