//go:build verif

//gosym:package github.com/crossplane/crossplane/internal/controller/apiextensions/composite
//gosym:file zz_common_fnenv_verif.go

package composite

import (
	"context"

	"google.golang.org/protobuf/types/known/structpb"
	metav1 "k8s.io/apimachinery/pkg/apis/meta/v1"
	"k8s.io/apimachinery/pkg/runtime/schema"
	"k8s.io/apimachinery/pkg/types"
	"k8s.io/utils/ptr"

	"github.com/crossplane/crossplane-runtime/pkg/resource/unstructured/composed"
	"github.com/crossplane/crossplane-runtime/pkg/resource/unstructured/composite"

	fnv1 "github.com/crossplane/crossplane/apis/apiextensions/fn/proto/v1"
	v1 "github.com/crossplane/crossplane/apis/apiextensions/v1"
	"github.com/crossplane/crossplane/internal/xcrd"
	zz "github.com/crossplane/crossplane/internal/zzverif"
	"github.com/crossplane/crossplane/internal/zzverif/kube"
)

// Shared environment of the composer harnesses (C01-C05).

const (
	zzXRName  = "xr"
	zzXRUIDc  = "uid-xr"
	zzCDGroup = "example.org"
	zzCDKind  = "Composed"
)

var (
	zzXRGVK = schema.GroupVersionKind{Group: "example.org", Version: "v1", Kind: "XR"}
	zzCDGVK = schema.GroupVersionKind{Group: zzCDGroup, Version: "v1", Kind: zzCDKind}
	// candidate desired resource names
	zzResNames = []string{"res-a", "res-b", "res-c"}
)

// pre-state of one candidate composed resource
type zzPre struct {
	exists     bool
	referenced bool
	owner      int // 0 ours, 1 none, 2 foreign
	name       string
}

const (
	zzOwnOurs = iota
	zzOwnNone
	zzOwnForeign
)

func zzNewXRObject() *composite.Unstructured {
	xr := composite.New(composite.WithGroupVersionKind(zzXRGVK))
	xr.SetName(zzXRName)
	xr.SetUID(zzXRUIDc)
	xr.SetLabels(map[string]string{xcrd.LabelKeyNamePrefixForComposed: zzXRName})
	return xr
}

func zzComposedObject(metaName, resName string, owner int, foreignUID string) *composed.Unstructured {
	cd := composed.New()
	cd.SetAPIVersion("example.org/v1")
	cd.SetKind(zzCDKind)
	cd.SetName(metaName)
	cd.SetGenerateName(zzXRName + "-")
	cd.SetAnnotations(map[string]string{AnnotationKeyCompositionResourceName: resName})
	cd.SetLabels(map[string]string{xcrd.LabelKeyNamePrefixForComposed: zzXRName})
	switch owner {
	case zzOwnOurs:
		cd.SetOwnerReferences([]metav1.OwnerReference{{APIVersion: "example.org/v1", Kind: "XR", Name: zzXRName, UID: zzXRUIDc, Controller: ptr.To(true), BlockOwnerDeletion: ptr.To(true)}})
	case zzOwnForeign:
		// the foreign owner's UID differs from the XR's; its name is arbitrary
		// (two owners of different kinds may well share a name)
		cd.SetOwnerReferences([]metav1.OwnerReference{{APIVersion: "example.org/v1", Kind: "Other", Name: zz.Str("foreign.owner.name"), UID: types.UID(foreignUID), Controller: ptr.To(true)}})
	}
	cd.Object["spec"] = map[string]any{"field": "old"}
	return cd
}

// zzSetupComposed builds the pre-state: n candidate composed resources, each
// existing or not, referenced by the XR or not, controlled by the XR, by
// nobody, or by a foreign owner; and the XR that references them. The
// pre-state satisfies the invariant every reconcile maintains: a live object
// controlled by the XR is referenced by the XR.
func zzSetupComposed(s *kube.Store, n int, foreignUID string, allowForeign bool) []zzPre {
	return zzSetupComposedN(s, n, n, foreignUID, allowForeign)
}

// zzSetupComposedN is zzSetupComposed with only the first nSym candidates
// symbolic; the others exist, are referenced and controlled by the XR.
func zzSetupComposedN(s *kube.Store, n, nSym int, foreignUID string, allowForeign bool) []zzPre {
	xr := zzNewXRObject()
	var pre []zzPre
	var refs []any
	for i := 0; i < n; i++ {
		nm := "pre" + string(rune('0'+i))
		p := zzPre{name: zzXRName + "-old" + string(rune('a'+i))}
		if i < nSym {
			p.exists = zz.Bool(nm + ".exists")
			p.referenced = zz.Bool(nm + ".referenced")
			owners := 2
			if allowForeign {
				owners = 3
			}
			p.owner = zz.Choose(nm+".owner", owners)
		} else {
			p.exists, p.referenced, p.owner = true, true, zzOwnOurs
		}
		if p.exists {
			// invariant: controlled by the XR => referenced
			zz.Assume(p.owner != zzOwnOurs || p.referenced)
			s.Put(zzComposedObject(p.name, zzResNames[i], p.owner, foreignUID))
		}
		if p.referenced {
			refs = append(refs, map[string]any{"apiVersion": "example.org/v1", "kind": zzCDKind, "name": p.name})
		}
		pre = append(pre, p)
	}
	if len(refs) > 0 {
		xr.Object["spec"] = map[string]any{"resourceRefs": refs}
	}
	s.Put(xr)
	return pre
}

// zzReadXR reads the XR the way the reconciler does at the start of a
// reconcile.
func zzReadXR(s *kube.Store) *composite.Unstructured {
	xr := composite.New(composite.WithGroupVersionKind(zzXRGVK))
	if !s.Peek("", zzXRName, xr) {
		panic("harness: XR not in store")
	}
	return xr
}

// zzStoredRefNames returns the names in the stored XR's spec.resourceRefs.
func zzStoredRefNames(s *kube.Store) []string {
	doc := s.Doc(zzXRGVK.Group, zzXRGVK.Kind, "", zzXRName)
	spec, _ := doc["spec"].(map[string]any)
	refs, _ := spec["resourceRefs"].([]any)
	var out []string
	for _, r := range refs {
		rm, _ := r.(map[string]any)
		n, _ := rm["name"].(string)
		out = append(out, n)
	}
	return out
}

type zzCD struct {
	name       string // metadata.name
	resName    string // composition resource name annotation
	controller string // controller UID
	rv         string
}

func zzStoredComposed(s *kube.Store) []zzCD {
	var out []zzCD
	s.Each(func(group, kind, _ string, name string, doc map[string]any) {
		if group != zzCDGroup || kind != zzCDKind {
			return
		}
		md, _ := doc["metadata"].(map[string]any)
		ann, _ := md["annotations"].(map[string]any)
		rn, _ := ann[AnnotationKeyCompositionResourceName].(string)
		rv, _ := md["resourceVersion"].(string)
		out = append(out, zzCD{name: name, resName: rn, controller: kube.ControllerUID(doc), rv: rv})
	})
	return out
}

// zzLeakInvariant is checked after every store mutation (so at every crash
// point): every live composed resource controlled by the XR is listed in the
// XR's stored spec.resourceRefs, and no desired resource name has two live
// composed resources controlled by the XR.
func zzLeakInvariant(s *kube.Store) func() {
	return func() {
		refs := zzStoredRefNames(s)
		cds := zzStoredComposed(s)
		for i, cd := range cds {
			if cd.controller != zzXRUIDc {
				continue
			}
			found := false
			for _, r := range refs {
				if r == cd.name {
					found = true
				}
			}
			zz.Assert("controlled-composed-resource-is-referenced-at-every-instant", found)
			for _, o := range cds[i+1:] {
				if o.controller == zzXRUIDc {
					zz.Assert("one-composed-resource-per-desired-name-at-every-instant", o.resName != cd.resName)
				}
			}
		}
	}
}

// zzStep is the scripted behaviour of one pipeline step.
// zzExtraKind is the kind of the extra resources steps ask for.
var zzExtraKind = "Extra"

type zzStep struct {
	desired []bool // which candidate resource names are in the desired state it returns
	ready   []fnv1.Ready
	fatal   bool
	warning bool
	normal  bool
	err     bool
	xrReady fnv1.Ready
	conds   []*fnv1.Condition
	// reqNames[k] is the name the step's k-th call asks an extra resource
	// for (by name); after the list is exhausted the last one is repeated.
	reqNames []string
	// reqKeys[k] is the requirement name (map key) used in round k; defaults to "extra"
	reqKeys []string
	// reqByLabel: the varying value is a match label instead of the match name
	reqByLabel bool
	// context value the step writes ("" = it echoes the context it was sent)
	ctxValue string
	// noContext: the step answers without any context
	noContext bool
	// namespace the desired resources are in ("" = cluster scoped)
	namespace string
	// namespaces: per desired resource, overriding namespace ("" = use namespace)
	namespaces []string
	// bodyless: per desired resource, the entry has no resource body (a function
	// that only reports on the resource, e.g. its readiness)
	bodyless []bool
	// carried: per desired resource, a composition-resource-name annotation its
	// body carries (e.g. copied over from an observed resource of another name)
	carried []string
	// explicit metadata.name the function gives desired resource i ("" = none)
	names []string
	// emptyMessages: results carry no message text
	emptyMessages bool
	// xrStatus: status the step puts into the desired composite (nil = none)
	xrStatus map[string]any
}

type zzCall struct {
	name string
	step int
	nth  int // n-th call of this step
	req  *fnv1.RunFunctionRequest
	// snapshots taken at call time (the request object is reused by callers)
	observed    *fnv1.State
	desired     *fnv1.State
	context     *structpb.Struct
	extraKeys   []string
	extraNames  []string // metadata.name of the first item per key ("" if nil / empty)
	extraCounts []int
	// credentials and input the call carried
	credNames []string
	credData  []string // value of the key "token" per credential
	input     *structpb.Struct
	rsp       *fnv1.RunFunctionResponse
}

// zzRunner is the function runner: it answers each call with the scripted
// response of the step the function name belongs to ("fn<i>") and records
// what it was sent.
type zzRunner struct {
	steps     []zzStep
	calls     []zzCall
	stepCalls []int
}

func zzDesiredResource(resName string) *fnv1.Resource {
	st, err := structpb.NewStruct(map[string]any{
		"apiVersion": "example.org/v1",
		"kind":       zzCDKind,
		"spec":       map[string]any{"field": "new-" + resName},
	})
	if err != nil {
		panic(err)
	}
	return &fnv1.Resource{Resource: st}
}

func (r *zzRunner) RunFunction(_ context.Context, name string, req *fnv1.RunFunctionRequest) (*fnv1.RunFunctionResponse, error) {
	idx := int(name[len(name)-1] - '0')
	for len(r.stepCalls) <= idx {
		r.stepCalls = append(r.stepCalls, 0)
	}
	k := r.stepCalls[idx]
	r.stepCalls[idx]++
	st := r.steps[idx]
	call := zzCall{name: name, step: idx, nth: k, req: req, observed: req.GetObserved(), desired: req.GetDesired(), context: req.GetContext()}
	for key, rs := range req.GetExtraResources() {
		call.extraKeys = append(call.extraKeys, key)
		call.extraCounts = append(call.extraCounts, len(rs.GetItems()))
		nm := ""
		if len(rs.GetItems()) > 0 {
			md, _ := rs.GetItems()[0].GetResource().AsMap()["metadata"].(map[string]any)
			nm, _ = md["name"].(string)
		}
		call.extraNames = append(call.extraNames, nm)
	}
	for cn, c := range req.GetCredentials() {
		call.credNames = append(call.credNames, cn)
		call.credData = append(call.credData, string(c.GetCredentialData().GetData()["token"]))
	}
	call.input = req.GetInput()
	if st.err {
		r.calls = append(r.calls, call)
		return nil, errString("function failed")
	}
	rsp := &fnv1.RunFunctionResponse{Desired: &fnv1.State{Resources: map[string]*fnv1.Resource{}}, Context: req.GetContext()}
	if st.ctxValue != "" {
		c, _ := structpb.NewStruct(map[string]any{"from": st.ctxValue})
		rsp.Context = c
	}
	if st.noContext {
		rsp.Context = nil
	}
	for i, want := range st.desired {
		if want {
			res := zzDesiredResource(zzResNames[i])
			ns := st.namespace
			if i < len(st.namespaces) && st.namespaces[i] != "" {
				ns = st.namespaces[i]
			}
			if ns != "" {
				md, _ := structpb.NewStruct(map[string]any{"namespace": ns})
				res.Resource.Fields["metadata"] = structpb.NewStructValue(md)
			}
			if i < len(st.names) && st.names[i] != "" {
				m := res.GetResource().AsMap()
				m["metadata"] = map[string]any{"name": st.names[i]}
				if ns != "" {
					m["metadata"] = map[string]any{"name": st.names[i], "namespace": ns}
				}
				ns, err := structpb.NewStruct(m)
				if err != nil {
					panic(err)
				}
				res.Resource = ns
			}
			if i < len(st.carried) && st.carried[i] != "" {
				m := res.GetResource().AsMap()
				md, _ := m["metadata"].(map[string]any)
				if md == nil {
					md = map[string]any{}
				}
				md["annotations"] = map[string]any{AnnotationKeyCompositionResourceName: st.carried[i]}
				m["metadata"] = md
				ns, err := structpb.NewStruct(m)
				if err != nil {
					panic(err)
				}
				res.Resource = ns
			}
			if i < len(st.bodyless) && st.bodyless[i] {
				res.Resource = nil
			}
			if i < len(st.ready) {
				res.Ready = st.ready[i]
			}
			rsp.Desired.Resources[zzResNames[i]] = res
		}
	}
	if st.xrReady != fnv1.Ready_READY_UNSPECIFIED {
		rsp.Desired.Composite = &fnv1.Resource{Ready: st.xrReady}
	}
	if st.xrStatus != nil {
		body, err := structpb.NewStruct(map[string]any{"status": st.xrStatus})
		if err != nil {
			panic(err)
		}
		rsp.Desired.Composite = &fnv1.Resource{Ready: st.xrReady, Resource: body}
	}
	rsp.Conditions = st.conds
	if len(st.reqNames) > 0 {
		n := st.reqNames[len(st.reqNames)-1]
		if k < len(st.reqNames) {
			n = st.reqNames[k]
		}
		key := "extra"
		if len(st.reqKeys) > 0 {
			key = st.reqKeys[len(st.reqKeys)-1]
			if k < len(st.reqKeys) {
				key = st.reqKeys[k]
			}
		}
		sel := &fnv1.ResourceSelector{ApiVersion: "example.org/v1", Kind: zzExtraKind, Match: &fnv1.ResourceSelector_MatchName{MatchName: n}}
		if st.reqByLabel {
			sel.Match = &fnv1.ResourceSelector_MatchLabels{MatchLabels: &fnv1.MatchLabels{Labels: map[string]string{"round": n}}}
		}
		rsp.Requirements = &fnv1.Requirements{ExtraResources: map[string]*fnv1.ResourceSelector{key: sel}}
	}
	msg := func(m string) string {
		if st.emptyMessages {
			return ""
		}
		return m
	}
	if st.fatal {
		rsp.Results = append(rsp.Results, &fnv1.Result{Severity: fnv1.Severity_SEVERITY_FATAL, Message: msg("fatal " + name)})
	}
	if st.warning {
		rsp.Results = append(rsp.Results, &fnv1.Result{Severity: fnv1.Severity_SEVERITY_WARNING, Message: msg("warning " + name)})
	}
	if st.normal {
		rsp.Results = append(rsp.Results, &fnv1.Result{Severity: fnv1.Severity_SEVERITY_NORMAL, Message: msg("normal " + name)})
	}
	call.rsp = rsp
	r.calls = append(r.calls, call)
	return rsp, nil
}

type errString string

func (e errString) Error() string { return string(e) }

func zzRevision(steps int) *v1.CompositionRevision {
	rev := &v1.CompositionRevision{ObjectMeta: metav1.ObjectMeta{Name: "comp-rev1"}}
	mode := v1.CompositionModePipeline
	rev.Spec.Mode = &mode
	rev.Spec.CompositeTypeRef = v1.TypeReference{APIVersion: "example.org/v1", Kind: "XR"}
	for i := 0; i < steps; i++ {
		rev.Spec.Pipeline = append(rev.Spec.Pipeline, v1.PipelineStep{Step: "step" + string(rune('0'+i)), FunctionRef: v1.FunctionReference{Name: "fn" + string(rune('0'+i))}})
	}
	return rev
}
