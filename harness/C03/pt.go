//go:build verif

//gosym:package github.com/crossplane/crossplane/internal/controller/apiextensions/composite
//gosym:file zz_c03_pt_verif.go

package composite

import (
	"context"

	fnv1 "github.com/crossplane/crossplane/apis/apiextensions/fn/proto/v1"
	zz "github.com/crossplane/crossplane/internal/zzverif"
	"github.com/crossplane/crossplane/internal/zzverif/kube"
)

// HarnessC03PT: garbage collection of the patch-and-transform composer over
// two reconciles of a fresh XR. The first composes from templates that are
// all named or all anonymous; the second from named templates: the same ones,
// or with some removed, or (after a named first reconcile) with some added.
// The second reconcile deletes exactly the composed resources whose named
// template no longer exists; a resource whose template is still there - also
// one composed from the then-anonymous template in the same position - is
// never deleted, not even to be recreated, and stays referenced.
//
//gosym:harness
//gosym:cover template-removed anonymous-then-named all-kept
func HarnessC03PT() {
	n := zz.Bound(2, 3)
	s := kube.New()
	zzSetupComposedN(s, 0, 0, "", false)
	c := NewPTComposer(s, s)

	anonymous := zz.Bool("first.anonymous")
	first := make([]bool, n)
	second := make([]bool, n)
	for i := 0; i < n; i++ {
		id := string(rune('0' + i))
		first[i] = zz.Bool("first.template" + id)
		second[i] = zz.Bool("second.template" + id)
		if anonymous {
			// naming anonymous templates is the supported migration: same
			// templates, same order
			zz.Assume(first[i])
			zz.Assume(second[i])
		}
	}
	rev1 := zzPTRevision(first, nil)
	if anonymous {
		for i := range rev1.Spec.Resources {
			rev1.Spec.Resources[i].Name = nil
		}
	}
	_, err := c.Compose(context.Background(), zzReadXR(s), CompositionRequest{Revision: rev1})
	zz.Assert("first-reconcile-succeeds", err == nil)
	if err != nil {
		return
	}
	// which composed resource belongs to which template: by annotation, or by
	// position in the references for anonymous templates
	refs := zzStoredRefNames(s)
	owner := map[string]int{}
	k := 0
	for i := 0; i < n; i++ {
		if !first[i] {
			continue
		}
		if anonymous {
			if k < len(refs) {
				owner[refs[k]] = i
			}
			k++
			continue
		}
		for _, cd := range zzStoredComposed(s) {
			if cd.resName == zzResNames[i] {
				owner[cd.name] = i
			}
		}
	}
	zz.Assert("first-reconcile-composed-every-template", len(owner) == k || !anonymous)

	logged := len(s.Log)
	_, err = c.Compose(context.Background(), zzReadXR(s), CompositionRequest{Revision: zzPTRevision(second, nil)})
	zz.Assert("second-reconcile-succeeds", err == nil)
	if err != nil {
		return
	}
	if anonymous {
		zz.Cover("anonymous-then-named")
	}
	deleted := map[string]bool{}
	for _, w := range s.Log[logged:] {
		if w.Verb == kube.VerbDelete && w.Kind == zzCDKind && !w.DryRun {
			deleted[w.Name] = true
		}
	}
	after := zzStoredRefNames(s)
	removed, kept := false, true
	for name, i := range owner {
		if second[i] {
			zz.Assert("still-desired-resource-never-deleted", !deleted[name])
			stillRef := false
			for _, r := range after {
				if r == name {
					stillRef = true
				}
			}
			zz.Assert("still-desired-resource-stays-referenced", stillRef)
			zz.Assert("still-desired-resource-exists", s.Exists(zzCDGroup, zzCDKind, "", name))
		} else {
			removed, kept = true, false
			zz.Assert("resource-of-a-removed-template-is-deleted", deleted[name])
		}
	}
	for name := range deleted {
		_, ours := owner[name]
		zz.Assert("only-previously-composed-resources-are-deleted", ours)
	}
	if removed {
		zz.Cover("template-removed")
	}
	if kept && len(owner) > 0 {
		zz.Cover("all-kept")
	}
	zz.Observe("deleted", len(deleted), len(after))
}

// HarnessC03GCRetry: garbage collection stays exact across a failure. Two
// composed resources of this XR exist; the pipeline no longer desires the
// second. The first reconcile may be cut short by an API failure at any call
// (the collector's own writes included); the retry succeeds. After it, the
// resource that left the desired state is gone, the one still desired was
// never deleted, and the references name exactly what is left.
//
//gosym:harness
//gosym:cover fault-hit collected
func HarnessC03GCRetry() {
	s := kube.New()
	zzSetupComposedN(s, 2, 0, "", false)
	runner := &zzRunner{steps: []zzStep{{desired: []bool{true, false}}}}
	c := NewFunctionComposer(s, s, runner)
	req := CompositionRequest{Revision: zzRevision(1)}
	var gone, kept string
	for _, cd := range zzStoredComposed(s) {
		if cd.resName == zzResNames[1] {
			gone = cd.name
		} else {
			kept = cd.name
		}
	}
	s.FaultAt = zz.Choose("fault.at", zz.Bound(12, 14)) - 1
	s.FaultKind = 1 + zz.Choose("fault.kind", 3)
	_, _ = c.Compose(context.Background(), zzReadXR(s), req)
	if s.Faulted {
		zz.Cover("fault-hit")
	}
	s.FaultAt = -1
	_, err := c.Compose(context.Background(), zzReadXR(s), req)
	zz.Assert("retry-succeeds", err == nil)
	if err != nil {
		return
	}
	zz.Cover("collected")
	zz.Assert("resource-that-left-the-desired-state-is-deleted", !s.Exists(zzCDGroup, zzCDKind, "", gone))
	zz.Assert("still-desired-resource-exists", s.Exists(zzCDGroup, zzCDKind, "", kept))
	for _, w := range s.Log {
		if w.Verb == kube.VerbDelete && w.Kind == zzCDKind && w.Name == kept {
			zz.Assert("still-desired-resource-never-deleted", false)
		}
	}
	refs := zzStoredRefNames(s)
	zz.Assert("references-name-exactly-what-is-left", len(refs) == 1 && refs[0] == kept)
}

// HarnessC03CarriedAnnotation: a desired resource whose body carries a
// composition-resource-name annotation other than its own name - a function
// that renamed a resource and copied the observed metadata over, a template
// exported from a live object. Three reconciles of a fresh XR: the resource
// is created once under its own name and, being desired throughout, is never
// deleted; the third reconcile changes nothing.
//
//gosym:harness
//gosym:cover carried quiescent
func HarnessC03CarriedAnnotation() {
	s := kube.New()
	zzSetupComposedN(s, 0, 0, "", false)
	st := zzStep{desired: []bool{true, true}, carried: []string{"", ""}}
	if zz.Bool("res0.carriesAnotherName") {
		zz.Cover("carried")
		st.carried[0] = "old-name"
	}
	runner := &zzRunner{steps: []zzStep{st}}
	c := NewFunctionComposer(s, s, runner)
	req := CompositionRequest{Revision: zzRevision(1)}
	before := 0
	for k := 0; k < 3; k++ {
		if k == 2 {
			for _, w := range s.Writes(false) {
				if w.Effect {
					before++
				}
			}
		}
		_, err := c.Compose(context.Background(), zzReadXR(s), req)
		zz.Assert("reconcile-succeeds", err == nil)
		if err != nil {
			return
		}
	}
	for _, w := range s.Log {
		if w.Verb == kube.VerbDelete && w.Kind == zzCDKind {
			zz.Assert("still-desired-resource-never-deleted", false)
		}
	}
	zz.Assert("one-composed-resource-per-desired-name", s.Count(zzCDGroup, zzCDKind) == 2)
	after := 0
	for _, w := range s.Writes(false) {
		if w.Effect {
			after++
		}
	}
	zz.Cover("quiescent")
	zz.Assert("third-reconcile-changes-nothing", after == before)
}

// HarnessC03Bodyless: the pipeline keeps an existing composed resource in its
// desired state but gives the entry no resource body (it only reports the
// resource ready). Whatever the composer makes of such an entry, the resource
// is in the final desired state: it is not deleted and stays referenced.
//
//gosym:harness
//gosym:cover bodyless with-body
func HarnessC03Bodyless() {
	s := kube.New()
	zzSetupComposedN(s, 2, 0, "", false)
	st := zzStep{desired: []bool{true, true}, ready: []fnv1.Ready{fnv1.Ready_READY_TRUE, fnv1.Ready_READY_TRUE}, bodyless: []bool{false, false}}
	if zz.Bool("res0.entryWithoutBody") {
		zz.Cover("bodyless")
		st.bodyless[0] = true
	} else {
		zz.Cover("with-body")
	}
	runner := &zzRunner{steps: []zzStep{st}}
	c := NewFunctionComposer(s, s, runner)
	before := zzStoredComposed(s)
	_, _ = c.Compose(context.Background(), zzReadXR(s), CompositionRequest{Revision: zzRevision(1)})
	for _, w := range s.Log {
		if w.Verb == kube.VerbDelete && w.Kind == zzCDKind {
			zz.Assert("still-desired-resource-never-deleted", false)
		}
	}
	zz.Assert("every-desired-resource-still-exists", len(zzStoredComposed(s)) == len(before))
	zz.Assert("every-desired-resource-still-referenced", len(zzStoredRefNames(s)) == len(before))
}
