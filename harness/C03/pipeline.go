//go:build verif

//gosym:package github.com/crossplane/crossplane/internal/controller/apiextensions/composite
//gosym:file zz_c03_pipeline_verif.go

package composite

import (
	"context"

	zz "github.com/crossplane/crossplane/internal/zzverif"
	"github.com/crossplane/crossplane/internal/zzverif/kube"
)

// HarnessC03Pipeline: a failing pipeline is never destructive, and on
// success exactly the previously composed resources that are absent from the
// final desired state are deleted.
//
//gosym:harness
//gosym:cover pipeline-failed pipeline-ok gc-deleted foreign-referenced observe-failed never-stabilises
func HarnessC03Pipeline() {
	zzC03Pipeline(2, zz.Bound(2, 3), true)
}

// HarnessC03Wide: three candidate names, two steps, without the requirement
// rounds and observation faults the other harness explores.
//
//gosym:harness thorough
//gosym:cover pipeline-failed pipeline-ok gc-deleted foreign-referenced
func HarnessC03Wide() {
	zzC03Pipeline(3, 2, false)
}

func zzC03Pipeline(n, nSteps int, full bool) {
	s := kube.New()
	foreign := zz.Str("foreign.uid")
	zz.Assume(foreign != zzXRUIDc)
	zz.Assume(foreign != "")
	pre := zzSetupComposed(s, n, foreign, true)
	refsBefore := zzStoredRefNames(s)

	// step behaviours. Only the last step's desired set matters for the final
	// state: it is solver-chosen; earlier steps desire everything (so a later
	// step shrinking the set is covered). Outcomes per step are solver-chosen;
	// the first step may also ask for extra resources, with requirements that
	// stabilise after j rounds or never.
	runner := &zzRunner{}
	failing := false
	unstable := false // some step's requirements do not repeat within the allowed number of calls
	for i := 0; i < nSteps; i++ {
		nm := "step" + string(rune('0'+i))
		st := zzStep{desired: make([]bool, n)}
		for j := range st.desired {
			st.desired[j] = true
			if i == nSteps-1 {
				st.desired[j] = zz.Bool(nm + ".desired" + string(rune('0'+j)))
			}
		}
		outcomes := 4
		if i == 0 && full {
			outcomes = 5
		}
		if !full {
			outcomes = 3 // normal, warning, fatal
		}
		switch zz.Choose(nm+".outcome", outcomes) {
		case 1:
			st.warning = true
		case 2:
			st.fatal = true
			failing = true
			st.emptyMessages = zz.Bool(nm + ".emptyMessage")
		case 3:
			st.err = true
			failing = true
		case 4:
			// requirement names differ from round to round until round j,
			// then repeat (j beyond the bound: never stabilises)
			rounds := int(MaxRequirementsIterations) + 2
			j := 1 + zz.Choose(nm+".stabilisesAfter", rounds)
			st.reqByLabel = zz.Bool(nm + ".selectsByLabel")
			// calls j-1 and j are the first two with equal requirements; the
			// runner makes at most MaxRequirementsIterations+1 calls
			if j > int(MaxRequirementsIterations) {
				unstable = true
			}
			for k := 0; k < rounds; k++ {
				if k < j {
					st.reqNames = append(st.reqNames, "extra-"+string(rune('a'+k)))
				} else {
					st.reqNames = append(st.reqNames, st.reqNames[j-1])
				}
			}
		}
		runner.steps = append(runner.steps, st)
	}
	final := runner.steps[nSteps-1].desired

	// observing may fail: a fault on one of the first calls (the Gets of the
	// referenced resources)
	s.FaultAt = -1
	if full {
		s.FaultAt = zz.Choose("observe.fault", 3) - 1
	}
	s.FaultKind = kube.FaultErrNoEffect
	nRefs := len(refsBefore)

	c := NewFunctionComposer(s, s, NewFetchingFunctionRunner(runner, NewExistingExtraResourcesFetcher(s)))
	_, err := c.Compose(context.Background(), zzReadXR(s), CompositionRequest{Revision: zzRevision(nSteps)})
	observeFailed := s.Faulted && s.FaultAt < nRefs

	composedWrites := 0
	var deleted []string
	for _, w := range s.Writes(false) {
		if w.Kind == zzCDKind {
			composedWrites++
			if w.Verb == kube.VerbDelete {
				deleted = append(deleted, w.Name)
			}
		}
	}

	if err != nil {
		zz.Cover("pipeline-failed")
		// was the failure one of the listed pre-GC causes?
		neverStabilised := false
		for i, st := range runner.steps {
			if len(st.reqNames) > 0 && i < len(runner.stepCalls) && runner.stepCalls[i] > int(MaxRequirementsIterations) {
				neverStabilised = true
				zz.Cover("never-stabilises")
			}
		}
		if observeFailed {
			zz.Cover("observe-failed")
		}
		if failing || observeFailed || neverStabilised {
			zz.Assert("failed-pipeline-touches-no-composed-resource", composedWrites == 0)
			after := zzStoredRefNames(s)
			same := len(after) == len(refsBefore)
			for i := range after {
				same = same && i < len(refsBefore) && after[i] == refsBefore[i]
			}
			zz.Assert("failed-pipeline-leaves-resource-refs-untouched", same)
		}
		return
	}
	zz.Cover("pipeline-ok")
	zz.Assert("pipeline-with-failing-step-does-not-succeed", !failing && !observeFailed)
	zz.Assert("pipeline-whose-requirements-never-stabilise-does-not-succeed", !unstable)
	for _, k := range runner.stepCalls {
		zz.Assert("function-called-a-bounded-number-of-times", k <= int(MaxRequirementsIterations)+1)
	}

	// garbage collection is exact
	for i, p := range pre {
		observed := p.exists && p.referenced && p.owner != zzOwnForeign
		if p.exists && p.referenced && p.owner == zzOwnForeign {
			zz.Cover("foreign-referenced")
		}
		wasDeleted := false
		for _, d := range deleted {
			if d == p.name {
				wasDeleted = true
			}
		}
		if final[i] {
			zz.Assert("still-desired-resource-never-deleted", !wasDeleted)
		}
		zz.Assert("deleted-iff-observed-and-no-longer-desired", wasDeleted == (observed && !final[i]))
		if wasDeleted {
			zz.Cover("gc-deleted")
		}
	}
	zz.Assert("nothing-else-deleted", len(deleted) <= n)
	zz.Observe("deleted", len(deleted), composedWrites)
}
