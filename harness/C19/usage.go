//go:build verif

//gosym:package github.com/crossplane/crossplane/internal/controller/apiextensions/usage
//gosym:file zz_c19_usage_verif.go

package usage

import (
	"context"
	"net/http"

	admissionv1 "k8s.io/api/admission/v1"
	metav1 "k8s.io/apimachinery/pkg/apis/meta/v1"
	"k8s.io/apimachinery/pkg/apis/meta/v1/unstructured"
	"k8s.io/apimachinery/pkg/runtime"
	"k8s.io/apimachinery/pkg/types"
	"k8s.io/apimachinery/pkg/util/json"
	ctrl "sigs.k8s.io/controller-runtime"
	"sigs.k8s.io/controller-runtime/pkg/client"
	"sigs.k8s.io/controller-runtime/pkg/reconcile"
	"sigs.k8s.io/controller-runtime/pkg/webhook"
	"sigs.k8s.io/controller-runtime/pkg/webhook/admission"

	xpv1 "github.com/crossplane/crossplane-runtime/apis/common/v1"
	"github.com/crossplane/crossplane-runtime/pkg/controller"
	"github.com/crossplane/crossplane-runtime/pkg/logging"

	"github.com/crossplane/crossplane/apis/apiextensions/v1beta1"
	"github.com/crossplane/crossplane/internal/usage"
	zz "github.com/crossplane/crossplane/internal/zzverif"
	"github.com/crossplane/crossplane/internal/zzverif/kube"
)

// zzMgr wires the webhook and the controller to one store, and captures the
// admission handler the real setup code registers.
type zzMgr struct {
	ctrl.Manager
	s    *kube.Store
	hook http.Handler
}

func (m *zzMgr) GetClient() client.Client             { return m.s }
func (m *zzMgr) GetFieldIndexer() client.FieldIndexer { return m.s }
func (m *zzMgr) GetWebhookServer() webhook.Server     { return &zzWebhookServer{m: m} }

type zzWebhookServer struct {
	webhook.Server
	m *zzMgr
}

func (w *zzWebhookServer) Register(_ string, hook http.Handler) { w.m.hook = hook }

type zzGKN struct{ group, version, kind, name string }

func zzSymGKN(n string) zzGKN {
	return zzGKN{
		group:   zz.StrNo(n+".group", "/"),
		version: []string{"v1", "v1beta1"}[zz.Choose(n+".version", 2)],
		kind:    zz.StrNo(n+".kind", "/."),
		name:    zz.StrNo(n+".name", "/"),
	}
}

func (g zzGKN) apiVersion() string { return g.group + "/" + g.version }

func zzSetupStore() (*kube.Store, admission.Handler) {
	s := kube.New()
	s.Register(&v1beta1.Usage{}, &v1beta1.UsageList{}, "apiextensions.crossplane.io", "Usage")
	kube.NewIndexed = func(_, _ string) client.Object { return &v1beta1.Usage{} }
	m := &zzMgr{s: s}
	if err := usage.SetupWebhookWithManager(m, controller.Options{Logger: logging.NewNopLogger()}); err != nil {
		panic(err)
	}
	return s, m.hook.(*webhook.Admission).Handler
}

func zzUsage(name string, of zzGKN) *v1beta1.Usage {
	u := &v1beta1.Usage{ObjectMeta: metav1.ObjectMeta{Name: name}}
	u.Spec.Of = v1beta1.Resource{APIVersion: of.apiVersion(), Kind: of.kind, ResourceRef: &v1beta1.ResourceRef{Name: of.name}}
	u.Spec.Reason = ptrTo("because")
	return u
}

func ptrTo[T any](v T) *T { return &v }

// HarnessC19Webhook: with Usages registered through the real index function,
// a delete request for an object is refused (409, attempt recorded) exactly
// when some Usage names that object's group, kind and name - whatever the API
// versions on either side - and allowed otherwise; other operations are
// rejected as bad requests.
//
//gosym:harness panics
//gosym:cover refused allowed other-version non-delete earlier-attempt-other-policy by-unresolved-selector
func HarnessC19Webhook() {
	s, h := zzSetupStore()

	// the resource under deletion
	obj := zzSymGKN("obj")
	zz.Assume(obj.group != "")
	zz.Assume(obj.kind != "")
	zz.Assume(obj.name != "")
	// (it is not one of the Usage objects themselves)
	zz.Assume(zz.Not(zz.And(obj.group == "apiextensions.crossplane.io", obj.kind == "Usage")))
	u := &unstructured.Unstructured{Object: map[string]any{}}
	u.SetAPIVersion(obj.apiVersion())
	u.SetKind(obj.kind)
	u.SetName(obj.name)
	// an earlier delete may have been refused and recorded already
	earlier := []string{"", "Background", "Foreground", "Orphan"}[zz.Choose("earlier.attempt", 4)]
	if earlier != "" {
		u.SetAnnotations(map[string]string{usage.AnnotationKeyDeletionAttempt: earlier})
	}
	s.Put(u)

	// Usages over arbitrary resources
	nUsages := zz.Choose("usages", zz.Bound(2, 3))
	var ofs []zzGKN
	for i := 0; i < nUsages; i++ {
		of := zzSymGKN("of" + string(rune('0'+i)))
		zz.Assume(of.group != "")
		zz.Assume(of.kind != "")
		zz.Assume(of.name != "")
		ofs = append(ofs, of)
		us := zzUsage("usage-"+string(rune('a'+i)), of)
		// the Usage gives a reason, names its using resource, or selects it
		// by labels (and the selector is not resolved yet, or matches nothing)
		switch zz.Choose("usage"+string(rune('0'+i))+".form", 3) {
		case 1:
			us.Spec.Reason = nil
			us.Spec.By = &v1beta1.Resource{APIVersion: "example.org/v1", Kind: "Using", ResourceRef: &v1beta1.ResourceRef{Name: "using-1"}}
		case 2:
			us.Spec.Reason = nil
			us.Spec.By = &v1beta1.Resource{APIVersion: "example.org/v1", Kind: "Using", ResourceSelector: &v1beta1.ResourceSelector{MatchLabels: map[string]string{"app": "x"}}}
			zz.Cover("by-unresolved-selector")
		}
		s.Put(us)
	}

	op := []admissionv1.Operation{admissionv1.Delete, admissionv1.Create, admissionv1.Update, admissionv1.Connect}[zz.Choose("operation", 4)]
	raw, err := json.Marshal(u.Object)
	if err != nil {
		panic(err)
	}
	optsRaw := []byte(`{}`)
	policy := "Background"
	switch zz.Choose("delete.policy", 3) {
	case 1:
		optsRaw = []byte(`{"propagationPolicy":"Foreground"}`)
		policy = "Foreground"
	case 2:
		optsRaw = []byte(`{"propagationPolicy":"Orphan"}`)
		policy = "Orphan"
	}
	req := admission.Request{AdmissionRequest: admissionv1.AdmissionRequest{
		Operation: op,
		OldObject: runtime.RawExtension{Raw: raw},
		Options:   runtime.RawExtension{Raw: optsRaw},
	}}
	rsp := h.Handle(context.Background(), req)

	if op != admissionv1.Delete {
		zz.Cover("non-delete")
		zz.Assert("non-delete-operations-are-bad-requests", !rsp.Allowed && rsp.Result != nil && rsp.Result.Code == http.StatusBadRequest)
		return
	}
	used := false
	otherVersion := false
	for _, of := range ofs {
		same := zz.And(of.group == obj.group, of.kind == obj.kind, of.name == obj.name)
		used = zz.Or(used, same)
		otherVersion = zz.Or(otherVersion, zz.And(same, of.version != obj.version))
	}
	if !rsp.Allowed {
		zz.Cover("refused")
		// protection ends exactly when use ends: no Usage names it => allowed
		zz.Assert("delete-refused-only-if-a-usage-names-the-resource", used)
		zz.Assert("refusal-is-a-conflict", rsp.Result != nil && rsp.Result.Code == http.StatusConflict)
		doc := s.Doc(obj.group, obj.kind, "", obj.name)
		md, _ := doc["metadata"].(map[string]any)
		ann, _ := md["annotations"].(map[string]any)
		zz.Assert("deletion-attempt-recorded-on-the-resource", ann[usage.AnnotationKeyDeletionAttempt] == any(policy))
		if earlier != "" && earlier != policy {
			zz.Cover("earlier-attempt-other-policy")
		}
	} else {
		zz.Cover("allowed")
		// every delete of a used resource is refused, whichever API version
		zz.Assert("delete-of-used-resource-refused-whatever-the-version", zz.Not(used))
	}
	if zz.Bool("witness.other-version") {
		zz.Assume(otherVersion)
		zz.Cover("other-version")
	}
	zz.Observe("allowed", rsp.Allowed)
}

// HarnessC19Reconciler: the in-use marker is on the used resource before the
// Usage reports ready; it is removed only when the last Usage of the resource
// is deleted; a Usage by a resource becomes owned by that resource.
//
//gosym:harness
//gosym:cover ready deleted-last deleted-not-last fault-hit owned-by-using marker-switched-off
func HarnessC19Reconciler() {
	s, _ := zzSetupStore()
	of := zzGKN{group: "example.org", version: "v1", kind: "Used", name: "used-1"}
	usedObj := &unstructured.Unstructured{Object: map[string]any{}}
	usedObj.SetAPIVersion(of.apiVersion())
	usedObj.SetKind(of.kind)
	usedObj.SetName(of.name)
	s.Put(usedObj)
	using := &unstructured.Unstructured{Object: map[string]any{}}
	using.SetAPIVersion("example.org/v1")
	using.SetKind("Using")
	using.SetName("using-1")
	using.SetUID("uid-using")
	s.Put(using)

	u := zzUsage("usage-a", of)
	u.SetUID("uid-usage-a")
	hasBy := zz.Bool("usage.by")
	if hasBy {
		u.Spec.Reason = nil
		u.Spec.By = &v1beta1.Resource{APIVersion: "example.org/v1", Kind: "Using", ResourceRef: &v1beta1.ResourceRef{Name: "using-1"}}
	}
	// the Usage may itself be composed: it then already has an owner (its XR)
	if zz.Bool("usage.composed") {
		u.OwnerReferences = []metav1.OwnerReference{{APIVersion: "example.org/v1", Kind: "XR", Name: "xr", UID: "uid-xr", Controller: ptrTo(true)}}
	}
	deleting := zz.Bool("usage.deleting")
	otherUsage := zz.Bool("other.usage.exists")
	if otherUsage {
		// another Usage of the same resource, written with another API version
		o := zzUsage("usage-b", zzGKN{group: of.group, version: "v1beta1", kind: of.kind, name: of.name})
		s.Put(o)
	}
	if deleting {
		u.Finalizers = []string{finalizer}
		now := metav1.Now()
		u.DeletionTimestamp = &now
		// the used resource carries the marker from when the Usage was ready
		usedObj.SetLabels(map[string]string{inUseLabelKey: "true"})
		s.Put(usedObj)
	} else if zz.Bool("used.markerSwitchedOff") {
		// somebody set the marker label to another value (the webhook only
		// selects the value "true")
		zz.Cover("marker-switched-off")
		usedObj.SetLabels(map[string]string{inUseLabelKey: "false"})
		s.Put(usedObj)
	}
	s.Put(u)

	s.FaultAt = zz.Choose("fault.at", zz.Bound(8, 10)) - 1
	s.FaultKind = 1 + zz.Choose("fault.kind", 3)
	marked := func() bool {
		doc := s.Doc(of.group, of.kind, "", of.name)
		md, _ := doc["metadata"].(map[string]any)
		l, _ := md["labels"].(map[string]any)
		return l[inUseLabelKey] == any("true")
	}
	// at every instant: a Usage that reports ready has its marker in place
	s.OnMutate = func() {
		su := &v1beta1.Usage{}
		if s.Peek("", "usage-a", su) && su.Status.GetCondition(xpv1.TypeReady).Status == "True" && su.DeletionTimestamp == nil {
			zz.Assert("marker-in-place-before-usage-reports-ready", marked())
		}
		if otherUsage {
			// while another Usage of the resource exists the marker stays
			zz.Assert("marker-removed-only-with-the-last-usage", marked() || !deleting || !s.Exists("apiextensions.crossplane.io", "Usage", "", "usage-b"))
		}
	}

	r := NewReconciler(&zzMgr{s: s})
	req := reconcile.Request{NamespacedName: types.NamespacedName{Name: "usage-a"}}
	_, err := r.Reconcile(context.Background(), req)
	if s.Faulted {
		zz.Cover("fault-hit")
		s.FaultAt = -1
		_, err = r.Reconcile(context.Background(), req)
	}
	s.FaultAt = -1
	zz.Assert("reconcile-no-error", err == nil)
	if err != nil {
		return
	}
	if deleting {
		if otherUsage {
			zz.Cover("deleted-not-last")
			zz.Assert("marker-kept-while-another-usage-exists", marked())
		} else {
			zz.Cover("deleted-last")
			zz.Assert("marker-removed-with-the-last-usage", !marked())
		}
		return
	}
	// a second reconcile brings the status up to date
	_, err = r.Reconcile(context.Background(), req)
	zz.Assert("second-reconcile-no-error", err == nil)
	su := &v1beta1.Usage{}
	s.Peek("", "usage-a", su)
	if su.Status.GetCondition(xpv1.TypeReady).Status == "True" {
		zz.Cover("ready")
		zz.Assert("ready-usage-has-marked-its-resource", marked())
	}
	if hasBy {
		zz.Cover("owned-by-using")
		owned := false
		for _, o := range su.OwnerReferences {
			if o.UID == "uid-using" {
				owned = true
			}
		}
		zz.Assert("usage-owned-by-its-using-resource", owned)
	}
	zz.Observe("ready", string(su.Status.GetCondition(xpv1.TypeReady).Status))
}
