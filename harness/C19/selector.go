//go:build verif

//gosym:package github.com/crossplane/crossplane/internal/controller/apiextensions/usage
//gosym:file zz_c19_selector_verif.go

package usage

import (
	"context"

	metav1 "k8s.io/apimachinery/pkg/apis/meta/v1"
	"k8s.io/apimachinery/pkg/apis/meta/v1/unstructured"
	"k8s.io/apimachinery/pkg/types"
	"k8s.io/utils/ptr"
	"sigs.k8s.io/controller-runtime/pkg/reconcile"

	xpv1 "github.com/crossplane/crossplane-runtime/apis/common/v1"

	"github.com/crossplane/crossplane/apis/apiextensions/v1beta1"
	zz "github.com/crossplane/crossplane/internal/zzverif"
)

// HarnessC19Selector: a Usage that names its used resource by selector
// (labels, optionally "same controller as the Usage") is resolved to a
// resource that really matches the selector, and it is that resource that
// carries the in-use marker by the time the Usage reports ready; when no
// resource matches, the Usage never reports ready.
//
//gosym:harness
//gosym:cover resolved-by-labels resolved-by-controller nothing-matches ready resolved-again
func HarnessC19Selector() {
	s, _ := zzSetupStore()
	const n = 2
	label := make([]string, n)
	ctrl := make([]int, n) // controller of the candidate: none, the Usage's, another
	for i := 0; i < n; i++ {
		id := string(rune('0' + i))
		label[i] = zz.Str("candidate" + id + ".label")
		ctrl[i] = zz.Choose("candidate"+id+".controller", 3)
		o := &unstructured.Unstructured{Object: map[string]any{}}
		o.SetAPIVersion("example.org/v1")
		o.SetKind("Used")
		o.SetName("used-" + id)
		o.SetLabels(map[string]string{"app": label[i]})
		switch ctrl[i] {
		case 1:
			o.SetOwnerReferences([]metav1.OwnerReference{{APIVersion: "example.org/v1", Kind: "XR", Name: "xr", UID: "uid-xr", Controller: ptr.To(true)}})
		case 2:
			o.SetOwnerReferences([]metav1.OwnerReference{{APIVersion: "example.org/v1", Kind: "XR", Name: "xr", UID: "uid-other", Controller: ptr.To(true)}})
		}
		s.Put(o)
	}

	want := zz.Str("selector.label")
	mustMatchController := zz.Bool("selector.matchControllerRef")
	u := &v1beta1.Usage{ObjectMeta: metav1.ObjectMeta{Name: "usage-a", UID: "uid-usage-a"}}
	if zz.Bool("usage.composed") {
		u.OwnerReferences = []metav1.OwnerReference{{APIVersion: "example.org/v1", Kind: "XR", Name: "xr", UID: "uid-xr", Controller: ptr.To(true)}}
	}
	composed := len(u.OwnerReferences) > 0
	u.Spec.Of = v1beta1.Resource{APIVersion: "example.org/v1", Kind: "Used", ResourceSelector: &v1beta1.ResourceSelector{MatchLabels: map[string]string{"app": want}}}
	if mustMatchController {
		u.Spec.Of.ResourceSelector.MatchControllerRef = ptr.To(true)
	}
	u.Spec.Reason = ptrTo("because")
	// the Usage is new, or it was reconciled to ready before and its resolved
	// reference has since been cleared so that the selector is resolved again
	if zz.Bool("usage.reconciledBefore") {
		zz.Cover("resolved-again")
		u.Finalizers = []string{finalizer}
		u.Annotations = map[string]string{detailsAnnotationKey: detailsAnnotation(u)}
	}
	s.Put(u)

	r := NewReconciler(&zzMgr{s: s})
	req := reconcile.Request{NamespacedName: types.NamespacedName{Name: "usage-a"}}
	for k := 0; k < 3; k++ {
		_, _ = r.Reconcile(context.Background(), req)
	}

	// reference: which candidates the selector admits
	ok := make([]bool, n)
	some := false
	for i := 0; i < n; i++ {
		sameController := ctrl[i] == 1 && composed
		// two objects without any controller do not "have the same controller"
		ok[i] = zz.And(label[i] == want, zz.Or(!mustMatchController, sameController))
		some = zz.Or(some, ok[i])
	}
	after := &v1beta1.Usage{}
	s.Peek("", "usage-a", after)
	ready := after.Status.GetCondition(xpv1.TypeReady).Status == "True"
	if !ready {
		if after.Spec.Of.ResourceRef == nil {
			zz.Cover("nothing-matches")
		}
		return
	}
	zz.Cover("ready")
	zz.Assert("ready-usage-has-a-resolved-reference", after.Spec.Of.ResourceRef != nil && after.Spec.Of.ResourceRef.Name != "")
	zz.Assert("usage-ready-only-if-some-resource-matches-the-selector", some)
	for i := 0; i < n; i++ {
		if after.Spec.Of.ResourceRef != nil && after.Spec.Of.ResourceRef.Name == "used-"+string(rune('0'+i)) {
			zz.Assert("resolved-resource-matches-the-selector", ok[i])
			if mustMatchController {
				zz.Cover("resolved-by-controller")
			} else {
				zz.Cover("resolved-by-labels")
			}
			doc := s.Doc("example.org", "Used", "", "used-"+string(rune('0'+i)))
			md, _ := doc["metadata"].(map[string]any)
			l, _ := md["labels"].(map[string]any)
			zz.Assert("resolved-resource-carries-the-in-use-marker", l[inUseLabelKey] == any2("true"))
		}
	}
}

func any2(s string) any { return s }
