//go:build verif

//gosym:package github.com/crossplane/crossplane/internal/controller/apiextensions/composite
//gosym:file zz_c19_composed_verif.go

package composite

import (
	"context"

	metav1 "k8s.io/apimachinery/pkg/apis/meta/v1"
	"k8s.io/apimachinery/pkg/runtime"
	"k8s.io/utils/ptr"

	"github.com/crossplane/crossplane-runtime/pkg/resource/unstructured/composed"

	zz "github.com/crossplane/crossplane/internal/zzverif"
	"github.com/crossplane/crossplane/internal/zzverif/kube"
)

// HarnessC19ComposedUsage: a Usage that is itself a composed resource. The
// Usage controller has made it owned by its using resource; the XR's
// patch-and-transform composer then applies the template again. The Usage
// stays owned by the using resource - in whichever API version the
// Composition declares it - and controlled by the XR.
//
//gosym:harness
//gosym:cover v1alpha1 v1beta1 same-name
func HarnessC19ComposedUsage() {
	s := kube.New()
	usageAPI := "apiextensions.crossplane.io/v1beta1"
	if zz.Bool("usage.v1alpha1") {
		zz.Cover("v1alpha1")
		usageAPI = "apiextensions.crossplane.io/v1alpha1"
	} else {
		zz.Cover("v1beta1")
	}
	const usageKind, usageName = "Usage", zzXRName + "-usage"
	// the using resource's name is its own business: it may equal the XR's
	usingName := "user"
	if zz.Bool("using.namedLikeTheXR") {
		zz.Cover("same-name")
		usingName = zzXRName
	}
	u := composed.New()
	u.SetAPIVersion(usageAPI)
	u.SetKind(usageKind)
	u.SetName(usageName)
	u.SetAnnotations(map[string]string{AnnotationKeyCompositionResourceName: zzResNames[0]})
	u.Object["spec"] = map[string]any{"reason": "old"}
	u.SetOwnerReferences([]metav1.OwnerReference{
		{APIVersion: "example.org/v1", Kind: "XR", Name: zzXRName, UID: zzXRUIDc, Controller: ptr.To(true), BlockOwnerDeletion: ptr.To(true)},
		{APIVersion: "example.org/v1", Kind: "Using", Name: usingName, UID: "uid-using"},
	})
	s.Put(u)
	xr := zzNewXRObject()
	xr.Object["spec"] = map[string]any{"resourceRefs": []any{map[string]any{"apiVersion": usageAPI, "kind": usageKind, "name": usageName}}}
	s.Put(xr)

	rev := zzPTRevision([]bool{true}, nil)
	rev.Spec.Resources[0].Base = runtime.RawExtension{Raw: []byte(`{"apiVersion":"` + usageAPI + `","kind":"Usage","spec":{"reason":"new"}}`)}
	c := NewPTComposer(s, s)
	_, err := c.Compose(context.Background(), zzReadXR(s), CompositionRequest{Revision: rev})
	zz.Assert("compose-no-error", err == nil)
	after := s.Doc("apiextensions.crossplane.io", usageKind, "", usageName)
	zz.Assert("composed-usage-still-controlled-by-the-xr", kube.ControllerUID(after) == zzXRUIDc)
	owned := false
	for _, uid := range kube.OwnerUIDs(after) {
		if uid == "uid-using" {
			owned = true
		}
	}
	zz.Assert("composed-usage-stays-owned-by-its-using-resource", owned)
}
