//go:build verif

//gosym:package github.com/crossplane/crossplane/internal/controller/apiextensions/definition
//gosym:file zz_c08_xrd_verif.go

package definition

import (
	"context"

	extv1 "k8s.io/apiextensions-apiserver/pkg/apis/apiextensions/v1"
	metav1 "k8s.io/apimachinery/pkg/apis/meta/v1"
	kunstructured "k8s.io/apimachinery/pkg/apis/meta/v1/unstructured"
	"k8s.io/apimachinery/pkg/runtime"
	"k8s.io/apimachinery/pkg/types"
	"k8s.io/utils/ptr"
	"sigs.k8s.io/controller-runtime/pkg/client"
	"sigs.k8s.io/controller-runtime/pkg/reconcile"

	v1 "github.com/crossplane/crossplane/apis/apiextensions/v1"
	"github.com/crossplane/crossplane/internal/engine"
	zz "github.com/crossplane/crossplane/internal/zzverif"
	"github.com/crossplane/crossplane/internal/zzverif/kube"
)

const (
	zzXRDName = "xthings.example.org"
	zzXRDUID  = "uid-xrd"
)

// zzEngine records when the controller serving the XRs is stopped.
type zzEngine struct {
	NopEngine
	s       *kube.Store
	stopped bool
	// number of XR instances in the store when Stop was called
	instancesAtStop int
	crdOursAtStop   bool
}

func zzInstances(s *kube.Store) int { return s.Count("example.org", "XThing") }

func zzCRDOurs(s *kube.Store) bool {
	doc := s.Doc("apiextensions.k8s.io", "CustomResourceDefinition", "", zzXRDName)
	return doc != nil && kube.ControllerUID(doc) == zzXRDUID
}

func (e *zzEngine) Stop(context.Context, string) error {
	e.stopped = true
	e.instancesAtStop = zzInstances(e.s)
	e.crdOursAtStop = zzCRDOurs(e.s)
	return nil
}
func (e *zzEngine) GetCached() client.Client   { return e.s }
func (e *zzEngine) GetUncached() client.Client { return e.s }

func zzXRD() *v1.CompositeResourceDefinition {
	d := &v1.CompositeResourceDefinition{ObjectMeta: metav1.ObjectMeta{Name: zzXRDName, UID: zzXRDUID}}
	d.Spec.Group = "example.org"
	d.Spec.Names = extv1.CustomResourceDefinitionNames{Kind: "XThing", ListKind: "XThingList", Plural: "xthings", Singular: "xthing"}
	d.Spec.Versions = []v1.CompositeResourceDefinitionVersion{{Name: "v1", Served: true, Referenceable: true,
		Schema: &v1.CompositeResourceValidation{OpenAPIV3Schema: runtime.RawExtension{Raw: []byte(`{"type":"object","properties":{"spec":{"type":"object","properties":{"a":{"type":"string"}}}}}`)}}}}
	return d
}

// HarnessC08XRD: one reconcile of a deleted XRD from any state of its CRD and
// its instances, with an API failure at any call. The CRD is deleted only
// after every instance is gone and the controller was stopped; the controller
// is stopped only after the instances are gone (or the CRD is not ours); the
// XRD's finalizer goes only after the CRD is gone or was never ours.
//
//gosym:harness
//gosym:cover crd-deleted waiting-for-instances finalizer-removed fault-hit foreign-crd terminating-crd
func HarnessC08XRD() {
	s := kube.New()
	s.Register(&v1.CompositeResourceDefinition{}, &v1.CompositeResourceDefinitionList{}, "apiextensions.crossplane.io", "CompositeResourceDefinition")
	s.Register(&extv1.CustomResourceDefinition{}, &extv1.CustomResourceDefinitionList{}, "apiextensions.k8s.io", "CustomResourceDefinition")

	d := zzXRD()
	d.Finalizers = []string{finalizer}
	now := metav1.Now()
	d.DeletionTimestamp = &now
	s.Put(d)

	crdState := zz.Choose("crd.state", 4) // absent, ours, controlled by another owner, ours and already terminating
	foreign := zz.Str("foreign.uid")
	zz.Assume(foreign != zzXRDUID)
	zz.Assume(foreign != "")
	if crdState != 0 {
		crd := &extv1.CustomResourceDefinition{ObjectMeta: metav1.ObjectMeta{Name: zzXRDName}}
		uid := zzXRDUID
		if crdState == 2 {
			uid = foreign
			zz.Cover("foreign-crd")
		}
		crd.OwnerReferences = []metav1.OwnerReference{{APIVersion: "apiextensions.crossplane.io/v1", Kind: "CompositeResourceDefinition", Name: zzXRDName, UID: types.UID(uid), Controller: ptr.To(true)}}
		if crdState == 3 {
			// deleted by the garbage collector or by hand; the API server keeps
			// it until its instances are gone
			crd.Finalizers = []string{"customresourcecleanup.apiextensions.k8s.io"}
			crd.DeletionTimestamp = &now
			zz.Cover("terminating-crd")
		}
		s.Put(crd)
	}
	nInst := zz.Choose("instances", 3)
	for i := 0; i < nInst; i++ {
		x := &kunstructured.Unstructured{Object: map[string]any{}}
		x.SetAPIVersion("example.org/v1")
		x.SetKind("XThing")
		x.SetName("x" + string(rune('0'+i)))
		switch zz.Choose("instance"+string(rune('0'+i))+".state", 3) { // no finalizer, held by its finalizer, already terminating (held by its finalizer)
		case 1:
			x.SetFinalizers([]string{"composite.apiextensions.crossplane.io"})
		case 2:
			x.SetFinalizers([]string{"composite.apiextensions.crossplane.io"})
			x.SetDeletionTimestamp(&now)
		}
		s.Put(x)
	}

	eng := &zzEngine{s: s}
	crdExisted := crdState != 0
	crdWasOurs := crdState == 1 || crdState == 3
	s.OnMutate = func() {
		// the moment the CRD disappears
		if crdExisted && crdWasOurs && !s.Exists("apiextensions.k8s.io", "CustomResourceDefinition", "", zzXRDName) {
			zz.Cover("crd-deleted")
			zz.Assert("crd-deleted-only-after-every-instance-is-gone", zzInstances(s) == 0)
			zz.Assert("crd-deleted-only-after-controller-stopped", eng.stopped)
			crdExisted = false
		}
		// the moment the XRD loses its finalizer (or disappears)
		xd := &v1.CompositeResourceDefinition{}
		if !s.Peek("", zzXRDName, xd) || len(xd.Finalizers) == 0 {
			zz.Cover("finalizer-removed")
			zz.Assert("xrd-finalizer-removed-only-after-crd-gone-or-never-ours", !zzCRDOurs(s))
		}
	}

	s.FaultAt = zz.Choose("fault.at", 9) - 1
	s.FaultKind = 1 + zz.Choose("fault.kind", 3)
	r := NewReconciler(NewClientApplicator(s), WithControllerEngine(eng))
	res, err := r.Reconcile(context.Background(), reconcile.Request{NamespacedName: types.NamespacedName{Name: zzXRDName}})
	if s.Faulted {
		zz.Cover("fault-hit")
	}
	if eng.stopped {
		zz.Assert("controller-stopped-only-after-instances-gone-or-crd-not-ours", eng.instancesAtStop == 0 || !eng.crdOursAtStop)
	}
	if err == nil && res.Requeue && zzInstances(s) > 0 && crdWasOurs {
		zz.Cover("waiting-for-instances")
		zz.Assert("crd-kept-while-instances-remain", s.Exists("apiextensions.k8s.io", "CustomResourceDefinition", "", zzXRDName))
	}
	zz.Observe("stopped", eng.stopped, zzInstances(s))
}

// HarnessC08XRDSchedule: a deleted XRD followed through a schedule of up to
// four steps, each either a reconcile (cut short by an API failure at any
// call, or not) or a third party (the composite controller) removing the
// finalizer that holds one of the instances. The same ordering facts hold at
// every instant of every schedule.
//
//gosym:harness thorough
//gosym:cover crd-deleted finalizer-removed third-party-step
func HarnessC08XRDSchedule() {
	s := kube.New()
	s.Register(&v1.CompositeResourceDefinition{}, &v1.CompositeResourceDefinitionList{}, "apiextensions.crossplane.io", "CompositeResourceDefinition")
	s.Register(&extv1.CustomResourceDefinition{}, &extv1.CustomResourceDefinitionList{}, "apiextensions.k8s.io", "CustomResourceDefinition")

	d := zzXRD()
	d.Finalizers = []string{finalizer}
	now := metav1.Now()
	d.DeletionTimestamp = &now
	s.Put(d)
	crd := &extv1.CustomResourceDefinition{ObjectMeta: metav1.ObjectMeta{Name: zzXRDName}}
	crd.OwnerReferences = []metav1.OwnerReference{{APIVersion: "apiextensions.crossplane.io/v1", Kind: "CompositeResourceDefinition", Name: zzXRDName, UID: zzXRDUID, Controller: ptr.To(true)}}
	s.Put(crd)
	nInst := 1 + zz.Choose("instances", 2)
	for i := 0; i < nInst; i++ {
		x := &kunstructured.Unstructured{Object: map[string]any{}}
		x.SetAPIVersion("example.org/v1")
		x.SetKind("XThing")
		x.SetName("x" + string(rune('0'+i)))
		x.SetFinalizers([]string{"composite.apiextensions.crossplane.io"})
		s.Put(x)
	}

	eng := &zzEngine{s: s}
	crdExisted := true
	released := false
	s.OnMutate = func() {
		if crdExisted && !s.Exists("apiextensions.k8s.io", "CustomResourceDefinition", "", zzXRDName) {
			zz.Cover("crd-deleted")
			zz.Assert("crd-deleted-only-after-every-instance-is-gone", zzInstances(s) == 0)
			zz.Assert("crd-deleted-only-after-controller-stopped", eng.stopped)
			crdExisted = false
		}
		xd := &v1.CompositeResourceDefinition{}
		if !released && (!s.Peek("", zzXRDName, xd) || len(xd.Finalizers) == 0) {
			released = true
			zz.Cover("finalizer-removed")
			zz.Assert("xrd-finalizer-removed-only-after-crd-gone-or-never-ours", !zzCRDOurs(s))
		}
	}
	r := NewReconciler(NewClientApplicator(s), WithControllerEngine(eng))
	for step := 0; step < 4 && !released; step++ {
		id := string(rune('0' + step))
		act := zz.Choose("step"+id+".action", 1+nInst)
		if act == 0 {
			s.Faulted = false
			s.FaultAt = -1
			if k := zz.Choose("step"+id+".fault.at", 8); k > 0 {
				s.FaultAt = s.Calls() + k - 1
				s.FaultKind = 1 + zz.Choose("step"+id+".fault.kind", 2)
			}
			wasStopped := eng.stopped
			_, _ = r.Reconcile(context.Background(), reconcile.Request{NamespacedName: types.NamespacedName{Name: zzXRDName}})
			s.FaultAt = -1
			if eng.stopped && !wasStopped {
				zz.Assert("controller-stopped-only-after-instances-gone-or-crd-not-ours", eng.instancesAtStop == 0 || !eng.crdOursAtStop)
			}
			continue
		}
		// the composite controller lets go of instance act-1
		zz.Cover("third-party-step")
		name := "x" + string(rune('0'+act-1))
		x := &kunstructured.Unstructured{Object: map[string]any{}}
		x.SetAPIVersion("example.org/v1")
		x.SetKind("XThing")
		if s.Peek("", name, x) {
			x.SetFinalizers(nil)
			_ = s.Update(context.Background(), x)
		}
	}
	zz.Observe("end", released, eng.stopped, zzInstances(s))
}

var _ = engine.WatchTypeClaim
