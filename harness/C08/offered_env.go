//go:build verif

//gosym:package github.com/crossplane/crossplane/internal/controller/apiextensions/offered
//gosym:file zz_c08_offered_env_verif.go

package offered

import (
	"context"

	extv1 "k8s.io/apiextensions-apiserver/pkg/apis/apiextensions/v1"
	metav1 "k8s.io/apimachinery/pkg/apis/meta/v1"
	"k8s.io/apimachinery/pkg/runtime"
	"sigs.k8s.io/controller-runtime/pkg/client"

	v1 "github.com/crossplane/crossplane/apis/apiextensions/v1"
	"github.com/crossplane/crossplane/internal/engine"
	"github.com/crossplane/crossplane/internal/zzverif/kube"
)

const (
	zzXRDName      = "xthings.example.org"
	zzXRDUID       = "uid-xrd"
	zzClaimCRDName = "things.example.org"
)

// zzEngine records when the claim controller is started and stopped.
type zzEngine struct {
	NopEngine
	s       *kube.Store
	running bool
	started bool
	stopped bool
	// state of the store when Stop was called
	claimsAtStop  int
	crdOursAtStop bool
}

func zzClaims(s *kube.Store) int { return s.Count("example.org", "Thing") }

func zzCRDOurs(s *kube.Store) bool {
	doc := s.Doc("apiextensions.k8s.io", "CustomResourceDefinition", "", zzClaimCRDName)
	return doc != nil && kube.ControllerUID(doc) == zzXRDUID
}

func (e *zzEngine) IsRunning(string) bool { return e.running }
func (e *zzEngine) Start(string, ...engine.ControllerOption) error {
	e.started = true
	return nil
}
func (e *zzEngine) Stop(context.Context, string) error {
	e.stopped = true
	e.claimsAtStop = zzClaims(e.s)
	e.crdOursAtStop = zzCRDOurs(e.s)
	return nil
}
func (e *zzEngine) GetCached() client.Client { return e.s }

func zzStore() *kube.Store {
	s := kube.New()
	s.Register(&v1.CompositeResourceDefinition{}, &v1.CompositeResourceDefinitionList{}, "apiextensions.crossplane.io", "CompositeResourceDefinition")
	s.Register(&extv1.CustomResourceDefinition{}, &extv1.CustomResourceDefinitionList{}, "apiextensions.k8s.io", "CustomResourceDefinition")
	return s
}

func zzXRD() *v1.CompositeResourceDefinition {
	d := &v1.CompositeResourceDefinition{ObjectMeta: metav1.ObjectMeta{Name: zzXRDName, UID: zzXRDUID}}
	d.Spec.Group = "example.org"
	d.Spec.Names = extv1.CustomResourceDefinitionNames{Kind: "XThing", ListKind: "XThingList", Plural: "xthings", Singular: "xthing"}
	d.Spec.ClaimNames = &extv1.CustomResourceDefinitionNames{Kind: "Thing", ListKind: "ThingList", Plural: "things", Singular: "thing"}
	d.Spec.Versions = []v1.CompositeResourceDefinitionVersion{{Name: "v1", Served: true, Referenceable: true,
		Schema: &v1.CompositeResourceValidation{OpenAPIV3Schema: runtime.RawExtension{Raw: []byte(`{"type":"object","properties":{"spec":{"type":"object","properties":{"a":{"type":"string"}}}}}`)}}}}
	return d
}
