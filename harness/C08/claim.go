//go:build verif

//gosym:package github.com/crossplane/crossplane/internal/controller/apiextensions/claim
//gosym:file zz_c08_claim_verif.go

package claim

import (
	"context"

	metav1 "k8s.io/apimachinery/pkg/apis/meta/v1"
	"k8s.io/apimachinery/pkg/types"
	"k8s.io/utils/ptr"
	"sigs.k8s.io/controller-runtime/pkg/reconcile"

	xpv1 "github.com/crossplane/crossplane-runtime/apis/common/v1"
	"github.com/crossplane/crossplane-runtime/pkg/resource"
	"github.com/crossplane/crossplane-runtime/pkg/resource/unstructured/claim"
	"github.com/crossplane/crossplane-runtime/pkg/resource/unstructured/composite"

	"github.com/crossplane/crossplane/internal/names"
	zz "github.com/crossplane/crossplane/internal/zzverif"
	"github.com/crossplane/crossplane/internal/zzverif/kube"
)

// HarnessC08Claim: one reconcile of a claim that is being deleted, from any
// state of its XR, with an API failure at any call. The claim's finalizer is
// removed only after its XR has been deleted and, with the Foreground
// policy, only once the XR is gone.
//
//gosym:harness
//gosym:cover finalizer-removed waiting-foreground xr-deleted xr-lingers fault-hit
func HarnessC08Claim() {
	s := kube.New()
	cm := claim.New(claim.WithGroupVersionKind(zzClaimGVK))
	cm.SetName("cm")
	cm.SetNamespace("team")
	cm.SetUID("uid-claim")
	cm.SetFinalizers([]string{finalizer})
	now := metav1.Now()
	cm.SetDeletionTimestamp(&now)
	cm.Object["spec"] = map[string]any{"resourceRef": map[string]any{"apiVersion": "example.org/v1", "kind": "XR", "name": "xr-1"}}
	policy := zz.Choose("claim.compositeDeletePolicy", 3) // unset, Background, Foreground
	switch policy {
	case 1:
		cm.SetCompositeDeletePolicy(ptr.To(xpv1.CompositeDeleteBackground))
	case 2:
		cm.SetCompositeDeletePolicy(ptr.To(xpv1.CompositeDeleteForeground))
	}
	s.Put(cm)

	xrState := zz.Choose("xr.state", 4) // absent, live, live held by a finalizer, already deleting (held by a finalizer)
	if xrState > 0 {
		xr := composite.New(composite.WithGroupVersionKind(zzXRGVK))
		xr.SetName("xr-1")
		xr.SetUID("uid-xr")
		xr.Object["spec"] = map[string]any{"claimRef": map[string]any{"apiVersion": "example.org/v1", "kind": "Claim", "name": "cm", "namespace": "team"}}
		if xrState >= 2 {
			xr.SetFinalizers([]string{"composite.apiextensions.crossplane.io"})
		}
		if xrState == 3 {
			xr.SetDeletionTimestamp(&now)
		}
		s.Put(xr)
	}
	xrDeleted := func() bool {
		doc := s.Doc("example.org", "XR", "", "xr-1")
		if doc == nil {
			return true
		}
		md, _ := doc["metadata"].(map[string]any)
		_, deleting := md["deletionTimestamp"]
		return deleting
	}
	xrGone := func() bool { return s.Doc("example.org", "XR", "", "xr-1") == nil }

	released := false
	s.OnMutate = func() {
		if released {
			return
		}
		after := claim.New(claim.WithGroupVersionKind(zzClaimGVK))
		if !s.Peek("team", "cm", after) || len(after.GetFinalizers()) == 0 {
			released = true
			zz.Cover("finalizer-removed")
			zz.Assert("claim-finalizer-removed-only-after-its-xr-was-deleted", xrDeleted())
			if policy == 2 {
				zz.Assert("foreground-claim-finalizer-removed-only-after-its-xr-is-gone", xrGone())
			}
		}
	}

	s.FaultAt = zz.Choose("fault.at", 7) - 1
	s.FaultKind = 1 + zz.Choose("fault.kind", 2)
	opts := []ReconcilerOption{}
	if zz.Bool("syncer.ssa") {
		opts = append(opts, WithCompositeSyncer(NewServerSideCompositeSyncer(s, names.NewNameGenerator(s))))
	}
	r := NewReconciler(s, resource.CompositeClaimKind(zzClaimGVK), resource.CompositeKind(zzXRGVK), opts...)
	res, err := r.Reconcile(context.Background(), reconcile.Request{NamespacedName: types.NamespacedName{Namespace: "team", Name: "cm"}})
	if s.Faulted {
		zz.Cover("fault-hit")
	}
	if xrState > 0 && xrDeleted() && !xrGone() {
		zz.Cover("xr-lingers")
	}
	if xrState == 1 && xrGone() {
		zz.Cover("xr-deleted")
	}
	if policy == 2 && !released && err == nil && res.Requeue {
		zz.Cover("waiting-foreground")
	}
	zz.Observe("released", released, xrGone())
}
