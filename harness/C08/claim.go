//go:build verif

//gosym:package github.com/crossplane/crossplane/internal/controller/apiextensions/claim
//gosym:file zz_c08_claim_verif.go

package claim

import (
	"context"
	"k8s.io/apimachinery/pkg/runtime"

	"k8s.io/apimachinery/pkg/api/meta"
	metav1 "k8s.io/apimachinery/pkg/apis/meta/v1"
	"k8s.io/apimachinery/pkg/runtime/schema"
	"k8s.io/apimachinery/pkg/types"
	"k8s.io/utils/ptr"
	"sigs.k8s.io/controller-runtime/pkg/reconcile"

	xpv1 "github.com/crossplane/crossplane-runtime/apis/common/v1"
	"github.com/crossplane/crossplane-runtime/pkg/resource"
	"github.com/crossplane/crossplane-runtime/pkg/resource/unstructured/claim"
	"github.com/crossplane/crossplane-runtime/pkg/resource/unstructured/composite"

	"github.com/crossplane/crossplane/internal/names"
	zz "github.com/crossplane/crossplane/internal/zzverif"
	"github.com/crossplane/crossplane/internal/zzverif/kube"
)

// HarnessC08Claim: one reconcile of a claim that is being deleted, from any
// state of its XR, with an API failure at any call. The claim's finalizer is
// removed only after its XR has been deleted and, with the Foreground
// policy, only once the XR is gone.
//
//gosym:harness
//gosym:cover finalizer-removed waiting-foreground xr-deleted xr-lingers fault-hit no-match-error older-version-in-ref
func HarnessC08Claim() {
	s := kube.New()
	cm := claim.New(claim.WithGroupVersionKind(zzClaimGVK))
	cm.SetName("cm")
	cm.SetNamespace("team")
	cm.SetUID("uid-claim")
	cm.SetFinalizers([]string{finalizer})
	now := metav1.Now()
	cm.SetDeletionTimestamp(&now)
	// the reference may name the XR at an older API version than the one the
	// claim's controller serves now (the XRD's referenceable version changed
	// while the claim was terminating)
	refVersion := "example.org/v1"
	if zz.Bool("claim.resourceRef.olderVersion") {
		zz.Cover("older-version-in-ref")
		refVersion = "example.org/v1alpha1"
	}
	cm.Object["spec"] = map[string]any{"resourceRef": map[string]any{"apiVersion": refVersion, "kind": "XR", "name": "xr-1"}}
	policy := zz.Choose("claim.compositeDeletePolicy", 3) // unset, Background, Foreground
	switch policy {
	case 1:
		cm.SetCompositeDeletePolicy(ptr.To(xpv1.CompositeDeleteBackground))
	case 2:
		cm.SetCompositeDeletePolicy(ptr.To(xpv1.CompositeDeleteForeground))
	}
	s.Put(cm)

	xrState := zz.Choose("xr.state", 4) // absent, live, live held by a finalizer, already deleting (held by a finalizer)
	if xrState > 0 {
		xr := composite.New(composite.WithGroupVersionKind(zzXRGVK))
		xr.SetName("xr-1")
		xr.SetUID("uid-xr")
		xr.Object["spec"] = map[string]any{"claimRef": map[string]any{"apiVersion": "example.org/v1", "kind": "Claim", "name": "cm", "namespace": "team"}}
		if xrState >= 2 {
			xr.SetFinalizers([]string{"composite.apiextensions.crossplane.io"})
		}
		if xrState == 3 {
			xr.SetDeletionTimestamp(&now)
		}
		s.Put(xr)
	}
	xrDeleted := func() bool {
		doc := s.Doc("example.org", "XR", "", "xr-1")
		if doc == nil {
			return true
		}
		md, _ := doc["metadata"].(map[string]any)
		_, deleting := md["deletionTimestamp"]
		return deleting
	}
	xrGone := func() bool { return s.Doc("example.org", "XR", "", "xr-1") == nil }

	released := false
	s.OnMutate = func() {
		if released {
			return
		}
		after := claim.New(claim.WithGroupVersionKind(zzClaimGVK))
		if !s.Peek("team", "cm", after) || len(after.GetFinalizers()) == 0 {
			released = true
			zz.Cover("finalizer-removed")
			zz.Assert("claim-finalizer-removed-only-after-its-xr-was-deleted", xrDeleted())
			if policy == 2 {
				zz.Assert("foreground-claim-finalizer-removed-only-after-its-xr-is-gone", xrGone())
			}
		}
	}

	s.FaultAt = zz.Choose("fault.at", 7) - 1
	s.FaultKind = 1 + zz.Choose("fault.kind", 3)
	// a failing read may also fail the way reads do while the API machinery is
	// catching up with CRD changes: the REST mapper has no match for the kind
	if s.FaultAt >= 0 && s.FaultKind == kube.FaultErrNoEffect && zz.Bool("fault.readFailsWithNoMatch") {
		zz.Cover("no-match-error")
		s.ReadFaultErr = &meta.NoKindMatchError{GroupKind: schema.GroupKind{Group: "example.org", Kind: "XR"}, SearchedVersions: []string{"v1"}}
	}
	opts := []ReconcilerOption{}
	if zz.Bool("syncer.ssa") {
		opts = append(opts, WithCompositeSyncer(NewServerSideCompositeSyncer(s, names.NewNameGenerator(s))))
	}
	r := NewReconciler(s, resource.CompositeClaimKind(zzClaimGVK), resource.CompositeKind(zzXRGVK), opts...)
	res, err := r.Reconcile(context.Background(), reconcile.Request{NamespacedName: types.NamespacedName{Namespace: "team", Name: "cm"}})
	if s.Faulted {
		zz.Cover("fault-hit")
	}
	if xrState > 0 && xrDeleted() && !xrGone() {
		zz.Cover("xr-lingers")
	}
	if xrState == 1 && xrGone() {
		zz.Cover("xr-deleted")
	}
	if policy == 2 && !released && err == nil && res.Requeue {
		zz.Cover("waiting-foreground")
	}
	zz.Observe("released", released, xrGone())
}

// HarnessC08ClaimLifecycle: a claim from creation to deletion. The first
// reconcile may read the claim from a cache that lags the API server by one
// write of another actor (so its own first write of the claim conflicts),
// another actor may write the claim between any two of its API calls, and it
// may be cut short by an API failure; the user then deletes the claim; two
// further reconciles run on a current cache. Whenever the claim's finalizer
// goes (or the claim with it), every XR that names this claim as its claim
// has been deleted: none is left behind without anything to delete it.
//
//gosym:harness
//gosym:cover finalizer-removed lagging-read xr-created fault-hit concurrent-write
func HarnessC08ClaimLifecycle() {
	s := kube.New()
	cm := claim.New(claim.WithGroupVersionKind(zzClaimGVK))
	cm.SetName("cm")
	cm.SetNamespace("team")
	cm.SetUID("uid-claim")
	cm.Object["spec"] = map[string]any{"param": "v"}
	s.Put(cm)

	c := &zzStale{Store: s}
	if zz.Bool("cache.lagging") {
		zz.Cover("lagging-read")
		old := runtime.DeepCopyJSON(s.Doc("example.org", "Claim", "team", "cm"))
		old["metadata"].(map[string]any)["resourceVersion"] = "0"
		c.stale = old
	}
	deleting := false
	xrLive := func() int {
		n := 0
		for _, x := range zzXRsOfClaim(s) {
			md, _ := s.Doc("example.org", "XR", "", x)["metadata"].(map[string]any)
			if _, gone := md["deletionTimestamp"]; !gone {
				n++
			}
		}
		return n
	}
	released := false
	s.OnMutate = func() {
		if !deleting || released {
			return
		}
		after := claim.New(claim.WithGroupVersionKind(zzClaimGVK))
		if !s.Peek("team", "cm", after) || len(after.GetFinalizers()) == 0 {
			released = true
			zz.Cover("finalizer-removed")
			zz.Assert("claim-released-only-after-every-xr-bound-to-it-was-deleted", xrLive() == 0)
		}
	}

	opts := []ReconcilerOption{}
	if zz.Bool("syncer.ssa") {
		opts = append(opts, WithCompositeSyncer(NewServerSideCompositeSyncer(c, names.NewNameGenerator(c))))
	}
	r := NewReconciler(c, resource.CompositeClaimKind(zzClaimGVK), resource.CompositeKind(zzXRGVK), opts...)
	req := reconcile.Request{NamespacedName: types.NamespacedName{Namespace: "team", Name: "cm"}}

	s.FaultAt = zz.Choose("fault.at", zz.Bound(8, 10)) - 1
	s.FaultKind = 1 + zz.Choose("fault.kind", 3)
	// another actor writes the claim just before the reconcile's k-th call
	raceAt := zz.Choose("otherWriter.at", zz.Bound(8, 10)) - 1
	s.BeforeCall = func(n int) {
		if n == raceAt {
			zz.Cover("concurrent-write")
			s.Touch("example.org", "Claim", "team", "cm")
		}
	}
	_, _ = r.Reconcile(context.Background(), req)
	if s.Faulted {
		zz.Cover("fault-hit")
	}
	s.FaultAt = -1
	s.BeforeCall = nil
	c.stale = nil
	if len(zzXRsOfClaim(s)) > 0 {
		zz.Cover("xr-created")
	}

	// the user deletes the claim
	deleting = true
	del := claim.New(claim.WithGroupVersionKind(zzClaimGVK))
	del.SetName("cm")
	del.SetNamespace("team")
	_ = s.Delete(context.Background(), del)

	_, _ = r.Reconcile(context.Background(), req)
	_, _ = r.Reconcile(context.Background(), req)
	zz.Observe("end", released, xrLive())
}
