//go:build verif

//gosym:package github.com/crossplane/crossplane/internal/engine
//gosym:file zz_c08_engine_verif.go

package engine

import (
	"context"

	kcontroller "sigs.k8s.io/controller-runtime/pkg/controller"
	"sigs.k8s.io/controller-runtime/pkg/manager"

	zz "github.com/crossplane/crossplane/internal/zzverif"
)

// HarnessC08EngineStop: the XRD reconcilers delete a CRD only after
// ControllerEngine.Stop returned nil. This harness decides what that nil
// stands for: from any reachable engine state, with any number of the
// controller's watches failing to stop, every Stop that returns nil has
// cancelled the controller (also when it is a retry of a Stop that failed),
// whatever a failed Stop left behind.
//
//gosym:harness seqgo
//gosym:cover stop-failed retried-stop clean-stop
func HarnessC08EngineStop() {
	infs := &zzInformers{}
	elected := make(chan struct{})
	close(elected)
	e := New(&zzMgr{elected: elected}, infs, nil, nil)
	ctrl := &zzCtrl{started: make(chan context.Context, 4)}
	newCtrl := WithNewControllerFn(func(string, manager.Manager, kcontroller.Options) (kcontroller.Controller, error) { return ctrl, nil })
	const name = "composite/xrs.example.org"

	zz.Assert("start-no-error", e.Start(name, newCtrl) == nil)
	ctx := <-ctrl.started
	var ws []Watch
	for k, w := range zzWatches() {
		if zz.Bool("watch" + string(rune('0'+k))) {
			ws = append(ws, w)
		}
	}
	if len(ws) > 0 {
		zz.Assert("startwatches-no-error", e.StartWatches(name, ws...) == nil)
	}

	// up to three Stop calls (the XRD reconciler retries); the first
	// failRemovals handler removals fail
	infs.failRemovals = zz.Choose("failingRemovals", zz.Bound(3, 5))
	failed := false
	for try := 0; try < 3; try++ {
		err := e.Stop(context.Background(), name)
		if err != nil {
			failed = true
			zz.Cover("stop-failed")
			// stronger than the property (a Stop that fails may also tear down anyway)
			zz.Note("failed-stop-keeps-the-controller-known", e.IsRunning(name))
			continue
		}
		zz.Assert("stop-returning-nil-has-cancelled-the-controller", ctx.Err() != nil)
		zz.Assert("stop-returning-nil-leaves-no-controller", !e.IsRunning(name))
		for _, kind := range zzKinds {
			zz.Assert("stop-returning-nil-removed-all-event-handlers", infs.live(zzObj(kind).GroupVersionKind()) == 0)
		}
		if failed {
			zz.Cover("retried-stop")
		} else {
			zz.Cover("clean-stop")
		}
		return
	}
}
