//go:build verif

//gosym:package github.com/crossplane/crossplane/internal/controller/apiextensions/usage
//gosym:file zz_c08_usage_verif.go

package usage

import (
	"context"

	metav1 "k8s.io/apimachinery/pkg/apis/meta/v1"
	"k8s.io/apimachinery/pkg/apis/meta/v1/unstructured"
	"k8s.io/apimachinery/pkg/types"
	"sigs.k8s.io/controller-runtime/pkg/reconcile"

	"github.com/crossplane/crossplane/apis/apiextensions/v1beta1"
	"github.com/crossplane/crossplane/internal/xcrd"
	zz "github.com/crossplane/crossplane/internal/zzverif"
)

// HarnessC08Usage: one reconcile of a Usage that is being deleted, with an
// API failure at any call. A Usage that is itself part of a composition and
// names a using resource is finalized only after that using resource is
// gone; any other Usage is finalized without waiting.
//
//gosym:harness
//gosym:cover finalizer-removed waiting-for-using composed-without-using not-composed fault-hit
func HarnessC08Usage() {
	s, _ := zzSetupStore()
	of := zzGKN{group: "example.org", version: "v1", kind: "Used", name: "used-1"}
	usedObj := &unstructured.Unstructured{Object: map[string]any{}}
	usedObj.SetAPIVersion(of.apiVersion())
	usedObj.SetKind(of.kind)
	usedObj.SetName(of.name)
	usedObj.SetLabels(map[string]string{inUseLabelKey: "true"})
	s.Put(usedObj)

	usingState := zz.Choose("using.state", 3) // gone, live, being deleted (held by a finalizer)
	if usingState > 0 {
		using := &unstructured.Unstructured{Object: map[string]any{}}
		using.SetAPIVersion("example.org/v1")
		using.SetKind("Using")
		using.SetName("using-1")
		using.SetUID("uid-using")
		if usingState == 2 {
			now := metav1.Now()
			using.SetDeletionTimestamp(&now)
			using.SetFinalizers([]string{"hold"})
		}
		s.Put(using)
	}

	u := zzUsage("usage-a", of)
	u.SetUID("uid-usage-a")
	hasBy := zz.Bool("usage.by")
	if hasBy {
		u.Spec.Reason = nil
		u.Spec.By = &v1beta1.Resource{APIVersion: "example.org/v1", Kind: "Using", ResourceRef: &v1beta1.ResourceRef{Name: "using-1"}}
	}
	composed := zz.Bool("usage.composed")
	if composed {
		u.Labels = map[string]string{xcrd.LabelKeyNamePrefixForComposed: "xr"}
	}
	u.Finalizers = []string{finalizer}
	now := metav1.Now()
	u.DeletionTimestamp = &now
	s.Put(u)

	usingGone := func() bool { return !s.Exists("example.org", "Using", "", "using-1") }
	released := false
	s.OnMutate = func() {
		if released {
			return
		}
		cur := &v1beta1.Usage{}
		if !s.Peek("", "usage-a", cur) || len(cur.Finalizers) == 0 {
			released = true
			zz.Cover("finalizer-removed")
			if hasBy && composed {
				zz.Assert("composed-usage-finalized-only-after-its-using-resource-is-gone", usingGone())
			}
		}
	}
	s.FaultAt = zz.Choose("fault.at", 7) - 1
	s.FaultKind = 1 + zz.Choose("fault.kind", 3)
	r := NewReconciler(&zzMgr{s: s})
	_, err := r.Reconcile(context.Background(), reconcile.Request{NamespacedName: types.NamespacedName{Name: "usage-a"}})
	if s.Faulted {
		zz.Cover("fault-hit")
	}
	if hasBy && composed && !usingGone() {
		zz.Cover("waiting-for-using")
		zz.Assert("waiting-usage-keeps-its-finalizer", !released)
	}
	if composed && !hasBy {
		zz.Cover("composed-without-using")
	}
	if !composed {
		zz.Cover("not-composed")
	}
	if !s.Faulted && err == nil && !(hasBy && composed && !usingGone()) {
		zz.Note("usage-without-reason-to-wait-is-finalized", released)
	}
	zz.Observe("released", released)
}
