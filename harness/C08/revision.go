//go:build verif

//gosym:package github.com/crossplane/crossplane/internal/controller/pkg/revision
//gosym:file zz_c08_revision_verif.go

package revision

import (
	"context"

	metav1 "k8s.io/apimachinery/pkg/apis/meta/v1"
	"k8s.io/apimachinery/pkg/types"
	"k8s.io/utils/ptr"
	"sigs.k8s.io/controller-runtime/pkg/reconcile"

	"github.com/crossplane/crossplane-runtime/pkg/feature"

	v1 "github.com/crossplane/crossplane/apis/pkg/v1"
	"github.com/crossplane/crossplane/apis/pkg/v1beta1"
	"github.com/crossplane/crossplane/internal/dag"
	zz "github.com/crossplane/crossplane/internal/zzverif"
	"github.com/crossplane/crossplane/internal/zzverif/kube"
)

// HarnessC08Revision: one reconcile of a package revision that is being
// deleted - active or inactive, listed in the dependency lock or not - with
// an API failure at any call, using the real dependency manager. The
// revision's finalizer is removed only once the revision is no longer listed
// in the lock.
//
//gosym:harness
//gosym:cover finalizer-removed left-the-lock not-in-lock fault-hit inactive
func HarnessC08Revision() {
	s := kube.New()
	s.Register(&v1.ProviderRevision{}, &v1.ProviderRevisionList{}, "pkg.crossplane.io", "ProviderRevision")
	s.Register(&v1beta1.Lock{}, &v1beta1.LockList{}, "pkg.crossplane.io", "Lock")

	pr := &v1.ProviderRevision{ObjectMeta: metav1.ObjectMeta{Name: "rev", UID: "uid-rev", Finalizers: []string{finalizer}}}
	now := metav1.Now()
	pr.DeletionTimestamp = &now
	pr.SetSource("xpkg.example.org/org/pkg:v1.0.0")
	active := zz.Bool("revision.active")
	pr.SetDesiredState(v1.PackageRevisionInactive)
	if active {
		pr.SetDesiredState(v1.PackageRevisionActive)
	} else {
		zz.Cover("inactive")
	}
	s.Put(pr)

	lockState := zz.Choose("lock", 3) // no lock object, lock without the revision, lock listing the revision
	if lockState > 0 {
		lock := &v1beta1.Lock{ObjectMeta: metav1.ObjectMeta{Name: lockName}}
		lock.Packages = []v1beta1.LockPackage{{Name: "other-rev", Type: ptr.To(v1beta1.ProviderPackageType), Source: "xpkg.example.org/org/other", Version: "v1.0.0"}}
		if lockState == 2 {
			pos := zz.Choose("lock.position", 2)
			self := v1beta1.LockPackage{Name: "rev", Type: ptr.To(v1beta1.ProviderPackageType), Source: "xpkg.example.org/org/pkg", Version: "v1.0.0"}
			if pos == 0 {
				lock.Packages = append([]v1beta1.LockPackage{self}, lock.Packages...)
			} else {
				lock.Packages = append(lock.Packages, self)
			}
		} else {
			zz.Cover("not-in-lock")
		}
		s.Put(lock)
	}
	inLock := func() bool {
		l := &v1beta1.Lock{}
		if !s.Peek("", lockName, l) {
			return false
		}
		for _, p := range l.Packages {
			if p.Name == "rev" {
				return true
			}
		}
		return false
	}

	released := false
	s.OnMutate = func() {
		if released {
			return
		}
		cur := &v1.ProviderRevision{}
		if !s.Peek("", "rev", cur) || len(cur.Finalizers) == 0 {
			released = true
			zz.Cover("finalizer-removed")
			zz.Assert("revision-finalized-only-after-it-left-the-lock", !inLock())
		}
	}

	s.FaultAt = zz.Choose("fault.at", 6) - 1
	s.FaultKind = 1 + zz.Choose("fault.kind", 3)
	r := NewReconciler(&zzMgr15{c: s},
		WithNewPackageRevisionFn(func() v1.PackageRevision { return &v1.ProviderRevision{} }),
		WithCache(zzCache{}),
		WithVersioner(zzVersioner{in: true}),
		WithEstablisher(&zzEstablisher{}),
		WithDependencyManager(NewPackageDependencyManager(s, dag.NewMapDag, v1.ProviderGroupVersionKind)),
		WithConfigStore(zzCfg{}),
		WithFeatureFlags(&feature.Flags{}),
	)
	_, _ = r.Reconcile(context.Background(), reconcile.Request{NamespacedName: types.NamespacedName{Name: "rev"}})
	if s.Faulted {
		zz.Cover("fault-hit")
	}
	if lockState == 2 && !inLock() {
		zz.Cover("left-the-lock")
		// the other entries stay
		l := &v1beta1.Lock{}
		zz.Assert("lock-still-exists", s.Peek("", lockName, l))
		zz.Assert("other-lock-entries-kept", len(l.Packages) == 1 && l.Packages[0].Name == "other-rev")
	}
	zz.Observe("released", released, inLock())
}
