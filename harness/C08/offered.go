//go:build verif

//gosym:package github.com/crossplane/crossplane/internal/controller/apiextensions/offered
//gosym:file zz_c08_offered_verif.go

package offered

import (
	"context"

	extv1 "k8s.io/apiextensions-apiserver/pkg/apis/apiextensions/v1"
	metav1 "k8s.io/apimachinery/pkg/apis/meta/v1"
	kunstructured "k8s.io/apimachinery/pkg/apis/meta/v1/unstructured"
	"k8s.io/apimachinery/pkg/types"
	"k8s.io/utils/ptr"
	"sigs.k8s.io/controller-runtime/pkg/reconcile"

	v1 "github.com/crossplane/crossplane/apis/apiextensions/v1"
	zz "github.com/crossplane/crossplane/internal/zzverif"
	"github.com/crossplane/crossplane/internal/zzverif/kube"
)

// HarnessC08Offered: one reconcile of an XRD that is being deleted (or no
// longer offers a claim), from any state of its claim CRD and its claims,
// with an API failure at any call. The claim CRD is deleted only after every
// claim is gone and the claim controller was stopped; the controller is
// stopped only after the claims are gone (or the CRD is not ours); the
// finalizer goes only after the CRD is gone or was never ours.
//
//gosym:harness
//gosym:cover crd-deleted waiting-for-claims finalizer-removed fault-hit foreign-crd claim-deleted terminating-claim
func HarnessC08Offered() {
	s := zzStore()
	d := zzXRD()
	d.Finalizers = []string{finalizer}
	now := metav1.Now()
	d.DeletionTimestamp = &now
	s.Put(d)

	crdState := zz.Choose("crd.state", 4) // absent, ours, controlled by another owner, ours and already terminating
	foreign := zz.Str("foreign.uid")
	zz.Assume(foreign != zzXRDUID)
	zz.Assume(foreign != "")
	if crdState != 0 {
		crd := &extv1.CustomResourceDefinition{ObjectMeta: metav1.ObjectMeta{Name: zzClaimCRDName}}
		uid := zzXRDUID
		if crdState == 2 {
			uid = foreign
			zz.Cover("foreign-crd")
		}
		crd.OwnerReferences = []metav1.OwnerReference{{APIVersion: "apiextensions.crossplane.io/v1", Kind: "CompositeResourceDefinition", Name: zzXRDName, UID: types.UID(uid), Controller: ptr.To(true)}}
		if crdState == 3 {
			crd.Finalizers = []string{"customresourcecleanup.apiextensions.k8s.io"}
			crd.DeletionTimestamp = &now
		}
		s.Put(crd)
	}
	nClaims := zz.Choose("claims", 3)
	for i := 0; i < nClaims; i++ {
		x := &kunstructured.Unstructured{Object: map[string]any{}}
		x.SetAPIVersion("example.org/v1")
		x.SetKind("Thing")
		x.SetNamespace("ns")
		x.SetName("c" + string(rune('0'+i)))
		switch zz.Choose("claim"+string(rune('0'+i))+".state", 3) { // no finalizer, held by its finalizer, already terminating (held by its finalizer)
		case 1:
			x.SetFinalizers([]string{"claim.apiextensions.crossplane.io"})
		case 2:
			x.SetFinalizers([]string{"claim.apiextensions.crossplane.io"})
			x.SetDeletionTimestamp(&now)
			zz.Cover("terminating-claim")
		}
		s.Put(x)
	}

	eng := &zzEngine{s: s, running: true}
	crdExisted := crdState != 0
	crdWasOurs := crdState == 1 || crdState == 3
	claimsBefore := zzClaims(s)
	s.OnMutate = func() {
		if crdExisted && crdWasOurs && !s.Exists("apiextensions.k8s.io", "CustomResourceDefinition", "", zzClaimCRDName) {
			zz.Cover("crd-deleted")
			zz.Assert("claim-crd-deleted-only-after-every-claim-is-gone", zzClaims(s) == 0)
			zz.Assert("claim-crd-deleted-only-after-controller-stopped", eng.stopped)
			crdExisted = false
		}
		if zzClaims(s) < claimsBefore {
			zz.Cover("claim-deleted")
			// claims are deleted through their controller, which must still run
			zz.Assert("claims-deleted-only-while-their-controller-runs", !eng.stopped)
			zz.Assert("claims-of-a-foreign-crd-never-deleted", crdWasOurs)
			claimsBefore = zzClaims(s)
		}
		xd := &v1.CompositeResourceDefinition{}
		if !s.Peek("", zzXRDName, xd) || len(xd.Finalizers) == 0 {
			zz.Cover("finalizer-removed")
			zz.Assert("xrd-finalizer-removed-only-after-claim-crd-gone-or-never-ours", !zzCRDOurs(s))
		}
	}

	s.FaultAt = zz.Choose("fault.at", 10) - 1
	s.FaultKind = 1 + zz.Choose("fault.kind", 3)
	r := NewReconciler(NewClientApplicator(s), WithControllerEngine(eng))
	res, err := r.Reconcile(context.Background(), reconcile.Request{NamespacedName: types.NamespacedName{Name: zzXRDName}})
	if s.Faulted {
		zz.Cover("fault-hit")
	}
	if eng.stopped {
		zz.Assert("claim-controller-stopped-only-after-claims-gone-or-crd-not-ours", eng.claimsAtStop == 0 || !eng.crdOursAtStop)
	}
	if err == nil && res.Requeue && zzClaims(s) > 0 && crdWasOurs {
		zz.Cover("waiting-for-claims")
		zz.Assert("claim-crd-kept-while-claims-remain", s.Exists("apiextensions.k8s.io", "CustomResourceDefinition", "", zzClaimCRDName))
	}
	zz.Observe("stopped", eng.stopped, zzClaims(s))
}

var _ = kube.New
