//go:build verif

//gosym:package github.com/crossplane/crossplane/internal/controller/apiextensions/composite
//gosym:file zz_c09_store_verif.go

package composite

import (
	"context"

	xpv1 "github.com/crossplane/crossplane-runtime/apis/common/v1"
	"github.com/crossplane/crossplane-runtime/pkg/reconciler/managed"
	"github.com/crossplane/crossplane-runtime/pkg/resource"

	zz "github.com/crossplane/crossplane/internal/zzverif"
)

// zzRecordingPublisher records what it is asked to publish.
type zzRecordingPublisher struct {
	calls int
	got   managed.ConnectionDetails
}

func (p *zzRecordingPublisher) PublishConnection(_ context.Context, _ resource.ConnectionSecretOwner, c managed.ConnectionDetails) (bool, error) {
	p.calls++
	p.got = c
	return true, nil
}

func (p *zzRecordingPublisher) UnpublishConnection(context.Context, resource.ConnectionSecretOwner, managed.ConnectionDetails) error {
	return nil
}

// HarnessC09StorePublisher: the second publisher the XRD controller chains
// when external secret stores are enabled. What it hands on for the XR's
// publishConnectionDetailsTo entry contains only keys the XRD lists (all keys
// when the XRD lists none), with their values, and nothing at all when the XR
// does not publish to a store. Keys are symbolic.
//
//gosym:harness
//gosym:cover filtered unfiltered not-publishing
func HarnessC09StorePublisher() {
	allowed := zz.Str("xrd.key")
	k0, k1 := zz.Str("details.key0"), zz.Str("details.key1")
	zz.Assume(k0 != k1)
	var filter []string
	if zz.Bool("xrd.listsKeys") {
		filter = []string{allowed, "always"}
	}
	inner := &zzRecordingPublisher{}
	p := NewSecretStoreConnectionPublisher(inner, filter)
	xr := zzNewXRObject()
	publishes := zz.Bool("xr.publishesToStore")
	if publishes {
		xr.SetPublishConnectionDetailsTo(&xpv1.PublishConnectionDetailsTo{Name: "xr-conn"})
	}
	_, err := p.PublishConnection(context.Background(), xr, managed.ConnectionDetails{k0: []byte("v0"), k1: []byte("v1")})
	zz.Assert("publish-no-error", err == nil)
	if !publishes {
		zz.Cover("not-publishing")
		zz.Assert("nothing-published-without-a-store-entry", inner.calls == 0)
		return
	}
	zz.Assert("published-once", inner.calls == 1)
	for _, k := range []string{k0, k1} {
		_, in := inner.got[k]
		if filter == nil {
			zz.Cover("unfiltered")
			zz.Assert("all-keys-published-when-the-xrd-lists-none", in)
		} else {
			zz.Cover("filtered")
			zz.Assert("store-receives-only-keys-the-xrd-allows", in == zz.Or(k == allowed, k == "always"))
		}
	}
	if v, in := inner.got[k0]; in {
		zz.Assert("published-value-is-the-source-value", string(v) == "v0")
	}
}
