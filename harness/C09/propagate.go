//go:build verif

//gosym:package github.com/crossplane/crossplane/internal/controller/apiextensions/claim
//gosym:file zz_c09_propagate_verif.go

package claim

import (
	"context"

	corev1 "k8s.io/api/core/v1"
	metav1 "k8s.io/apimachinery/pkg/apis/meta/v1"
	"k8s.io/apimachinery/pkg/runtime/schema"
	"k8s.io/apimachinery/pkg/types"
	"k8s.io/utils/ptr"

	xpv1 "github.com/crossplane/crossplane-runtime/apis/common/v1"
	"github.com/crossplane/crossplane-runtime/pkg/resource"
	"github.com/crossplane/crossplane-runtime/pkg/resource/unstructured/claim"
	"github.com/crossplane/crossplane-runtime/pkg/resource/unstructured/composite"

	zz "github.com/crossplane/crossplane/internal/zzverif"
	"github.com/crossplane/crossplane/internal/zzverif/kube"
)

const (
	zzXRUID    = "uid-xr"
	zzClaimUID = "uid-claim"
)

// secret states
const (
	zzAbsent = iota
	zzUncontrolledConn
	zzUncontrolledOpaque
	zzOwned
	zzForeign
	zzStates
)

func zzPut(s *kube.Store, ns, name string, state int, ownerUID, foreignUID string, data map[string][]byte) {
	if state == zzAbsent {
		return
	}
	sec := &corev1.Secret{ObjectMeta: metav1.ObjectMeta{Namespace: ns, Name: name}, Type: resource.SecretTypeConnection, Data: data}
	switch state {
	case zzUncontrolledOpaque:
		sec.Type = corev1.SecretTypeOpaque
	case zzOwned:
		sec.OwnerReferences = []metav1.OwnerReference{{APIVersion: "example.org/v1", Kind: "K", Name: "owner", UID: types.UID(ownerUID), Controller: ptr.To(true)}}
	case zzForeign:
		sec.OwnerReferences = []metav1.OwnerReference{{APIVersion: "example.org/v1", Kind: "Other", Name: "other", UID: types.UID(foreignUID), Controller: ptr.To(true)}}
	}
	s.Put(sec)
}

// HarnessC09Propagate: a claim's connection secret is an exact copy of its
// XR's secret, made only if that secret is controlled by that XR; the
// destination is never written if another owner controls it; identical data
// is not rewritten.
//
//gosym:harness
//gosym:cover propagated source-not-owned dest-foreign noop
func HarnessC09Propagate() {
	s := kube.New()
	s.Register(&corev1.Secret{}, &corev1.SecretList{}, "", "Secret")

	xr := composite.New(composite.WithGroupVersionKind(schema.GroupVersionKind{Group: "example.org", Version: "v1", Kind: "XR"}))
	xr.SetName("xr")
	xr.SetUID(zzXRUID)
	if zz.Bool("xr.hasRef") {
		xr.SetWriteConnectionSecretToReference(&xpv1.SecretReference{Namespace: "xr-secrets", Name: "xr-conn"})
	}
	cm := claim.New(claim.WithGroupVersionKind(schema.GroupVersionKind{Group: "example.org", Version: "v1", Kind: "Claim"}))
	cm.SetName("cm")
	cm.SetNamespace("team")
	cm.SetUID(zzClaimUID)
	if zz.Bool("claim.hasRef") {
		cm.SetWriteConnectionSecretToReference(&xpv1.LocalSecretReference{Name: "cm-conn"})
	}

	srcForeign := zz.Str("src.foreign.uid")
	zz.Assume(srcForeign != zzXRUID)
	zz.Assume(srcForeign != "")
	dstForeign := zz.Str("dst.foreign.uid")
	zz.Assume(dstForeign != zzClaimUID)
	zz.Assume(dstForeign != "")

	srcData := map[string][]byte{"user": []byte("admin"), "pass": []byte("hunter2")}
	srcState := zz.Choose("src.state", zzStates)
	zzPut(s, "xr-secrets", "xr-conn", srcState, zzXRUID, srcForeign, srcData)
	dstState := zz.Choose("dst.state", zzStates)
	var dstData map[string][]byte
	switch zz.Choose("dst.data", 3) {
	case 0:
		dstData = map[string][]byte{"user": []byte("admin"), "pass": []byte("hunter2")}
	case 1:
		dstData = map[string][]byte{"user": []byte("someone-else")}
	default:
		// a key the XR's secret has lost since the last copy
		dstData = map[string][]byte{"user": []byte("admin"), "pass": []byte("hunter2"), "old": []byte("stale")}
	}
	zzPut(s, "team", "cm-conn", dstState, zzClaimUID, dstForeign, dstData)

	p := NewAPIConnectionPropagator(s)
	propagated, err := p.PropagateConnection(context.Background(), cm, xr)

	effective := 0
	for _, w := range s.Writes(false) {
		if w.Effect {
			effective++
		}
	}
	if xr.GetWriteConnectionSecretToReference() == nil || cm.GetWriteConnectionSecretToReference() == nil {
		zz.Assert("nothing-without-both-references", effective == 0 && !propagated && err == nil)
		return
	}
	if srcState != zzOwned {
		zz.Cover("source-not-owned")
		// a claim can never use Crossplane to read a secret its XR does not own
		zz.Assert("unowned-source-never-propagated", effective == 0 && !propagated)
		zz.Assert("unowned-source-is-an-error", err != nil)
		return
	}
	if dstState == zzForeign || dstState == zzUncontrolledOpaque {
		zz.Cover("dest-foreign")
		zz.Assert("foreign-destination-refused", err != nil && !propagated)
		zz.Assert("foreign-destination-untouched", effective == 0)
		return
	}
	zz.Assert("propagate-no-error", err == nil)
	if err != nil {
		return
	}
	got := &corev1.Secret{}
	zz.Assert("destination-exists", s.Peek("team", "cm-conn", got))
	zz.Assert("destination-is-exact-copy", len(got.Data) == len(srcData) && string(got.Data["user"]) == "admin" && string(got.Data["pass"]) == "hunter2")
	if propagated {
		zz.Cover("propagated")
		zz.Assert("destination-controlled-by-claim", kube.ControllerUID(s.Doc("", "Secret", "team", "cm-conn")) == zzClaimUID)
	} else {
		zz.Cover("noop")
		zz.Assert("identical-data-not-rewritten", effective == 0)
	}
	zz.Observe("propagated", propagated, effective)
}
