//go:build verif

//gosym:package github.com/crossplane/crossplane/internal/controller/apiextensions/composite
//gosym:file zz_c09_compose_verif.go

package composite

import (
	"context"

	corev1 "k8s.io/api/core/v1"
	kerrors "k8s.io/apimachinery/pkg/api/errors"
	metav1 "k8s.io/apimachinery/pkg/apis/meta/v1"
	"k8s.io/apimachinery/pkg/runtime"
	"k8s.io/apimachinery/pkg/runtime/schema"
	"sigs.k8s.io/controller-runtime/pkg/client"

	xpv1 "github.com/crossplane/crossplane-runtime/apis/common/v1"

	fnv1 "github.com/crossplane/crossplane/apis/apiextensions/fn/proto/v1"

	v1 "github.com/crossplane/crossplane/apis/apiextensions/v1"
	zz "github.com/crossplane/crossplane/internal/zzverif"
	"github.com/crossplane/crossplane/internal/zzverif/kube"
)

// HarnessC09Compose: the connection details the patch-and-transform composer
// returns for the XR's secret are exactly the ones its templates extract from
// composed resources that were rendered and applied in this reconcile;
// a resource that failed to render or was rejected by the API server
// contributes nothing, whatever secret sits at the name it would have used.
//
//gosym:harness
//gosym:cover all-applied one-rejected one-unrendered
func HarnessC09Compose() {
	const n = 2
	s := kube.New()
	s.Register(&corev1.Secret{}, &corev1.SecretList{}, "", "Secret")
	pre := zzSetupComposedN(s, n, 0, "", false)
	_ = pre

	outcome := make([]int, n) // applied, rejected as invalid, not rendered
	for i := range outcome {
		outcome[i] = zz.Choose("template"+string(rune('0'+i))+".outcome", 3)
	}
	policy := v1.FromFieldPathPolicyRequired
	rev := zzPTRevision([]bool{true, true}, func(i int) []v1.Patch {
		if outcome[i] == 2 {
			from, to := "spec.missing", "spec.field"
			return []v1.Patch{{Type: v1.PatchTypeFromCompositeFieldPath, FromFieldPath: &from, ToFieldPath: &to, Policy: &v1.PatchPolicy{FromFieldPath: &policy}}}
		}
		return nil
	})
	for i := 0; i < n; i++ {
		id := string(rune('0' + i))
		rev.Spec.Resources[i].Base = runtime.RawExtension{Raw: []byte(`{"apiVersion":"example.org/v1","kind":"Composed","spec":{"field":"new","writeConnectionSecretToRef":{"namespace":"ns","name":"sec-` + id + `"}}}`)}
		fromKey, fromVal := v1.ConnectionDetailTypeFromConnectionSecretKey, v1.ConnectionDetailTypeFromValue
		pw, val, key, fixed := "pw"+id, "val"+id, "password", "fixed"+id
		rev.Spec.Resources[i].ConnectionDetails = []v1.ConnectionDetail{
			{Name: &pw, Type: &fromKey, FromConnectionSecretKey: &key},
			{Name: &val, Type: &fromVal, Value: &fixed},
		}
		// whatever sits at the secret name: here somebody else's secret
		s.Put(&corev1.Secret{ObjectMeta: metav1.ObjectMeta{Namespace: "ns", Name: "sec-" + id}, Data: map[string][]byte{"password": []byte("p" + id)}})
	}
	s.RejectObject = func(obj client.Object) bool {
		for i := 0; i < n; i++ {
			if outcome[i] == 1 && obj.GetAnnotations()[AnnotationKeyCompositionResourceName] == zzResNames[i] {
				return true
			}
		}
		return false
	}

	c := NewPTComposer(s, s)
	res, err := c.Compose(context.Background(), zzReadXR(s), CompositionRequest{Revision: rev})
	zz.Assert("compose-no-error", err == nil)
	if err != nil {
		return
	}
	all := true
	for i := 0; i < n; i++ {
		id := string(rune('0' + i))
		pw, hasPw := res.ConnectionDetails["pw"+id]
		val, hasVal := res.ConnectionDetails["val"+id]
		switch outcome[i] {
		case 0:
			zz.Assert("applied-resource-contributes-its-secret-key", hasPw && string(pw) == "p"+id)
			zz.Assert("applied-resource-contributes-its-fixed-value", hasVal && string(val) == "fixed"+id)
		case 1:
			all = false
			zz.Cover("one-rejected")
			zz.Assert("rejected-resource-contributes-no-connection-detail", !hasPw && !hasVal)
		case 2:
			all = false
			zz.Cover("one-unrendered")
			zz.Assert("unrendered-resource-contributes-no-connection-detail", !hasPw && !hasVal)
		}
	}
	if all {
		zz.Cover("all-applied")
	}
	zz.Assert("no-other-connection-detail", len(res.ConnectionDetails) <= 2*n)
	zz.Observe("details", len(res.ConnectionDetails))
}

// zzColdCache is an informer cache that has not seen one object yet: reads of
// it fall through to the API server.
type zzColdCache struct {
	*kube.Store
	miss string
}

func (c *zzColdCache) Get(ctx context.Context, key client.ObjectKey, obj client.Object, opts ...client.GetOption) error {
	if key.Name == c.miss {
		return kerrors.NewNotFound(schema.GroupResource{Resource: "composed"}, key.Name)
	}
	return c.Store.Get(ctx, key, obj, opts...)
}

// HarnessC09Observed: what a function pipeline is shown. A resource that the
// XR references but another owner controls - read from the cache or, on a
// cache miss, from the API server - is not part of the observed state, so
// neither it nor the content of its connection secret can end up among the
// XR's connection details.
//
//gosym:harness
//gosym:cover foreign-referenced cache-miss own-observed
func HarnessC09Observed() {
	s := kube.New()
	s.Register(&corev1.Secret{}, &corev1.SecretList{}, "", "Secret")
	foreign := zz.Str("foreign.uid")
	zz.Assume(foreign != zzXRUIDc)
	zz.Assume(foreign != "")
	fo := zzComposedObject(zzXRName+"-foreign", zzResNames[0], zzOwnForeign, foreign)
	fo.SetWriteConnectionSecretToReference(&xpv1.SecretReference{Name: "foreign-conn", Namespace: "ns"})
	s.Put(fo)
	s.Put(&corev1.Secret{ObjectMeta: metav1.ObjectMeta{Name: "foreign-conn", Namespace: "ns"}, Data: map[string][]byte{"password": []byte("theirs")}})
	own := zzComposedObject(zzXRName+"-own", zzResNames[1], zzOwnOurs, "")
	s.Put(own)
	xr := zzNewXRObject()
	xr.Object["spec"] = map[string]any{"resourceRefs": []any{
		map[string]any{"apiVersion": "example.org/v1", "kind": zzCDKind, "name": zzXRName + "-own"},
		map[string]any{"apiVersion": "example.org/v1", "kind": zzCDKind, "name": zzXRName + "-foreign"},
	}}
	s.Put(xr)
	zz.Cover("foreign-referenced")
	var cached client.Client = s
	if zz.Bool("cache.missesForeignObject") {
		zz.Cover("cache-miss")
		cached = &zzColdCache{Store: s, miss: zzXRName + "-foreign"}
	}
	runner := &zzRunner{steps: []zzStep{{desired: []bool{zz.Bool("desired0"), true}}}}
	c := NewFunctionComposer(cached, s, runner)
	_, _ = c.Compose(context.Background(), zzReadXR(s), CompositionRequest{Revision: zzRevision(1)})
	if len(runner.calls) == 0 {
		return
	}
	obs := runner.calls[0].observed.GetResources()
	_, seesForeign := obs[zzResNames[0]]
	zz.Assert("resource-of-another-owner-is-not-observed", !seesForeign)
	if o, ok := obs[zzResNames[1]]; ok {
		zz.Cover("own-observed")
		_ = o
	}
	for _, r := range obs {
		zz.Assert("no-connection-detail-of-another-owners-resource-observed", string(r.GetConnectionDetails()["password"]) != "theirs")
	}
}

// zzPassThrough is a function that behaves as the function specification
// asks: it returns the desired composite it was sent (here: its connection
// details) along with what it adds itself.
type zzPassThrough struct {
	inner *zzRunner
	adds  bool
}

func (p *zzPassThrough) RunFunction(ctx context.Context, name string, req *fnv1.RunFunctionRequest) (*fnv1.RunFunctionResponse, error) {
	rsp, err := p.inner.RunFunction(ctx, name, req)
	if err != nil || rsp == nil {
		return rsp, err
	}
	cds := map[string][]byte{}
	for k, v := range req.GetDesired().GetComposite().GetConnectionDetails() {
		cds[k] = v
	}
	if p.adds {
		cds["produced"] = []byte("now")
	}
	if rsp.GetDesired().GetComposite() == nil {
		rsp.Desired.Composite = &fnv1.Resource{}
	}
	rsp.Desired.Composite.ConnectionDetails = cds
	return rsp, nil
}

// HarnessC09PassThrough: the XR's connection details a function pipeline
// returns are the ones its functions produced in this reconcile. The XR's
// secret from an earlier reconcile (its own, or an uncontrolled
// connection-type one it may adopt) holds a key that no function produces
// any more; the functions pass the desired state they are sent through, as
// the specification asks. The stored key is not among the connection details
// Compose returns, and the first function is sent no desired connection
// details.
//
//gosym:harness
//gosym:cover stored-secret produced nothing-produced
func HarnessC09PassThrough() {
	s := kube.New()
	s.Register(&corev1.Secret{}, &corev1.SecretList{}, "", "Secret")
	xr := zzNewXRObject()
	xr.SetWriteConnectionSecretToReference(&xpv1.SecretReference{Name: "xr-conn", Namespace: "ns"})
	s.Put(xr)
	if zz.Bool("secret.stored") {
		zz.Cover("stored-secret")
		sec := &corev1.Secret{ObjectMeta: metav1.ObjectMeta{Name: "xr-conn", Namespace: "ns"}, Data: map[string][]byte{"stale": []byte("left-over")}}
		if zz.Bool("secret.controlled-by-xr") {
			sec.OwnerReferences = []metav1.OwnerReference{{APIVersion: zzXRGVK.GroupVersion().String(), Kind: zzXRGVK.Kind, Name: zzXRName, UID: zzXRUIDc, Controller: ptrTrue()}}
		}
		s.Put(sec)
	}
	adds := zz.Bool("function.produces-a-key")
	inner := &zzRunner{steps: []zzStep{{desired: []bool{true, false}}}}
	c := NewFunctionComposer(s, s, &zzPassThrough{inner: inner, adds: adds})
	res, err := c.Compose(context.Background(), zzReadXR(s), CompositionRequest{Revision: zzRevision(1)})
	if len(inner.calls) > 0 {
		zz.Assert("pipeline-starts-without-desired-connection-details", len(inner.calls[0].desired.GetComposite().GetConnectionDetails()) == 0)
	}
	if err != nil {
		return
	}
	_, stale := res.ConnectionDetails["stale"]
	zz.Assert("stored-key-no-function-produced-is-not-returned", !stale)
	_, produced := res.ConnectionDetails["produced"]
	if adds {
		zz.Cover("produced")
		zz.Assert("produced-key-is-returned", produced)
	} else {
		zz.Cover("nothing-produced")
		zz.Assert("only-produced-keys-are-returned", len(res.ConnectionDetails) == 0)
	}
}

func ptrTrue() *bool { t := true; return &t }
