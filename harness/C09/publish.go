//go:build verif

//gosym:package github.com/crossplane/crossplane/internal/controller/apiextensions/composite
//gosym:file zz_c09_publish_verif.go

package composite

import (
	"context"

	corev1 "k8s.io/api/core/v1"
	metav1 "k8s.io/apimachinery/pkg/apis/meta/v1"
	"k8s.io/apimachinery/pkg/runtime/schema"
	"k8s.io/apimachinery/pkg/types"
	"k8s.io/utils/ptr"

	xpv1 "github.com/crossplane/crossplane-runtime/apis/common/v1"
	"github.com/crossplane/crossplane-runtime/pkg/reconciler/managed"
	"github.com/crossplane/crossplane-runtime/pkg/resource"
	"github.com/crossplane/crossplane-runtime/pkg/resource/unstructured/composed"
	"github.com/crossplane/crossplane-runtime/pkg/resource/unstructured/composite"

	zz "github.com/crossplane/crossplane/internal/zzverif"
	"github.com/crossplane/crossplane/internal/zzverif/kube"
)

const (
	zzXRUID     = "uid-xr"
	zzSecretNS  = "secrets"
	zzSecretNam = "xr-conn"
)

var zzGVK = schema.GroupVersionKind{Group: "example.org", Version: "v1", Kind: "XR"}

var zzVals = [][]byte{[]byte("v0"), []byte("v1"), []byte("v2")}

// pre-existing secret states
const (
	zzSecAbsent = iota
	zzSecUncontrolledConn
	zzSecUncontrolledOpaque
	zzSecOurs
	zzSecForeign
	zzSecStates
)

func zzPutSecret(s *kube.Store, ns, name string, state int, ownerUID, foreignUID string, data map[string][]byte) {
	if state == zzSecAbsent {
		return
	}
	sec := &corev1.Secret{ObjectMeta: metav1.ObjectMeta{Namespace: ns, Name: name}, Type: resource.SecretTypeConnection, Data: data}
	switch state {
	case zzSecUncontrolledOpaque:
		sec.Type = corev1.SecretTypeOpaque
	case zzSecOurs:
		sec.OwnerReferences = []metav1.OwnerReference{{APIVersion: "example.org/v1", Kind: "XR", Name: "xr", UID: types.UID(ownerUID), Controller: ptr.To(true)}}
	case zzSecForeign:
		sec.OwnerReferences = []metav1.OwnerReference{{APIVersion: "example.org/v1", Kind: "Other", Name: "other", UID: types.UID(foreignUID), Controller: ptr.To(true)}}
	}
	s.Put(sec)
}

func zzSecretData(s *kube.Store, ns, name string) (map[string][]byte, bool) {
	sec := &corev1.Secret{}
	if !s.Peek(ns, name, sec) {
		return nil, false
	}
	return sec.Data, true
}

// HarnessC09Publish: the XR's connection secret holds only allowed keys with
// the values produced for this XR; is written only if asked for; is never
// written over another owner's secret; identical data is not rewritten.
//
//gosym:harness
//gosym:cover published filtered-out no-secret-wanted foreign-secret noop identical-data
func HarnessC09Publish() {
	s := kube.New()
	s.Register(&corev1.Secret{}, &corev1.SecretList{}, "", "Secret")

	xr := composite.New(composite.WithGroupVersionKind(zzGVK))
	xr.SetName("xr")
	xr.SetUID(zzXRUID)
	wants := zz.Bool("xr.wantsSecret")
	if wants {
		xr.SetWriteConnectionSecretToReference(&xpv1.SecretReference{Namespace: zzSecretNS, Name: zzSecretNam})
	}

	nKeys := zz.Choose("details", zz.Bound(3, 4))
	details := managed.ConnectionDetails{}
	var keys []string
	for i := 0; i < nKeys; i++ {
		k := zz.Str("detail" + string(rune('0'+i)))
		for _, o := range keys {
			zz.Assume(o != k)
		}
		keys = append(keys, k)
		details[k] = zzVals[i]
	}
	nFilter := zz.Choose("filter", 3)
	var filter []string
	for i := 0; i < nFilter; i++ {
		filter = append(filter, zz.Str("filter"+string(rune('0'+i))))
	}

	foreign := zz.Str("foreign.uid")
	zz.Assume(foreign != zzXRUID)
	zz.Assume(foreign != "")
	state := zz.Choose("secret.state", zzSecStates)
	var preData map[string][]byte
	identical := false
	switch zz.Choose("secret.data", 3) {
	case 0: // empty
	case 1: // exactly what will be published (possibly)
		identical = true
		preData = map[string][]byte{}
		for i, k := range keys {
			in := len(filter) == 0
			for _, f := range filter {
				if f == k {
					in = true
				}
			}
			if in {
				preData[k] = zzVals[i]
			}
		}
	case 2:
		preData = map[string][]byte{"stale": []byte("old")}
	}
	zzPutSecret(s, zzSecretNS, zzSecretNam, state, zzXRUID, foreign, preData)

	p := NewAPIFilteredSecretPublisher(s, filter)
	published, err := p.PublishConnection(context.Background(), xr, details)

	writes := s.Writes(false)
	effective := 0
	for _, w := range writes {
		if w.Effect {
			effective++
		}
	}
	if !wants {
		zz.Cover("no-secret-wanted")
		zz.Assert("nothing-written-when-no-secret-requested", len(writes) == 0 && !published && err == nil)
		return
	}
	post, exists := zzSecretData(s, zzSecretNS, zzSecretNam)
	if state == zzSecForeign || state == zzSecUncontrolledOpaque {
		if state == zzSecForeign {
			zz.Cover("foreign-secret")
		}
		zz.Assert("foreign-secret-refused", err != nil && !published)
		zz.Assert("foreign-secret-untouched", effective == 0)
		return
	}
	zz.Assert("publish-no-error", err == nil)
	if err != nil {
		return
	}
	zz.Assert("secret-exists-after-publish", exists)
	// every stored key is an allowed key produced for this XR, with its value
	// (a key that was in the pre-existing secret and is kept is judged last)
	leftOver := false
	for k, v := range post {
		produced := false
		for i, dk := range keys {
			if dk == k {
				allowed := len(filter) == 0
				for _, f := range filter {
					if f == k {
						allowed = true
					}
				}
				if allowed {
					produced = true
					zz.Assert("published-value-is-the-produced-value", string(v) == string(zzVals[i]))
				}
			}
		}
		if !produced {
			// anything else was in the XR's own secret before and is unchanged
			old, wasThere := preData[k]
			zz.Assert("only-allowed-produced-keys-are-added", wasThere && string(old) == string(v))
			leftOver = true
		}
	}
	// every allowed produced key is there
	for i, dk := range keys {
		allowed := len(filter) == 0
		for _, f := range filter {
			if f == dk {
				allowed = true
			}
		}
		if allowed {
			v, ok := post[dk]
			zz.Assert("allowed-key-published", ok && string(v) == string(zzVals[i]))
			zz.Cover("published")
		} else {
			zz.Cover("filtered-out")
		}
	}
	if !published {
		zz.Cover("noop")
		zz.Assert("unpublished-means-no-effective-write", effective == 0)
	}
	if identical && state == zzSecOurs {
		// the XR's own secret already holds exactly the allowed produced keys
		zz.Cover("identical-data")
		zz.Assert("identical-data-never-rewritten", !published && effective == 0)
	}
	zz.Observe("published", published, len(post))
	// last, because the publisher is known to fail it (known_findings.txt): the
	// XR's secret holds only allowed keys produced for this XR - a key left in
	// it from before (no longer produced, or no longer allowed) is removed
	zz.Assert("key-no-longer-produced-or-allowed-is-removed-from-the-xrs-secret", !leftOver)
}

// HarnessC09Extract: connection details extracted from a composed resource
// contain exactly what the extraction configs name.
//
//gosym:harness panics
//gosym:cover from-secret-key from-value from-field-path extract-error config-without-source
func HarnessC09Extract() {
	cd := composed.New()
	cd.SetAPIVersion("example.org/v1")
	cd.SetKind("Composed")
	cd.SetName("cd")
	cd.Object["status"] = map[string]any{"endpoint": "db.example.org", "port": int64(5432)}

	data := managed.ConnectionDetails{}
	nData := zz.Choose("data", 3)
	var dkeys []string
	for i := 0; i < nData; i++ {
		k := zz.Str("data" + string(rune('0'+i)))
		for _, o := range dkeys {
			zz.Assume(o != k)
		}
		dkeys = append(dkeys, k)
		data[k] = zzVals[i]
	}

	nCfg := 1 + zz.Choose("cfgs", zz.Bound(2, 3))
	var cfgs []ConnectionDetailExtractConfig
	for i := 0; i < nCfg; i++ {
		n := "cfg" + string(rune('0'+i))
		c := ConnectionDetailExtractConfig{Name: zz.Str(n + ".name")}
		c.Type = []ConnectionDetailType{ConnectionDetailTypeFromConnectionSecretKey, ConnectionDetailTypeFromFieldPath, ConnectionDetailTypeFromValue, "Unknown"}[zz.Choose(n+".type", 4)]
		// the field that belongs to the type is set or missing
		if zz.Bool(n + ".field.set") {
			switch c.Type {
			case ConnectionDetailTypeFromConnectionSecretKey:
				c.FromConnectionSecretKey = ptr.To(zz.Str(n + ".key"))
			case ConnectionDetailTypeFromFieldPath:
				c.FromFieldPath = ptr.To([]string{"status.endpoint", "status.port", "status.missing", "bad[path"}[zz.Choose(n+".path", 4)])
			case ConnectionDetailTypeFromValue:
				c.Value = ptr.To("fixed")
			}
		}
		cfgs = append(cfgs, c)
	}
	out, err := ExtractConnectionDetails(cd, data, cfgs...)
	if err != nil {
		zz.Cover("extract-error")
		return
	}
	// every output key is the name of some config whose source exists: a
	// secret key the composed resource's connection details lack, or a field
	// path the composed resource lacks, produces nothing
	produces := func(c ConnectionDetailExtractConfig) bool {
		switch c.Type {
		case ConnectionDetailTypeFromValue:
			return c.Value != nil
		case ConnectionDetailTypeFromConnectionSecretKey:
			for _, dk := range dkeys {
				if c.FromConnectionSecretKey != nil && dk == *c.FromConnectionSecretKey {
					return true
				}
			}
		case ConnectionDetailTypeFromFieldPath:
			return c.FromFieldPath != nil && (*c.FromFieldPath == "status.endpoint" || *c.FromFieldPath == "status.port")
		}
		return false
	}
	for k := range out {
		named, sourced := false, false
		for _, c := range cfgs {
			if c.Name != k {
				continue
			}
			named = true
			if produces(c) {
				sourced = true
			}
		}
		zz.Assert("extracted-key-is-a-configured-name", named)
		if named && !sourced {
			zz.Cover("missing-source")
		}
		zz.Assert("extracted-key-has-an-existing-source", !named || sourced)
	}
	for _, c := range cfgs {
		if !produces(c) {
			zz.Cover("config-without-source")
		}
	}
	// the last config naming a key decides its value
	for i := len(cfgs) - 1; i >= 0; i-- {
		c := cfgs[i]
		later := false
		for _, d := range cfgs[i+1:] {
			if d.Name == c.Name {
				later = true
			}
		}
		if later {
			continue
		}
		switch c.Type {
		case ConnectionDetailTypeFromValue:
			zz.Cover("from-value")
			zz.Assert("from-value-extracted", string(out[c.Name]) == "fixed")
		case ConnectionDetailTypeFromConnectionSecretKey:
			for j, dk := range dkeys {
				if dk == *c.FromConnectionSecretKey {
					zz.Cover("from-secret-key")
					zz.Assert("from-secret-key-extracted", string(out[c.Name]) == string(zzVals[j]))
				}
			}
		case ConnectionDetailTypeFromFieldPath:
			if *c.FromFieldPath == "status.endpoint" {
				zz.Cover("from-field-path")
				zz.Assert("from-field-path-extracted", string(out[c.Name]) == "db.example.org")
			}
		}
	}
}
