//go:build verif

//gosym:package github.com/crossplane/crossplane/internal/engine
//gosym:file zz_c13_preempt_verif.go

package engine

import (
	"context"
	"errors"
	"time"

	"k8s.io/apimachinery/pkg/runtime/schema"
	"sigs.k8s.io/controller-runtime/pkg/cache"
	"sigs.k8s.io/controller-runtime/pkg/client"
	kcontroller "sigs.k8s.io/controller-runtime/pkg/controller"
	"sigs.k8s.io/controller-runtime/pkg/manager"
	"sigs.k8s.io/controller-runtime/pkg/reconcile"
	"sigs.k8s.io/controller-runtime/pkg/source"

	zz "github.com/crossplane/crossplane/internal/zzverif"
)

// zzPoints wraps the informers stub: every call the engine makes into it is a
// scheduling point at which the harness may let a second actor run.
type zzPoints struct {
	*zzInformers
	point func()
}

func (p *zzPoints) GetInformer(ctx context.Context, obj client.Object, opts ...cache.InformerGetOption) (cache.Informer, error) {
	if p.point != nil {
		p.point()
	}
	return p.zzInformers.GetInformer(ctx, obj, opts...)
}

// zzPointCtrl is the running controller; its Watch is a scheduling point too
// (the engine calls it holding the controller's lock).
type zzPointCtrl struct {
	*zzCtrl
	point func()
}

func (c *zzPointCtrl) Watch(src source.TypedSource[reconcile.Request]) error {
	if c.point != nil {
		c.point()
	}
	return c.zzCtrl.Watch(src)
}

// ActiveInformers is a scheduling point twice: before the snapshot is taken
// and after it (the caller then goes on with a snapshot that may be stale).
func (p *zzPoints) ActiveInformers() []schema.GroupVersionKind {
	if p.point != nil {
		p.point()
	}
	a := p.zzInformers.ActiveInformers()
	if p.point != nil {
		p.point()
	}
	return a
}

// HarnessC13Preempt: two actors on one engine. The first performs one engine
// call; at its j-th call out of the engine (into the informers or the
// controller's Watch; a symbolic j) a second actor
// wants to perform another engine call, or the informer of one kind is
// removed. The harness asks the tracked state of the engine's and the
// controller's locks whether the second actor could enter right there
// (TryLock): if so its call runs at that point, inside the first actor's
// call; otherwise it runs once the first call has returned. Whatever the
// schedule, once both calls are over a controller that is not running has no
// event handler left and its context is cancelled, a running one has at most
// one live handler per recorded watch, and nothing locks a mutex it holds.
//
//gosym:harness seqgo locks panics
//gosym:cover second-ran-inside second-ran-after stopped-inside
func HarnessC13Preempt() {
	under := &zzInformers{}
	infs := &zzPoints{zzInformers: under}
	elected := make(chan struct{})
	close(elected)
	e := New(&zzMgr{elected: elected}, infs, nil, nil)
	ctrl := &zzPointCtrl{zzCtrl: &zzCtrl{started: make(chan context.Context, 4)}}
	newCtrl := WithNewControllerFn(func(string, manager.Manager, kcontroller.Options) (kcontroller.Controller, error) { return ctrl, nil })
	const name = "composite/xrs.example.org"
	all := zzWatches()

	zz.Assert("start-no-error", e.Start(name, newCtrl) == nil)
	ctx := <-ctrl.started
	var pre []Watch
	for k, w := range all {
		if zz.Bool("pre.watch" + string(rune('0'+k))) {
			pre = append(pre, w)
		}
	}
	if len(pre) > 0 {
		zz.Assert("pre-startwatches-no-error", e.StartWatches(name, pre...) == nil)
	}

	// the second actor's call
	op2 := zz.Choose("second.op", 4)
	k2 := zz.Choose("second.watch", len(all))
	second := func() {
		switch op2 {
		case 0:
			_ = e.Stop(context.Background(), name)
		case 1:
			_ = e.StartWatches(name, all[k2])
		case 2:
			_, _ = e.StopWatches(context.Background(), name, zzID(all[k2]))
		case 3:
			_ = under.RemoveInformer(context.Background(), zzObj(zzID(all[k2]).GVK.Kind))
		}
	}
	// could the second actor take the locks its call needs right now?
	free := func() bool {
		if op2 == 3 {
			return true // the stub informers take no lock
		}
		if !e.mx.TryLock() {
			return false
		}
		ok := true
		if c := e.controllers[name]; c != nil {
			if ok = c.mx.TryLock(); ok {
				c.mx.Unlock()
			}
		}
		e.mx.Unlock()
		return ok
	}
	at := zz.Choose("second.at", zz.Bound(4, 9))
	n := 0
	ran := false
	point := func() {
		if ran || n != at {
			n++
			return
		}
		n++
		if free() {
			ran = true
			zz.Cover("second-ran-inside")
			second()
			if op2 == 0 {
				zz.Cover("stopped-inside")
			}
		}
	}

	infs.point, ctrl.point = point, point

	// the first actor's call
	switch zz.Choose("first.op", 3) {
	case 0:
		var ws []Watch
		for k, w := range all {
			if zz.Bool("first.watch" + string(rune('0'+k))) {
				ws = append(ws, w)
			}
		}
		_ = e.StartWatches(name, ws...)
	case 1:
		_, _ = e.StopWatches(context.Background(), name, zzID(all[zz.Choose("first.stop", len(all))]))
	case 2:
		_ = e.Stop(context.Background(), name)
	}
	infs.point, ctrl.point = nil, nil
	if !ran {
		ran = true
		zz.Cover("second-ran-after")
		second()
	}

	// both calls are over
	if !e.IsRunning(name) {
		zz.Assert("stopped-controller-context-cancelled", ctx.Err() != nil)
		for _, kind := range zzKinds {
			zz.Assert("stopped-controller-has-no-event-handler-left", under.live(zzObj(kind).GroupVersionKind()) == 0)
		}
	} else {
		got, err := e.GetWatches(name)
		zz.Assert("getwatches-no-error", err == nil)
		for _, kind := range zzKinds {
			gvk := zzObj(kind).GroupVersionKind()
			types := 0
			for _, g := range got {
				if g.GVK == gvk {
					types++
				}
			}
			zz.Assert("at-most-one-live-watch-per-type-and-kind", under.live(gvk) <= types)
		}
	}
	zz.Observe("end", e.IsRunning(name), under.live(zzObj("ComposedA").GroupVersionKind()), under.live(zzObj("XR").GroupVersionKind()))
}

// HarnessC13StartRace: two actors and a controller that is not running yet.
// The first calls Start; while it is inside the function that creates the
// controller-runtime controller, the second wants to call Start (of the same
// name), Stop, IsRunning or StartWatches: it runs right there if the engine's
// lock is free at that point, otherwise once the first call has returned.
// However they interleave, at most one controller is created for the name
// per start-stop cycle, and after a final Stop every controller that was
// started has had its context cancelled.
//
//gosym:harness seqgo locks panics
//gosym:cover second-ran-after stopped
func HarnessC13StartRace() {
	under := &zzInformers{}
	elected := make(chan struct{})
	close(elected)
	e := New(&zzMgr{elected: elected}, under, nil, nil)
	const name = "composite/xrs.example.org"
	started := make(chan context.Context, 8)
	created := 0

	op2 := zz.Choose("second.op", 4)
	ran := false
	var newCtrl ControllerOption
	second := func() {
		switch op2 {
		case 0:
			_ = e.Start(name, newCtrl)
		case 1:
			_ = e.Stop(context.Background(), name)
		case 2:
			_ = e.IsRunning(name)
		case 3:
			_ = e.StartWatches(name, zzWatches()[0])
		}
	}
	newCtrl = WithNewControllerFn(func(string, manager.Manager, kcontroller.Options) (kcontroller.Controller, error) {
		created++
		if !ran && e.mx.TryLock() {
			// the second actor can take the engine's lock while the first is
			// creating its controller
			e.mx.Unlock()
			ran = true
			zz.Cover("second-ran-inside")
			second()
		}
		return &zzCtrl{started: started}, nil
	})

	zz.Assert("start-no-error", e.Start(name, newCtrl) == nil)
	if !ran {
		ran = true
		zz.Cover("second-ran-after")
		second()
	}
	if op2 == 0 || op2 == 2 || op2 == 3 {
		zz.Assert("running-after-start", e.IsRunning(name))
		zz.Assert("one-controller-per-name", created == 1)
	}
	zz.Assert("stop-no-error", e.Stop(context.Background(), name) == nil)
	zz.Cover("stopped")
	zz.Assert("not-running-after-stop", !e.IsRunning(name))
	for k := 0; k < created; k++ {
		select {
		case ctx := <-started:
			zz.Assert("every-started-controller-is-cancelled-by-stop", ctx.Err() != nil)
		default:
		}
	}
	zz.Observe("created", created)
}

// zzCompletes runs a read-only engine call as a second actor and reports
// whether it completed: under the engine the call runs in place and a lock it
// would have to wait for ends it (recovered here); natively it runs in a
// goroutine that is given 300 ms.
func zzCompletes(f func()) bool {
	done := make(chan struct{}, 1)
	go func() {
		defer func() { _ = recover() }()
		f()
		done <- struct{}{}
	}()
	select {
	case <-done:
		return true
	case <-time.After(300 * time.Millisecond):
		return false
	}
}

// HarnessC13ReadersWait: while one actor is inside StartWatches' critical
// section (the controller's Watch has been called, the source is not yet
// recorded), a second actor's GetWatches - which reads the controller's watch
// table - has to wait for it; IsRunning, which only reads the engine's
// controller table, need not.
//
//gosym:harness seqgo locks
//gosym:cover inside-critical-section
func HarnessC13ReadersWait() {
	under := &zzInformers{}
	elected := make(chan struct{})
	close(elected)
	e := New(&zzMgr{elected: elected}, under, nil, nil)
	ctrl := &zzPointCtrl{zzCtrl: &zzCtrl{started: make(chan context.Context, 4)}}
	newCtrl := WithNewControllerFn(func(string, manager.Manager, kcontroller.Options) (kcontroller.Controller, error) { return ctrl, nil })
	const name = "composite/xrs.example.org"
	zz.Assert("start-no-error", e.Start(name, newCtrl) == nil)
	<-ctrl.started
	all := zzWatches()
	if zz.Bool("pre.watch") {
		zz.Assert("pre-startwatches-no-error", e.StartWatches(name, all[2]) == nil)
	}
	getWatchesCompleted, isRunningCompleted, reached := false, false, false
	ctrl.point = func() {
		if reached {
			return
		}
		reached = true
		zz.Cover("inside-critical-section")
		getWatchesCompleted = zzCompletes(func() { _, _ = e.GetWatches(name) })
		isRunningCompleted = zzCompletes(func() { _ = e.IsRunning(name) })
	}
	zz.Assert("startwatches-no-error", e.StartWatches(name, all[zz.Choose("watch", 2)]) == nil)
	ctrl.point = nil
	zz.Assert("critical-section-reached", reached)
	zz.Assert("getwatches-waits-for-a-watch-start-in-progress", !getWatchesCompleted)
	zz.Assert("isrunning-does-not-wait-for-a-watch-start", isRunningCompleted)
	got, err := e.GetWatches(name)
	zz.Assert("getwatches-no-error", err == nil && len(got) >= 1)
}

// zzSyncCtrl is a controller whose Start returns - with an error, as
// controller-runtime does for a cache sync cut short, or cleanly - once its
// context is cancelled (or at once if it ends on its own), but not before
// the harness lets it.
type zzSyncCtrl struct {
	kcontroller.Controller
	ctx     chan context.Context
	release chan struct{}
	done    chan struct{}
	fails   bool
	own     bool
}

func (c *zzSyncCtrl) Start(ctx context.Context) error {
	c.ctx <- ctx
	if !c.own {
		<-ctx.Done()
	}
	<-c.release
	if c.done != nil {
		defer close(c.done)
	}
	if c.fails {
		return errors.New("failed to wait for caches to sync: context canceled")
	}
	return nil
}

// HarnessC13StaleStop: a controller whose Start may return an error late
// (after its context was cancelled, or on its own), with or without a stop
// and restart under the same name in between (what the XRD controller does
// when an XRD changes). A controller that fails on its own is cleaned up
// (IsRunning turns false); a successor started under the same name stays
// running - it is stopped by a Stop call for it, not by the clean-up of its
// predecessor.
//
//gosym:harness latego locks
//gosym:cover predecessor-failed-late failed-on-its-own
func HarnessC13StaleStop() {
	under := &zzInformers{}
	elected := make(chan struct{})
	close(elected)
	e := New(&zzMgr{elected: elected}, under, nil, nil)
	const name = "composite/xrs.example.org"
	first := &zzSyncCtrl{ctx: make(chan context.Context, 1), release: make(chan struct{}), done: make(chan struct{}), fails: zz.Bool("first.startFails")}
	second := &zzCtrl{started: make(chan context.Context, 1)}
	n := 0
	newCtrl := WithNewControllerFn(func(string, manager.Manager, kcontroller.Options) (kcontroller.Controller, error) {
		n++
		if n == 1 {
			return first, nil
		}
		return second, nil
	})
	zz.Assert("start-no-error", e.Start(name, newCtrl) == nil)
	restarted := zz.Bool("restarted")
	if !restarted {
		// the controller ends on its own: its context is never cancelled by a
		// Stop, so let its Start return
		first.own = true
		close(first.release)
		ctx1 := <-first.ctx
		_ = ctx1
		// give the engine's goroutine its turn
		select {
		case <-first.done:
		case <-time.After(500 * time.Millisecond):
		}
		if first.fails {
			zz.Cover("failed-on-its-own")
			// (natively the clean-up follows Start's return in another goroutine)
			for i := 0; i < 100 && e.IsRunning(name); i++ {
				time.Sleep(10 * time.Millisecond)
			}
			zz.Assert("failed-controller-is-cleaned-up", !e.IsRunning(name))
		}
		return
	}
	zz.Assert("stop-no-error", e.Stop(context.Background(), name) == nil)
	zz.Assert("restart-no-error", e.Start(name, newCtrl) == nil)
	zz.Assert("running-after-restart", e.IsRunning(name))
	// the predecessor's Start now returns (with an error, or cleanly)
	close(first.release)
	if first.fails {
		zz.Cover("predecessor-failed-late")
	}
	ctx2 := <-second.started
	stopped := false
	select {
	case <-ctx2.Done():
		stopped = true
	case <-time.After(500 * time.Millisecond):
	}
	zz.Assert("successor-not-cancelled-by-its-predecessors-cleanup", !stopped)
	zz.Assert("successor-still-running", e.IsRunning(name))
}
