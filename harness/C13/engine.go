//go:build verif

//gosym:package github.com/crossplane/crossplane/internal/engine
//gosym:file zz_c13_engine_verif.go

package engine

import (
	"context"
	"errors"

	"k8s.io/apimachinery/pkg/apis/meta/v1/unstructured"
	"k8s.io/apimachinery/pkg/runtime"
	"k8s.io/apimachinery/pkg/runtime/schema"
	kcache "k8s.io/client-go/tools/cache"
	"sigs.k8s.io/controller-runtime/pkg/cache"
	"sigs.k8s.io/controller-runtime/pkg/client"
	kcontroller "sigs.k8s.io/controller-runtime/pkg/controller"
	"sigs.k8s.io/controller-runtime/pkg/manager"
	"sigs.k8s.io/controller-runtime/pkg/reconcile"
	"sigs.k8s.io/controller-runtime/pkg/source"

	zz "github.com/crossplane/crossplane/internal/zzverif"
)

// ---- environment: manager, controller, informers ----------------------

type zzMgr struct {
	manager.Manager
	elected chan struct{}
}

func (m *zzMgr) GetScheme() *runtime.Scheme { return nil }
func (m *zzMgr) Elected() <-chan struct{}   { return m.elected }

// zzCtrl is a controller-runtime controller that is running: Watch starts
// the source right away, as the real controller does once started.
type zzCtrl struct {
	kcontroller.Controller
	started  chan context.Context
	failNext bool
	// failIn: the n-th Watch call from now fails (once); 0 = none
	failIn  int
	watches int
}

func (c *zzCtrl) Watch(src source.TypedSource[reconcile.Request]) error {
	if c.failNext {
		c.failNext = false
		return errors.New("injected watch failure")
	}
	if c.failIn > 0 {
		c.failIn--
		if c.failIn == 0 {
			return errors.New("injected watch failure")
		}
	}
	c.watches++
	return src.Start(context.Background(), nil)
}

func (c *zzCtrl) Start(ctx context.Context) error {
	c.started <- ctx
	return nil
}

type zzReg struct{ id int }

func (r *zzReg) HasSynced() bool { return true }

type zzInformer struct {
	cache.Informer
	gvk  schema.GroupVersionKind
	regs []*zzReg
	next *int
	t    *zzInformers
	// stopped: the informer was removed from the cache; it delivers nothing any more
	stopped bool
}

func (i *zzInformer) IsStopped() bool { return i.stopped }

func (i *zzInformer) AddEventHandler(kcache.ResourceEventHandler) (kcache.ResourceEventHandlerRegistration, error) {
	*i.next++
	r := &zzReg{id: *i.next}
	i.regs = append(i.regs, r)
	return r, nil
}

func (i *zzInformer) RemoveEventHandler(reg kcache.ResourceEventHandlerRegistration) error {
	if i.t.failRemovals > 0 {
		i.t.failRemovals--
		return errors.New("injected event handler removal failure")
	}
	for k, r := range i.regs {
		if kcache.ResourceEventHandlerRegistration(r) == reg {
			i.regs = append(i.regs[:k:k], i.regs[k+1:]...)
			return nil
		}
	}
	return nil
}

// zzInformers tracks one informer per GVK; GetInformer starts one on demand
// and RemoveInformer drops it together with its handler registrations.
type zzInformers struct {
	cache.Informers
	infs []*zzInformer
	next int
	// failRemovals is the number of upcoming RemoveEventHandler calls that fail.
	failRemovals int
}

func zzGVKOf(obj client.Object) schema.GroupVersionKind {
	return obj.GetObjectKind().GroupVersionKind()
}

func (t *zzInformers) find(gvk schema.GroupVersionKind) int {
	for k, i := range t.infs {
		if i.gvk == gvk {
			return k
		}
	}
	return -1
}

func (t *zzInformers) GetInformer(_ context.Context, obj client.Object, _ ...cache.InformerGetOption) (cache.Informer, error) {
	gvk := zzGVKOf(obj)
	if k := t.find(gvk); k >= 0 {
		return t.infs[k], nil
	}
	i := &zzInformer{gvk: gvk, next: &t.next, t: t}
	t.infs = append(t.infs, i)
	return i, nil
}

func (t *zzInformers) RemoveInformer(_ context.Context, obj client.Object) error {
	if k := t.find(zzGVKOf(obj)); k >= 0 {
		t.infs[k].stopped = true
		t.infs = append(t.infs[:k:k], t.infs[k+1:]...)
	}
	return nil
}

func (t *zzInformers) ActiveInformers() []schema.GroupVersionKind {
	out := make([]schema.GroupVersionKind, 0, len(t.infs))
	for _, i := range t.infs {
		out = append(out, i.gvk)
	}
	return out
}

// live is the number of event handlers registered with the active informer
// of gvk.
func (t *zzInformers) live(gvk schema.GroupVersionKind) int {
	if k := t.find(gvk); k >= 0 {
		return len(t.infs[k].regs)
	}
	return 0
}

// ---- harness -----------------------------------------------------------

var zzKinds = []string{"ComposedA", "ComposedB", "XR"}

func zzObj(kind string) *unstructured.Unstructured {
	u := &unstructured.Unstructured{}
	u.SetGroupVersionKind(schema.GroupVersionKind{Group: "example.org", Version: "v1", Kind: kind})
	return u
}

func zzWatches() []Watch {
	return []Watch{
		WatchFor(zzObj("ComposedA"), WatchTypeComposedResource, nil),
		WatchFor(zzObj("ComposedB"), WatchTypeComposedResource, nil),
		WatchFor(zzObj("XR"), WatchTypeCompositeResource, nil),
		WatchFor(zzObj("XR"), WatchTypeComposedResource, nil), // an XR composing XRs: two watch types, one kind
	}
}

func zzID(w Watch) WatchID {
	return WatchID{Type: w.wt, GVK: w.kind.GetObjectKind().GroupVersionKind()}
}

// HarnessC13EngineSteps: one engine call from an arbitrary reachable state
// (controller started or not; any subset of four watches started; any
// subset of their informers since removed), for every call of the engine's
// API, with the controller's Watch possibly failing.
//
//gosym:harness seqgo locks
//gosym:cover running stopped lost-informer restarted watch-failed stopwatches same-watch-twice
func HarnessC13EngineSteps() {
	infs := &zzInformers{}
	elected := make(chan struct{})
	close(elected)
	mgr := &zzMgr{elected: elected}
	e := New(mgr, infs, nil, nil)
	ctrl := &zzCtrl{started: make(chan context.Context, 4)}
	newCtrl := WithNewControllerFn(func(string, manager.Manager, kcontroller.Options) (kcontroller.Controller, error) { return ctrl, nil })
	const name = "composite/xrs.example.org"
	all := zzWatches()

	// --- reach a state through the API
	started := zz.Bool("pre.started")
	var ctx context.Context
	recorded := map[WatchID]bool{}
	if started {
		zz.Assert("start-no-error", e.Start(name, newCtrl) == nil)
		ctx = <-ctrl.started // the engine starts the controller in a goroutine
		zz.Assert("controller-started-with-a-context", ctx != nil)
		var ws []Watch
		for k, w := range all {
			if zz.Bool("pre.watch" + string(rune('0'+k))) {
				ws = append(ws, w)
				recorded[zzID(w)] = true
			}
		}
		if len(ws) > 0 {
			zz.Assert("pre-startwatches-no-error", e.StartWatches(name, ws...) == nil)
		}
		// informers may be removed behind the engine's back (CRD deleted)
		for k, kind := range zzKinds {
			if zz.Bool("pre.informerRemoved" + string(rune('0'+k))) {
				if infs.find(zzObj(kind).GroupVersionKind()) >= 0 {
					zz.Cover("lost-informer")
				}
				_ = infs.RemoveInformer(context.Background(), zzObj(kind))
			}
		}
	}
	zz.Assert("isrunning-iff-started", e.IsRunning(name) == started)

	// --- the step under test
	switch zz.Choose("op", 5) {
	case 0: // Start (idempotent)
		err := e.Start(name, newCtrl)
		zz.Assert("start-no-error", err == nil)
		zz.Assert("running-after-start", e.IsRunning(name))
		zz.Cover("running")
		if started {
			// starting a running controller must not reset its watches
			got, gerr := e.GetWatches(name)
			zz.Assert("getwatches-no-error", gerr == nil)
			zz.Assert("restart-keeps-watches", len(got) == len(recorded))
		}
	case 1: // Stop
		err := e.Stop(context.Background(), name)
		zz.Assert("stop-no-error", err == nil)
		zz.Assert("not-running-after-stop", !e.IsRunning(name))
		zz.Cover("stopped")
		if started {
			zz.Assert("stop-cancels-the-controller", ctx.Err() != nil)
			for _, kind := range zzKinds {
				zz.Assert("stop-removes-all-event-handlers", infs.live(zzObj(kind).GroupVersionKind()) == 0)
			}
			_, gerr := e.GetWatches(name)
			zz.Assert("no-watches-after-stop", gerr != nil)
		}
	case 2: // StartWatches
		var ws []Watch
		for k, w := range all {
			if zz.Bool("op.watch" + string(rune('0'+k))) {
				ws = append(ws, w)
			}
		}
		if len(ws) > 0 && zz.Bool("op.firstWatchTwice") {
			// a caller asks for one watch per composed resource: two resources
			// of one kind name the same watch twice
			ws = append(ws, ws[0])
			zz.Cover("same-watch-twice")
		}
		ctrl.failNext = zz.Bool("op.watchFails")
		before := ctrl.watches
		err := e.StartWatches(name, ws...)
		if !started {
			zz.Assert("startwatches-needs-a-running-controller", err != nil)
			return
		}
		got, _ := e.GetWatches(name)
		has := func(id WatchID) bool {
			for _, g := range got {
				if g == id {
					return true
				}
			}
			return false
		}
		if err != nil {
			zz.Cover("watch-failed")
			// a failed Watch leaves no source recorded that was not there before
			for _, w := range ws {
				if !recorded[zzID(w)] && has(zzID(w)) {
					// it may have been started before the failing one: then it must be live
					zz.Assert("recorded-watch-is-live", infs.live(zzID(w).GVK) >= 1)
				}
			}
			return
		}
		for _, w := range ws {
			id := zzID(w)
			zz.Assert("requested-watch-recorded", has(id))
			// a watch lost with its informer is re-established by the next start request
			zz.Assert("requested-watch-is-live", infs.live(id.GVK) >= 1)
		}
		// at most one live watch per controller, watch type and kind
		for _, kind := range zzKinds {
			gvk := zzObj(kind).GroupVersionKind()
			types := 0
			for _, g := range got {
				if g.GVK == gvk {
					types++
				}
			}
			zz.Assert("at-most-one-live-watch-per-type-and-kind", infs.live(gvk) <= types)
		}
		if ctrl.watches > before {
			zz.Cover("restarted")
		}
	case 3: // StopWatches
		var ids []WatchID
		want := 0
		for k, w := range all {
			if zz.Bool("op.stop" + string(rune('0'+k))) {
				ids = append(ids, zzID(w))
				if recorded[zzID(w)] {
					want++
				}
			}
		}
		n, err := e.StopWatches(context.Background(), name, ids...)
		if !started {
			zz.Assert("stopwatches-needs-a-running-controller", err != nil)
			return
		}
		zz.Cover("stopwatches")
		zz.Assert("stopwatches-no-error", err == nil)
		zz.Assert("stopwatches-counts-recorded-watches", n == want)
		got, _ := e.GetWatches(name)
		for _, g := range got {
			for _, id := range ids {
				zz.Assert("stopped-watch-not-reported", g != id)
			}
		}
		zz.Assert("stopwatches-removes-only-requested", len(got) == len(recorded)-want)
	case 4: // GetWatches / IsRunning
		got, err := e.GetWatches(name)
		zz.Assert("getwatches-error-iff-not-running", (err != nil) == !started)
		if started {
			zz.Assert("getwatches-reports-recorded-watches", len(got) == len(recorded))
			for _, g := range got {
				zz.Assert("getwatches-reports-only-recorded", recorded[g])
			}
		}
	}
	zz.Observe("live", infs.live(zzObj("ComposedA").GroupVersionKind()), infs.live(zzObj("XR").GroupVersionKind()))
}

// HarnessC13StopRetry: event-handler removals may fail. A Stop or StopWatches
// that reports success has really removed the handlers it reports stopped,
// also when it is the retry of a call that failed half-way; a controller
// restarted afterwards has one live handler per recorded watch, never two.
//
//gosym:harness seqgo locks
//gosym:cover removal-failed retried restarted-clean stopwatches-retried
func HarnessC13StopRetry() {
	infs := &zzInformers{}
	elected := make(chan struct{})
	close(elected)
	e := New(&zzMgr{elected: elected}, infs, nil, nil)
	ctrl := &zzCtrl{started: make(chan context.Context, 8)}
	newCtrl := WithNewControllerFn(func(string, manager.Manager, kcontroller.Options) (kcontroller.Controller, error) { return ctrl, nil })
	const name = "composite/xrs.example.org"
	all := zzWatches()

	zz.Assert("start-no-error", e.Start(name, newCtrl) == nil)
	ctx := <-ctrl.started
	var ws []Watch
	for k, w := range all {
		if zz.Bool("watch" + string(rune('0'+k))) {
			ws = append(ws, w)
		}
	}
	if len(ws) > 0 {
		zz.Assert("startwatches-no-error", e.StartWatches(name, ws...) == nil)
	}
	liveOK := func(label string) {
		got, _ := e.GetWatches(name)
		for _, kind := range zzKinds {
			gvk := zzObj(kind).GroupVersionKind()
			types := 0
			for _, g := range got {
				if g.GVK == gvk {
					types++
				}
			}
			zz.Assert(label, infs.live(gvk) <= types)
		}
	}

	infs.failRemovals = zz.Choose("failingRemovals", 3)
	if zz.Bool("viaStopWatches") {
		// stop every watch through StopWatches, retrying on error
		var ids []WatchID
		for _, w := range ws {
			ids = append(ids, zzID(w))
		}
		failed := false
		for try := 0; try < 3; try++ {
			_, err := e.StopWatches(context.Background(), name, ids...)
			if err != nil {
				failed = true
				zz.Cover("removal-failed")
				continue
			}
			if failed {
				zz.Cover("stopwatches-retried")
			}
			got, _ := e.GetWatches(name)
			zz.Assert("successful-stopwatches-leaves-none-of-them-recorded", len(got) == 0)
			for _, kind := range zzKinds {
				zz.Assert("successful-stopwatches-removed-the-event-handlers", infs.live(zzObj(kind).GroupVersionKind()) == 0)
			}
			break
		}
		return
	}
	failed := false
	stopped := false
	for try := 0; try < 3; try++ {
		if err := e.Stop(context.Background(), name); err != nil {
			failed = true
			zz.Cover("removal-failed")
			// until a stop succeeds the engine's report and the controller
			// agree: what is reported running has not been cancelled
			zz.Assert("controller-reported-running-after-a-failed-stop-is-not-cancelled", !e.IsRunning(name) || ctx.Err() == nil)
			continue
		}
		stopped = true
		if failed {
			zz.Cover("retried")
		}
		zz.Assert("successful-stop-cancelled-the-controller", ctx.Err() != nil)
		zz.Assert("not-running-after-successful-stop", !e.IsRunning(name))
		for _, kind := range zzKinds {
			zz.Assert("successful-stop-removed-all-event-handlers", infs.live(zzObj(kind).GroupVersionKind()) == 0)
		}
		break
	}
	if !stopped {
		return
	}
	// the XRD reconciler starts the controller again (e.g. the XRD is re-created)
	zz.Assert("restart-no-error", e.Start(name, newCtrl) == nil)
	<-ctrl.started
	if len(ws) > 0 {
		zz.Assert("restart-watches-no-error", e.StartWatches(name, ws...) == nil)
	}
	zz.Cover("restarted-clean")
	liveOK("at-most-one-live-watch-per-type-and-kind-after-restart")
}

// HarnessC13PartialStart: one StartWatches call for several new watches of
// which the n-th fails to start (its kind's CRD is not there yet, say); the
// call is then retried. The watches the failed call did start are live: the
// retry does not start them a second time, and a Stop removes every event
// handler.
//
//gosym:harness seqgo locks
//gosym:cover start-failed-part-way stopped
func HarnessC13PartialStart() {
	infs := &zzInformers{}
	elected := make(chan struct{})
	close(elected)
	e := New(&zzMgr{elected: elected}, infs, nil, nil)
	ctrl := &zzCtrl{started: make(chan context.Context, 8)}
	newCtrl := WithNewControllerFn(func(string, manager.Manager, kcontroller.Options) (kcontroller.Controller, error) { return ctrl, nil })
	const name = "composite/xrs.example.org"
	all := zzWatches()
	zz.Assert("start-no-error", e.Start(name, newCtrl) == nil)
	<-ctrl.started

	var ws []Watch
	for k, w := range all {
		if zz.Bool("watch" + string(rune('0'+k))) {
			ws = append(ws, w)
		}
	}
	zz.Assume(len(ws) >= 2)
	ctrl.failIn = 1 + zz.Choose("failing.watch", len(all))
	zz.Assume(ctrl.failIn <= len(ws))
	err := e.StartWatches(name, ws...)
	zz.Assert("startwatches-reports-the-failure", err != nil)
	zz.Cover("start-failed-part-way")
	ctrl.failIn = 0
	liveOK := func(label string) {
		got, _ := e.GetWatches(name)
		for _, kind := range zzKinds {
			gvk := zzObj(kind).GroupVersionKind()
			types := 0
			for _, g := range got {
				if g.GVK == gvk {
					types++
				}
			}
			zz.Assert(label, infs.live(gvk) <= types)
		}
	}
	liveOK("no-live-watch-the-engine-does-not-know-after-a-failed-start")
	for k := 0; k < 2; k++ {
		zz.Assert("retry-no-error", e.StartWatches(name, ws...) == nil)
		liveOK("at-most-one-live-watch-per-type-and-kind-after-the-retry")
	}
	zz.Assert("stop-no-error", e.Stop(context.Background(), name) == nil)
	zz.Cover("stopped")
	for _, kind := range zzKinds {
		zz.Assert("stop-removes-all-event-handlers", infs.live(zzObj(kind).GroupVersionKind()) == 0)
	}
}
