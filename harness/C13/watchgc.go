//go:build verif

//gosym:package github.com/crossplane/crossplane/internal/controller/apiextensions/composite/watch
//gosym:file zz_c13_watchgc_verif.go

package watch

import (
	"context"

	kunstructured "k8s.io/apimachinery/pkg/apis/meta/v1/unstructured"
	"k8s.io/apimachinery/pkg/runtime/schema"
	"sigs.k8s.io/controller-runtime/pkg/client"

	"github.com/crossplane/crossplane-runtime/pkg/resource"

	"github.com/crossplane/crossplane/internal/engine"
	zz "github.com/crossplane/crossplane/internal/zzverif"
)

// zzEngine is the environment: a controller engine with a given set of
// running watches and a cache holding the controller's XRs. It records what
// the collector asks it to stop.
type zzEngine struct {
	running []engine.WatchID
	xrs     []kunstructured.Unstructured
	stopped []engine.WatchID
}

func (e *zzEngine) GetWatches(_ string) ([]engine.WatchID, error) { return e.running, nil }

func (e *zzEngine) StopWatches(_ context.Context, _ string, ws ...engine.WatchID) (int, error) {
	e.stopped = append(e.stopped, ws...)
	return len(ws), nil
}

func (e *zzEngine) GetCached() client.Client   { return &zzLister{e: e} }
func (e *zzEngine) GetUncached() client.Client { return &zzLister{e: e} }

type zzLister struct {
	client.Client
	e *zzEngine
}

func (l *zzLister) List(_ context.Context, list client.ObjectList, _ ...client.ListOption) error {
	list.(*kunstructured.UnstructuredList).Items = l.e.xrs
	return nil
}

const zzNameClass = "a-z0-9.-"

var zzWatchTypes = []engine.WatchType{
	engine.WatchTypeComposedResource,
	engine.WatchTypeCompositeResource,
	engine.WatchTypeCompositionRevision,
	engine.WatchTypeClaim,
}

// HarnessC13WatchGC: for every set of running watches and every set of XRs
// with resource references (within the bound), GarbageCollectWatchesNow
// stops exactly the composed-resource watches whose kind no XR references,
// and never the watch on XRs, composition revisions or claims.
//
//gosym:harness
//gosym:cover stopped-something kept-composed non-composed-running
func HarnessC13WatchGC() {
	nRunning := zz.Bound(2, 3)
	nXR := zz.Bound(2, 2)
	nRef := zz.Bound(2, 2)

	e := &zzEngine{}
	for i := 0; i < nRunning; i++ {
		n := "w" + string(rune('0'+i))
		wt := zzWatchTypes[zz.Choose(n+".type", len(zzWatchTypes))]
		id := engine.WatchID{Type: wt, GVK: schema.GroupVersionKind{
			Group:   zz.StrNo(n+".group", "/"),
			Version: zz.StrNo(n+".version", "/"),
			Kind:    zz.StrNo(n+".kind", "/"),
		}}
		// the engine reports each running watch once
		for _, o := range e.running {
			zz.Assume(o != id)
		}
		e.running = append(e.running, id)
	}

	type ref struct{ group, version, kind string }
	var refs []ref
	for x := 0; x < nXR; x++ {
		xr := kunstructured.Unstructured{Object: map[string]any{}}
		xr.SetAPIVersion("example.org/v1")
		xr.SetKind("XR")
		xr.SetName("xr" + string(rune('0'+x)))
		maxRefs := nRef
		if x == 0 {
			maxRefs = zz.Bound(1, 2) // quick tier: the first XR has at most one reference
		}
		n := zz.Choose("xr"+string(rune('0'+x))+".refs", maxRefs+1)
		rs := make([]any, 0, n)
		for r := 0; r < n; r++ {
			nm := "xr" + string(rune('0'+x)) + ".ref" + string(rune('0'+r))
			rf := ref{
				group:   zz.StrNo(nm+".group", "/"),
				version: zz.StrNo(nm+".version", "/"),
				kind:    zz.StrNo(nm+".kind", "/"),
			}
			zz.Assume(rf.version != "")
			apiVersion := rf.group + "/" + rf.version
			if zz.Bool(nm + ".core") {
				rf.group = ""
				apiVersion = rf.version
			} else {
				zz.Assume(rf.group != "")
			}
			refs = append(refs, rf)
			rs = append(rs, map[string]any{"apiVersion": apiVersion, "kind": rf.kind, "name": "r"})
		}
		xr.Object["spec"] = map[string]any{"resourceRefs": rs}
		e.xrs = append(e.xrs, xr)
	}

	gc := NewGarbageCollector("ctrl", resource.CompositeKind(schema.GroupVersionKind{Group: "example.org", Version: "v1", Kind: "XR"}), e)
	err := gc.GarbageCollectWatchesNow(context.Background())
	zz.Assert("gc-no-error", err == nil)

	for i, w := range e.running {
		referenced := false
		for _, r := range refs {
			referenced = zz.Or(referenced, zz.And(r.group == w.GVK.Group, r.version == w.GVK.Version, r.kind == w.GVK.Kind))
		}
		stopped := false
		for _, s := range e.stopped {
			stopped = zz.Or(stopped, s == w)
		}
		composed := w.Type == engine.WatchTypeComposedResource
		lbl := string(rune('0' + i))
		if !composed {
			zz.Cover("non-composed-running")
			// never stop the XR, composition revision or claim watch
			zz.Assert("non-composed-watch-never-stopped", zz.Not(stopped))
			_ = lbl
			continue
		}
		// a composed-resource watch is stopped iff no XR references its kind
		zz.Assert("referenced-composed-watch-kept", zz.Implies(referenced, zz.Not(stopped)))
		zz.Assert("unreferenced-composed-watch-stopped", zz.Implies(zz.Not(referenced), stopped))
		if len(e.stopped) > 0 {
			zz.Cover("stopped-something")
		}
		if len(e.stopped) < len(e.running) {
			zz.Cover("kept-composed")
		}
	}
	// nothing is stopped that was not running
	for _, s := range e.stopped {
		was := false
		for _, w := range e.running {
			was = zz.Or(was, s == w)
		}
		zz.Assert("stopped-was-running", was)
	}
	zz.Observe("stopped", len(e.stopped))
}
