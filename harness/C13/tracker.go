//go:build verif

//gosym:package github.com/crossplane/crossplane/internal/engine
//gosym:file zz_c13_tracker_verif.go

package engine

import (
	"context"

	"k8s.io/apimachinery/pkg/runtime"
	"k8s.io/apimachinery/pkg/runtime/schema"
	"sigs.k8s.io/controller-runtime/pkg/cache"
	"sigs.k8s.io/controller-runtime/pkg/client"
	kcontroller "sigs.k8s.io/controller-runtime/pkg/controller"
	"sigs.k8s.io/controller-runtime/pkg/manager"

	zz "github.com/crossplane/crossplane/internal/zzverif"
)

// zzCache is the cache the real InformerTrackingCache wraps. Every call into
// it is a scheduling point: the harness may let a second actor run there.
type zzCache struct {
	cache.Cache
	infs  *zzInformers
	point func()
}

func (c *zzCache) GetInformer(ctx context.Context, obj client.Object, opts ...cache.InformerGetOption) (cache.Informer, error) {
	if c.point != nil {
		c.point()
	}
	return c.infs.GetInformer(ctx, obj, opts...)
}

func (c *zzCache) RemoveInformer(ctx context.Context, obj client.Object) error {
	return c.infs.RemoveInformer(ctx, obj)
}

// Get and List start an informer for the kind on demand, as the
// controller-runtime cache does.
func (c *zzCache) Get(ctx context.Context, _ client.ObjectKey, obj client.Object, _ ...client.GetOption) error {
	if c.point != nil {
		c.point()
	}
	_, err := c.infs.GetInformer(ctx, obj)
	return err
}

// HarnessC13Tracker: the real InformerTrackingCache under the real engine,
// with a second actor (the informer garbage collector after a CRD deletion)
// calling RemoveInformer for the kind being watched while a StartWatches (or
// a cached Get) for that kind is inside the wrapped cache: the harness asks
// the tracker's lock (TryLock on the tracked mutex state) whether the second
// actor could enter at that point; if so it runs there, otherwise it runs as
// soon as the call has returned. Either way the tracker reports every
// informer the wrapped cache runs as active, the next start request leaves
// exactly one live handler per watch, a stop removes them all, and nothing
// locks a mutex it already holds.
//
//gosym:harness seqgo locks panics
//gosym:cover remover-blocked-until-return remover-ran-after start-after-removal stopped cached-read-after-removal
func HarnessC13Tracker() {
	under := &zzInformers{}
	c := &zzCache{infs: under}
	tr := TrackInformers(c, runtime.NewScheme())
	elected := make(chan struct{})
	close(elected)
	e := New(&zzMgr{elected: elected}, tr, nil, nil)
	ctrl := &zzCtrl{started: make(chan context.Context, 4)}
	newCtrl := WithNewControllerFn(func(string, manager.Manager, kcontroller.Options) (kcontroller.Controller, error) { return ctrl, nil })
	const name = "composite/xrs.example.org"
	zz.Assert("start-no-error", e.Start(name, newCtrl) == nil)
	<-ctrl.started

	all := zzWatches()
	w := all[zz.Choose("watch", len(all))]
	gvk := zzID(w).GVK
	if zz.Bool("pre.watchStarted") {
		// the informer exists and is tracked already
		zz.Assert("pre-startwatches-no-error", e.StartWatches(name, w) == nil)
	}
	if zz.Bool("pre.otherWatchOfKind") {
		// a second watch type on the XR kind
		_ = e.StartWatches(name, all[2], all[3])
	}

	active := func(g schema.GroupVersionKind) bool {
		for _, a := range tr.ActiveInformers() {
			if a == g {
				return true
			}
		}
		return false
	}
	consistent := func() {
		for _, kind := range zzKinds {
			g := zzObj(kind).GroupVersionKind()
			if under.find(g) >= 0 {
				zz.Assert("running-informer-is-reported-active", active(g))
			}
		}
	}

	removing := zz.Bool("collector.removesInformer")
	ran := false
	c.point = func() {
		if !removing || ran {
			return
		}
		if tr.mx.TryLock() {
			// the collector can take the tracker's lock now: it runs here
			tr.mx.Unlock()
			ran = true
			zz.Cover("remover-entered-mid-call")
			_ = tr.RemoveInformer(context.Background(), zzObj(gvk.Kind))
		} else {
			zz.Cover("remover-blocked-until-return")
		}
	}
	viaGet := zz.Bool("op.cachedGet")
	if viaGet {
		_ = tr.Get(context.Background(), client.ObjectKey{Name: "x"}, zzObj(gvk.Kind))
	} else {
		_ = e.StartWatches(name, w)
	}
	c.point = nil
	if removing && !ran {
		ran = true
		zz.Cover("remover-ran-after")
		_ = tr.RemoveInformer(context.Background(), zzObj(gvk.Kind))
	}
	consistent()

	// before the next start request something may read the kind through the
	// cache - any reconciler's Get, the watch collector's List - which starts a
	// fresh informer for it (one that does not have the engine's handlers)
	if removing && zz.Bool("reader.getsAfterTheRemoval") {
		zz.Cover("cached-read-after-removal")
		_ = tr.Get(context.Background(), client.ObjectKey{Name: "x"}, zzObj(gvk.Kind))
		consistent()
	}

	// the next start request re-establishes what was lost, never doubles it
	zz.Cover("start-after-removal")
	zz.Assert("startwatches-no-error", e.StartWatches(name, w) == nil)
	consistent()
	got, _ := e.GetWatches(name)
	types := 0
	for _, g := range got {
		if g.GVK == gvk {
			types++
		}
	}
	zz.Assert("requested-watch-is-live", under.live(gvk) >= 1)
	zz.Assert("at-most-one-live-watch-per-type-and-kind", under.live(gvk) <= types)

	zz.Assert("stop-no-error", e.Stop(context.Background(), name) == nil)
	zz.Cover("stopped")
	for _, kind := range zzKinds {
		zz.Assert("stop-removes-all-event-handlers", under.live(zzObj(kind).GroupVersionKind()) == 0)
	}
	zz.Observe("end", removing, viaGet, under.live(gvk))
}
