//go:build verif

//gosym:package github.com/crossplane/crossplane/internal/initializer
//gosym:file zz_c20_migrator_verif.go

package initializer

import (
	"context"

	extv1 "k8s.io/apiextensions-apiserver/pkg/apis/apiextensions/v1"
	metav1 "k8s.io/apimachinery/pkg/apis/meta/v1"
	"k8s.io/apimachinery/pkg/apis/meta/v1/unstructured"

	zz "github.com/crossplane/crossplane/internal/zzverif"
	"github.com/crossplane/crossplane/internal/zzverif/kube"
)

// HarnessC20Migrator: the storage-version migration of a core CRD, run,
// possibly cut short by an API failure at any call, and run again. The old
// version leaves the CRD's stored versions only after every resource of the
// kind has been rewritten, so a repeated run finishes what an aborted one
// began; a further run changes nothing.
//
//gosym:harness
//gosym:cover migrated nothing-to-do fault-hit
func HarnessC20Migrator() {
	s := kube.New()
	s.Register(&extv1.CustomResourceDefinition{}, &extv1.CustomResourceDefinitionList{}, "apiextensions.k8s.io", "CustomResourceDefinition")
	const crdName = "things.example.org"
	crd := &extv1.CustomResourceDefinition{ObjectMeta: metav1.ObjectMeta{Name: crdName}}
	crd.Spec.Group = "example.org"
	crd.Spec.Names = extv1.CustomResourceDefinitionNames{Kind: "Thing", ListKind: "ThingList", Plural: "things"}
	crd.Spec.Versions = []extv1.CustomResourceDefinitionVersion{{Name: "v1alpha1", Served: true}, {Name: "v1", Served: true, Storage: true}}
	stored := zz.Choose("crd.storedVersions", 3) // old and new, new only, CRD absent
	switch stored {
	case 0:
		crd.Status.StoredVersions = []string{"v1alpha1", "v1"}
	case 1:
		crd.Status.StoredVersions = []string{"v1"}
	}
	if stored != 2 {
		s.Put(crd)
	}
	n := zz.Choose("resources", 3)
	for i := 0; i < n; i++ {
		u := &unstructured.Unstructured{Object: map[string]any{}}
		u.SetAPIVersion("example.org/v1")
		u.SetKind("Thing")
		u.SetName("t" + string(rune('0'+i)))
		s.Put(u)
	}
	rewritten := func() int {
		seen := map[string]bool{}
		for _, c := range s.Log {
			if c.Kind == "Thing" && c.Verb == kube.VerbPatch && !c.Err {
				seen[c.Name] = true
			}
		}
		return len(seen)
	}
	oldStored := func() bool {
		c := &extv1.CustomResourceDefinition{}
		if !s.Peek("", crdName, c) {
			return false
		}
		for _, v := range c.Status.StoredVersions {
			if v == "v1alpha1" {
				return true
			}
		}
		return false
	}
	s.OnMutate = func() {
		if stored == 0 && !oldStored() {
			zz.Assert("old-version-dropped-only-after-every-resource-was-rewritten", rewritten() == n)
		}
	}
	m := NewCoreCRDsMigrator(crdName, "v1alpha1")
	s.FaultAt = zz.Choose("fault.at", 8) - 1
	s.FaultKind = 1 + zz.Choose("fault.kind", 3)
	err := m.Run(context.Background(), s)
	if s.Faulted {
		zz.Cover("fault-hit")
	} else {
		zz.Assert("fault-free-run-no-error", err == nil)
	}
	s.FaultAt = -1
	err = m.Run(context.Background(), s)
	zz.Assert("repeated-run-no-error", err == nil)
	if stored == 0 {
		zz.Cover("migrated")
		zz.Assert("old-version-gone-after-a-complete-run", !oldStored())
		zz.Assert("every-resource-rewritten", rewritten() == n)
	} else {
		zz.Cover("nothing-to-do")
	}
	before := len(s.Writes(false))
	zz.Assert("third-run-no-error", m.Run(context.Background(), s) == nil)
	eff := 0
	for _, w := range s.Writes(false)[before:] {
		if w.Effect {
			eff++
		}
	}
	zz.Assert("further-run-changes-nothing", eff == 0)
}
