//go:build verif

//gosym:package github.com/crossplane/crossplane/internal/initializer
//gosym:file zz_c20_tls_verif.go

package initializer

import (
	"context"
	"crypto/x509"

	corev1 "k8s.io/api/core/v1"
	metav1 "k8s.io/apimachinery/pkg/apis/meta/v1"

	zz "github.com/crossplane/crossplane/internal/zzverif"
	"github.com/crossplane/crossplane/internal/zzverif/kube"
)

const (
	zzNS     = "crossplane-system"
	zzCA     = "crossplane-root-ca"
	zzServer = "crossplane-tls-server"
	zzClient = "crossplane-tls-client"
)

// zzCertGen is the certificate factory: it hands out the next fixture key
// pair and records who signed what.
type zzCertGen struct {
	next    int
	issued  []zzIssued
	caCount int
}

type zzIssued struct {
	certPEM   string
	signerPEM string // "" for a self-signed CA
	dnsNames  []string
}

func (g *zzCertGen) Generate(c *x509.Certificate, cs *CertificateSigner) ([]byte, []byte, error) {
	p := zzPEM[g.next%len(zzPEM)]
	g.next++
	is := zzIssued{certPEM: p[1], dnsNames: c.DNSNames}
	if cs != nil {
		is.signerPEM = string(cs.certificatePEM)
	} else {
		g.caCount++
	}
	g.issued = append(g.issued, is)
	return []byte(p[0]), []byte(p[1]), nil
}

// secret pre-states
const (
	zzSecAbsent  = iota
	zzSecEmpty   // exists without data (as pre-created by the Helm chart)
	zzSecFull    // complete material
	zzSecPartial // some keys only
	zzSecStates
)

func zzPutTLS(s *kube.Store, name string, state int, pair int, caPair int) {
	if state == zzSecAbsent {
		return
	}
	sec := &corev1.Secret{ObjectMeta: metav1.ObjectMeta{Namespace: zzNS, Name: name}}
	switch state {
	case zzSecFull:
		sec.Data = map[string][]byte{corev1.TLSPrivateKeyKey: []byte(zzPEM[pair][0]), corev1.TLSCertKey: []byte(zzPEM[pair][1])}
		if caPair >= 0 {
			sec.Data[SecretKeyCACert] = []byte(zzPEM[caPair][1])
		}
	case zzSecPartial:
		sec.Data = map[string][]byte{corev1.TLSCertKey: []byte(zzPEM[pair][1])}
	}
	s.Put(sec)
}

func zzData(s *kube.Store, name string) map[string][]byte {
	sec := &corev1.Secret{}
	if !s.Peek(zzNS, name, sec) {
		return nil
	}
	return sec.Data
}

// HarnessC20TLS: initialisation keeps an existing certificate authority and
// existing TLS certificates, issues missing certificates from the stored
// authority for the configured DNS names, and a second run (also after an
// API failure in the first) changes nothing.
//
//gosym:harness
//gosym:cover ca-kept ca-generated leaf-issued leaf-kept fault-hit create-raced
func HarnessC20TLS() {
	s := kube.New()
	s.Register(&corev1.Secret{}, &corev1.SecretList{}, "", "Secret")

	// fixture 4 is the pre-existing CA, fixture 3 pre-existing leaves
	caState := zz.Choose("ca.state", zzSecStates)
	zzPutTLS(s, zzCA, caState, 4, -1)
	srvState := zz.Choose("server.state", zzSecStates)
	zzPutTLS(s, zzServer, srvState, 3, 4)
	cliState := zz.Choose("client.state", zzSecStates)
	zzPutTLS(s, zzClient, cliState, 3, 4)
	caBefore := zzData(s, zzCA)
	srvBefore := zzData(s, zzServer)
	cliBefore := zzData(s, zzClient)

	gen := &zzCertGen{}
	mk := func() *TLSCertificateGenerator {
		g := NewTLSCertificateGenerator(zzNS, zzCA,
			TLSCertificateGeneratorWithServerSecretName(zzServer, []string{"crossplane-webhooks"}),
			TLSCertificateGeneratorWithClientSecretName(zzClient, []string{"crossplane"}))
		g.certificate = gen
		return g
	}

	// the first run may be hit by an API failure at any call; in particular a
	// Create may lose a race with another replica's init container
	s.FaultAt = zz.Choose("fault.at", 8) - 1
	s.FaultKind = 1 + zz.Choose("fault.kind", 2)
	raced := false
	if s.FaultAt < 0 && caState == zzSecAbsent && zz.Bool("ca.create.raced") {
		// another replica creates the CA secret between our Get and Create
		raced = true
		zz.Cover("create-raced")
		s.BeforeCreate = func(group, kind, ns, name string) {
			if name == zzCA && !s.Exists("", "Secret", zzNS, zzCA) {
				zzPutTLS(s, zzCA, zzSecFull, 4, -1)
			}
		}
	}
	err1 := mk().Run(context.Background(), s)
	if s.Faulted {
		zz.Cover("fault-hit")
	}
	s.FaultAt = -1
	s.BeforeCreate = nil
	if err1 != nil {
		// retry after the failure
		err := mk().Run(context.Background(), s)
		zz.Assert("retry-succeeds", err == nil)
		if err != nil {
			return
		}
	}

	ca := zzData(s, zzCA)
	zz.Assert("ca-secret-complete", len(ca[corev1.TLSCertKey]) != 0 && len(ca[corev1.TLSPrivateKeyKey]) != 0)
	if caState == zzSecFull {
		zz.Cover("ca-kept")
		zz.Assert("existing-ca-kept", string(ca[corev1.TLSCertKey]) == string(caBefore[corev1.TLSCertKey]) && string(ca[corev1.TLSPrivateKeyKey]) == string(caBefore[corev1.TLSPrivateKeyKey]))
	} else if !raced {
		zz.Cover("ca-generated")
	}
	for _, leaf := range []struct {
		name   string
		state  int
		before map[string][]byte
		dns    string
	}{{zzServer, srvState, srvBefore, "crossplane-webhooks"}, {zzClient, cliState, cliBefore, "crossplane"}} {
		d := zzData(s, leaf.name)
		if leaf.state == zzSecFull || leaf.state == zzSecPartial {
			zz.Cover("leaf-kept")
			same := len(d) == len(leaf.before)
			for k, v := range leaf.before {
				same = same && string(d[k]) == string(v)
			}
			zz.Assert("existing-certificate-left-untouched", same)
			continue
		}
		zz.Cover("leaf-issued")
		zz.Assert("issued-certificate-complete", len(d[corev1.TLSCertKey]) != 0 && len(d[corev1.TLSPrivateKeyKey]) != 0)
		// chains to the stored authority: the CA bundle next to the leaf and
		// the signer that issued it are the CA that is in the CA secret
		zz.Assert("issued-certificate-carries-stored-ca", string(d[SecretKeyCACert]) == string(ca[corev1.TLSCertKey]))
		signedByStored, dnsOK := false, false
		for _, is := range gen.issued {
			if is.certPEM == string(d[corev1.TLSCertKey]) {
				signedByStored = is.signerPEM == string(ca[corev1.TLSCertKey])
				dnsOK = len(is.dnsNames) == 1 && is.dnsNames[0] == leaf.dns
			}
		}
		zz.Assert("issued-certificate-signed-by-stored-ca", signedByStored)
		zz.Assert("issued-certificate-covers-dns-names", dnsOK)
	}

	// running initialisation again performs no write
	w := 0
	for _, c := range s.Writes(false) {
		if c.Effect {
			w++
		}
	}
	err := mk().Run(context.Background(), s)
	zz.Assert("rerun-no-error", err == nil)
	w2 := 0
	for _, c := range s.Writes(false) {
		if c.Effect {
			w2++
		}
	}
	zz.Assert("rerun-changes-nothing", w2 == w)
	zz.Observe("issued", len(gen.issued), gen.caCount)
}
