//go:build verif

//gosym:package github.com/crossplane/crossplane/internal/initializer
//gosym:file zz_c20_installer_verif.go

package initializer

import (
	"context"

	metav1 "k8s.io/apimachinery/pkg/apis/meta/v1"

	v1 "github.com/crossplane/crossplane/apis/pkg/v1"
	zz "github.com/crossplane/crossplane/internal/zzverif"
	"github.com/crossplane/crossplane/internal/zzverif/kube"
)

const zzPkgGroup = "pkg.crossplane.io"

// zzRef is an image reference with the parts that matter to "same
// repository" spelled out.
type zzRef struct {
	host, repo, tag string // host may be empty; tag includes its delimiter
}

func (r zzRef) String() string {
	if r.host == "" {
		return r.repo + r.tag
	}
	return r.host + "/" + r.repo + r.tag
}

var (
	zzHosts = []string{"", "xpkg.upbound.io", "registry.example.org:5000"}
	zzRepos = []string{"crossplane-contrib/provider-aws", "crossplane-contrib/provider-gcp", "acme/provider-aws"}
	zzTags  = []string{":v1.0.0", ":v1.1.0", "@sha256:ecc25c121431dfc7058754427f97c034ecde26d4aafa0da16d258090e0443904"}
)

func zzChooseRef(name string) zzRef {
	return zzRef{
		host: zzHosts[zz.Choose(name+".host", len(zzHosts))],
		repo: zzRepos[zz.Choose(name+".repo", len(zzRepos))],
		tag:  zzTags[zz.Choose(name+".tag", len(zzTags))],
	}
}

var zzPkgKind = "Provider"

func zzProviders(s *kube.Store) (names []string, sources []string) {
	s.Each(func(group, kind, _ string, name string, doc map[string]any) {
		if group == zzPkgGroup && kind == zzPkgKind {
			spec, _ := doc["spec"].(map[string]any)
			src, _ := spec["package"].(string)
			names = append(names, name)
			sources = append(sources, src)
		}
	})
	return
}

// HarnessC20Installer: a provider requested at install time whose image
// repository is already installed - under any object name, with or without a
// registry host, by tag or digest - is updated in place; otherwise exactly
// one object is created; running the installer again changes nothing.
//
//gosym:harness
//gosym:cover same-repo-installed different-repo custom-name configuration-or-function unparsable-source
func HarnessC20Installer() {
	s := kube.New()
	s.Register(&v1.Provider{}, &v1.ProviderList{}, zzPkgGroup, "Provider")
	s.Register(&v1.Configuration{}, &v1.ConfigurationList{}, zzPkgGroup, "Configuration")
	s.Register(&v1.Function{}, &v1.FunctionList{}, zzPkgGroup, "Function")

	// the kind of package requested (and installed already)
	pkgKind := zz.Choose("package.kind", 3)
	zzPkgKind = []string{"Provider", "Configuration", "Function"}[pkgKind]
	if pkgKind > 0 {
		zz.Cover("configuration-or-function")
	}
	newInstaller := func(img string) *PackageInstaller {
		switch pkgKind {
		case 1:
			return NewPackageInstaller(nil, []string{img}, nil)
		case 2:
			return NewPackageInstaller(nil, nil, []string{img})
		}
		return NewPackageInstaller([]string{img}, nil, nil)
	}
	req := zzChooseRef("req")

	maxExisting := zz.Bound(2, 3)
	if pkgKind > 0 {
		// configurations and functions share the code path: one existing package at most
		maxExisting = 2
	}
	nExisting := zz.Choose("existing", maxExisting)
	// a package installed from a source that is no valid image reference (a
	// preloaded package file, pull policy Never) may be listed before the others
	extra := 0
	// (thorough tier: next to one installed package only - with two the product exceeds the path budget)
	if nExisting > 0 && (zz.Tier() != "thorough" || nExisting == 1) && zz.Bool("preloaded.package.listed.first") {
		zz.Cover("unparsable-source")
		extra = 1
		switch pkgKind {
		case 0:
			p := &v1.Provider{ObjectMeta: metav1.ObjectMeta{Name: "a-preloaded"}}
			p.Spec.Package = "Preloaded_Base.xpkg"
			s.Put(p)
		case 1:
			p := &v1.Configuration{ObjectMeta: metav1.ObjectMeta{Name: "a-preloaded"}}
			p.Spec.Package = "Preloaded_Base.xpkg"
			s.Put(p)
		case 2:
			p := &v1.Function{ObjectMeta: metav1.ObjectMeta{Name: "a-preloaded"}}
			p.Spec.Package = "Preloaded_Base.xpkg"
			s.Put(p)
		}
	}
	type inst struct {
		name string
		ref  zzRef
	}
	var pre []inst
	for i := 0; i < nExisting; i++ {
		n := "pkg" + string(rune('0'+i))
		e := inst{ref: zzChooseRef(n)}
		// the object name is whatever the user picked when installing it
		e.name = []string{"crossplane-contrib-provider-aws", "my-custom-name", "other"}[zz.Choose(n+".name", 3)] + string(rune('0'+i))
		if e.name[:2] == "my" {
			zz.Cover("custom-name")
		}
		// installed packages come from distinct repositories
		for _, o := range pre {
			zz.Assume(!(o.ref.host == e.ref.host && o.ref.repo == e.ref.repo))
		}
		switch pkgKind {
		case 0:
			p := &v1.Provider{ObjectMeta: metav1.ObjectMeta{Name: e.name}}
			p.Spec.Package = e.ref.String()
			s.Put(p)
		case 1:
			p := &v1.Configuration{ObjectMeta: metav1.ObjectMeta{Name: e.name}}
			p.Spec.Package = e.ref.String()
			s.Put(p)
		case 2:
			p := &v1.Function{ObjectMeta: metav1.ObjectMeta{Name: e.name}}
			p.Spec.Package = e.ref.String()
			s.Put(p)
		}
		pre = append(pre, e)
	}

	pi := newInstaller(req.String())
	err := pi.Run(context.Background(), s)
	if err != nil {
		zz.Observe("err", err.Error())
	}
	zz.Assert("installer-no-error", err == nil)
	if err != nil {
		return
	}

	names, sources := zzProviders(s)
	same := -1
	for i, e := range pre {
		if e.ref.host == req.host && e.ref.repo == req.repo {
			same = i
		}
	}
	if same >= 0 {
		zz.Cover("same-repo-installed")
		zz.Assert("already-installed-repository-not-installed-twice", len(names) == len(pre)+extra)
		for i, n := range names {
			if n == pre[same].name {
				zz.Assert("already-installed-package-updated-in-place", sources[i] == req.String())
			}
		}
	} else {
		zz.Cover("different-repo")
		zz.Assert("new-repository-installed-once", len(names) == len(pre)+extra+1)
	}
	// other packages are left alone
	if extra == 1 {
		for i, n := range names {
			if n == "a-preloaded" {
				zz.Assert("other-packages-untouched", sources[i] == "Preloaded_Base.xpkg")
			}
		}
	}
	for _, e := range pre {
		if same >= 0 && e.name == pre[same].name {
			continue
		}
		for i, n := range names {
			if n == e.name {
				zz.Assert("other-packages-untouched", sources[i] == e.ref.String())
			}
		}
	}

	// idempotence: a second run performs no effective write
	before := 0
	for _, c := range s.Writes(false) {
		if c.Effect {
			before++
		}
	}
	err = newInstaller(req.String()).Run(context.Background(), s)
	zz.Assert("second-run-no-error", err == nil)
	after := 0
	for _, c := range s.Writes(false) {
		if c.Effect {
			after++
		}
	}
	zz.Assert("second-run-changes-nothing", after == before)
	zz.Observe("providers", len(names))
}
