//go:build verif

//gosym:package github.com/crossplane/crossplane/internal/initializer
//gosym:file zz_c20_cabundle_verif.go

package initializer

import (
	"context"

	"github.com/spf13/afero"
	admv1 "k8s.io/api/admissionregistration/v1"
	corev1 "k8s.io/api/core/v1"
	extv1 "k8s.io/apiextensions-apiserver/pkg/apis/apiextensions/v1"
	metav1 "k8s.io/apimachinery/pkg/apis/meta/v1"
	"k8s.io/apimachinery/pkg/runtime"
	"k8s.io/apimachinery/pkg/types"
	"k8s.io/utils/ptr"

	zz "github.com/crossplane/crossplane/internal/zzverif"
	"github.com/crossplane/crossplane/internal/zzverif/kube"
)

const zzCurrentCA = "CURRENT-CA"

// zzScheme is the scheme cmd/crossplane/core/init.go hands to the steps, as
// far as the kinds in the manifest directories go.
func zzScheme() *runtime.Scheme {
	s := runtime.NewScheme()
	_ = extv1.AddToScheme(s)
	_ = admv1.AddToScheme(s)
	return s
}

// manifests of a CRD with webhook conversion: how much of the conversion
// section the manifest itself spells out
var zzConversion = []string{
	"",
	"  conversion:\n    strategy: None\n",
	"  conversion:\n    strategy: Webhook\n",
	"  conversion:\n    strategy: Webhook\n    webhook:\n      conversionReviewVersions: [v1]\n",
	"  conversion:\n    strategy: Webhook\n    webhook:\n      conversionReviewVersions: [v1]\n      clientConfig:\n        service:\n          name: crossplane-webhooks\n          namespace: crossplane-system\n          path: /convert\n",
	"  conversion:\n    strategy: Webhook\n    webhook:\n      conversionReviewVersions: [v1]\n      clientConfig:\n        caBundle: T0xELUNB\n        service:\n          name: crossplane-webhooks\n          namespace: crossplane-system\n          path: /convert\n",
}

func zzCRDManifest(name string, conversion int) string {
	return "apiVersion: apiextensions.k8s.io/v1\nkind: CustomResourceDefinition\nmetadata:\n  name: " + name + ".example.org\nspec:\n  group: example.org\n  names:\n    kind: K" + name + "\n    plural: " + name + "\n  scope: Cluster\n" + zzConversion[conversion] +
		"  versions:\n  - name: v1\n    served: true\n    storage: true\n    schema:\n      openAPIV3Schema:\n        type: object\n"
}

func zzTLSSecret(s *kube.Store, state int) {
	switch state {
	case 1:
		s.Put(&corev1.Secret{ObjectMeta: metav1.ObjectMeta{Namespace: zzNS, Name: zzServer}})
	case 2:
		s.Put(&corev1.Secret{ObjectMeta: metav1.ObjectMeta{Namespace: zzNS, Name: zzServer}, Data: map[string][]byte{"tls.crt": []byte(zzCurrentCA), "tls.key": []byte("k")}})
	}
}

// HarnessC20CRDs: after the core CRD step has run without error, every CRD of
// the manifest directory that converts through a webhook carries the current
// CA bundle in the API server - whether the CRD is new, already installed
// with an older bundle, or spells out its webhook client config itself - and a
// second run changes nothing.
//
//gosym:harness
//gosym:cover webhook-crd plain-crd existing-crd-updated no-tls-secret second-run-noop
func HarnessC20CRDs() {
	s := kube.New()
	s.Register(&corev1.Secret{}, &corev1.SecretList{}, "", "Secret")
	s.Register(&extv1.CustomResourceDefinition{}, &extv1.CustomResourceDefinitionList{}, "apiextensions.k8s.io", "CustomResourceDefinition")

	fs := afero.NewMemMapFs()
	const n = 2
	conv := make([]int, n)
	names := []string{"alphas", "betas"}
	for i := 0; i < n; i++ {
		conv[i] = zz.Choose("crd"+string(rune('0'+i))+".conversion", len(zzConversion))
		_ = afero.WriteFile(fs, "/crds/"+names[i]+".yaml", []byte(zzCRDManifest(names[i], conv[i])), 0o644)
	}
	_ = afero.WriteFile(fs, "/crds/README.md", []byte("not yaml"), 0o644)

	// cluster: the TLS secret absent / empty / filled; the first CRD possibly
	// installed by an earlier run under an older CA
	secret := zz.Choose("tls.secret", 3)
	zzTLSSecret(s, secret)
	existing := zz.Bool("crd0.installed")
	if existing {
		old := &extv1.CustomResourceDefinition{ObjectMeta: metav1.ObjectMeta{Name: names[0] + ".example.org"}}
		old.Spec.Group = "example.org"
		old.Spec.Names = extv1.CustomResourceDefinitionNames{Kind: "Kalphas", Plural: "alphas"}
		old.Spec.Scope = extv1.ClusterScoped
		if conv[0] >= 2 {
			old.Spec.Conversion = &extv1.CustomResourceConversion{Strategy: extv1.WebhookConverter, Webhook: &extv1.WebhookConversion{
				ConversionReviewVersions: []string{"v1"},
				ClientConfig:             &extv1.WebhookClientConfig{CABundle: []byte("OLD-CA"), Service: &extv1.ServiceReference{Name: "crossplane-webhooks", Namespace: zzNS, Path: ptr.To("/convert")}}}}
		}
		s.Put(old)
	}
	withTLS := zz.Bool("webhooks.enabled")
	var opts []CoreCRDsOption
	opts = append(opts, WithFs(fs))
	if withTLS {
		opts = append(opts, WithWebhookTLSSecretRef(types.NamespacedName{Namespace: zzNS, Name: zzServer}))
	}
	step := NewCoreCRDs("/crds", zzScheme(), opts...)
	err := step.Run(context.Background(), s)

	needsCA := false
	for i := 0; i < n; i++ {
		if conv[i] >= 2 {
			needsCA = true
		}
	}
	if withTLS && secret != 2 {
		zz.Cover("no-tls-secret")
		zz.Assert("missing-tls-certificate-is-an-error", err != nil)
	}
	if needsCA && !(withTLS && secret == 2) {
		zz.Assert("webhook-crd-without-ca-is-an-error", err != nil)
	}
	if err != nil {
		return
	}
	for i := 0; i < n; i++ {
		got := &extv1.CustomResourceDefinition{}
		zz.Assert("crd-installed", s.Peek("", names[i]+".example.org", got))
		if conv[i] >= 2 {
			zz.Cover("webhook-crd")
			ok := got.Spec.Conversion != nil && got.Spec.Conversion.Webhook != nil && got.Spec.Conversion.Webhook.ClientConfig != nil &&
				string(got.Spec.Conversion.Webhook.ClientConfig.CABundle) == zzCurrentCA
			zz.Assert("webhook-crd-carries-the-current-ca-bundle", ok)
			if i == 0 && existing {
				zz.Cover("existing-crd-updated")
			}
		} else {
			zz.Cover("plain-crd")
		}
	}
	before := 0
	for _, w := range s.Writes(false) {
		if w.Effect {
			before++
		}
	}
	err2 := step.Run(context.Background(), s)
	zz.Assert("second-run-no-error", err2 == nil)
	after := 0
	for _, w := range s.Writes(false) {
		if w.Effect {
			after++
		}
	}
	zz.Cover("second-run-noop")
	zz.Assert("second-run-changes-nothing", after == before)
}

func zzWebhookManifest(kind, name string, hooks int) string {
	m := "apiVersion: admissionregistration.k8s.io/v1\nkind: " + kind + "\nmetadata:\n  name: " + name + "\nwebhooks:\n"
	for i := 0; i < hooks; i++ {
		m += "- name: hook" + string(rune('0'+i)) + ".example.org\n  admissionReviewVersions: [v1]\n  sideEffects: None\n  clientConfig:\n    service:\n      name: webhook-service\n      namespace: system\n      path: /validate\n"
	}
	return m
}

// HarnessC20Webhooks: after the webhook configuration step has run without
// error every webhook of every configuration in the API server carries the
// current CA bundle and points at the configured service, also when the
// configuration already existed with an older bundle; a second run changes
// nothing.
//
//gosym:harness
//gosym:cover validating mutating existing-updated no-tls-secret second-run-noop
func HarnessC20Webhooks() {
	s := kube.New()
	s.Register(&corev1.Secret{}, &corev1.SecretList{}, "", "Secret")
	s.Register(&admv1.ValidatingWebhookConfiguration{}, &admv1.ValidatingWebhookConfigurationList{}, "admissionregistration.k8s.io", "ValidatingWebhookConfiguration")
	s.Register(&admv1.MutatingWebhookConfiguration{}, &admv1.MutatingWebhookConfigurationList{}, "admissionregistration.k8s.io", "MutatingWebhookConfiguration")

	fs := afero.NewMemMapFs()
	vHooks := zz.Choose("validating.webhooks", 3)
	mHooks := zz.Choose("mutating.webhooks", 3)
	hasMutating := zz.Bool("mutating.present")
	vName := []string{"validating-webhook-configuration", "crossplane-no-usages"}[zz.Choose("validating.name", 2)]
	_ = afero.WriteFile(fs, "/webhookconfigurations/v.yaml", []byte(zzWebhookManifest("ValidatingWebhookConfiguration", vName, vHooks)), 0o644)
	if hasMutating {
		_ = afero.WriteFile(fs, "/webhookconfigurations/m.yaml", []byte(zzWebhookManifest("MutatingWebhookConfiguration", "mutating-webhook-configuration", mHooks)), 0o644)
	}
	secret := zz.Choose("tls.secret", 3)
	zzTLSSecret(s, secret)
	wantVName := vName
	if vName == "validating-webhook-configuration" {
		wantVName = "crossplane"
	}
	existing := zz.Bool("validating.installed")
	if existing {
		// installed by an earlier run under an older CA: pointing at another
		// service, or at the very service this run configures (only the
		// bundle is stale - the certificate was re-issued since)
		oldSvc := admv1.ServiceReference{Name: "old", Namespace: "old", Path: ptr.To("/validate")}
		if zz.Bool("validating.installed.same-service") {
			oldSvc = admv1.ServiceReference{Name: "crossplane-webhooks", Namespace: zzNS, Path: ptr.To("/validate"), Port: ptr.To[int32](9443)}
		}
		old := &admv1.ValidatingWebhookConfiguration{ObjectMeta: metav1.ObjectMeta{Name: wantVName}}
		for i := 0; i < vHooks; i++ {
			svcCopy := oldSvc
			old.Webhooks = append(old.Webhooks, admv1.ValidatingWebhook{Name: "hook" + string(rune('0'+i)) + ".example.org", AdmissionReviewVersions: []string{"v1"}, SideEffects: ptr.To(admv1.SideEffectClassNone),
				ClientConfig: admv1.WebhookClientConfig{CABundle: []byte("OLD-CA"), Service: &svcCopy}})
		}
		s.Put(old)
	}

	svc := admv1.ServiceReference{Name: "crossplane-webhooks", Namespace: zzNS, Port: ptr.To[int32](9443)}
	step := NewWebhookConfigurations("/webhookconfigurations", zzScheme(), types.NamespacedName{Namespace: zzNS, Name: zzServer}, svc, WithWebhookConfigurationsFs(fs))
	err := step.Run(context.Background(), s)
	if secret != 2 {
		zz.Cover("no-tls-secret")
		zz.Assert("missing-tls-certificate-is-an-error", err != nil)
	}
	if err != nil {
		return
	}
	okHook := func(cc admv1.WebhookClientConfig) bool {
		return string(cc.CABundle) == zzCurrentCA && cc.Service != nil && cc.Service.Name == svc.Name && cc.Service.Namespace == svc.Namespace && cc.Service.Port != nil && *cc.Service.Port == 9443
	}
	v := &admv1.ValidatingWebhookConfiguration{}
	zz.Assert("validating-configuration-installed", s.Peek("", wantVName, v))
	zz.Cover("validating")
	zz.Assert("validating-configuration-has-its-webhooks", len(v.Webhooks) == vHooks)
	for _, h := range v.Webhooks {
		zz.Assert("validating-webhook-carries-current-ca-and-service", okHook(h.ClientConfig))
	}
	if existing {
		zz.Cover("existing-updated")
	}
	if hasMutating {
		m := &admv1.MutatingWebhookConfiguration{}
		zz.Assert("mutating-configuration-installed", s.Peek("", "crossplane", m))
		zz.Cover("mutating")
		zz.Assert("mutating-configuration-has-its-webhooks", len(m.Webhooks) == mHooks)
		for _, h := range m.Webhooks {
			zz.Assert("mutating-webhook-carries-current-ca-and-service", okHook(h.ClientConfig))
		}
	}
	before := 0
	for _, w := range s.Writes(false) {
		if w.Effect {
			before++
		}
	}
	zz.Assert("second-run-no-error", step.Run(context.Background(), s) == nil)
	after := 0
	for _, w := range s.Writes(false) {
		if w.Effect {
			after++
		}
	}
	zz.Cover("second-run-noop")
	zz.Assert("second-run-changes-nothing", after == before)
}
