//go:build verif

//gosym:package github.com/crossplane/crossplane/internal/initializer
//gosym:file zz_c20_defaults_verif.go

package initializer

import (
	"context"
	"reflect"

	metav1 "k8s.io/apimachinery/pkg/apis/meta/v1"
	"k8s.io/apimachinery/pkg/runtime"
	"k8s.io/utils/ptr"

	xpv1 "github.com/crossplane/crossplane-runtime/apis/common/v1"

	"github.com/crossplane/crossplane/apis/pkg/v1beta1"
	scv1alpha1 "github.com/crossplane/crossplane/apis/secrets/v1alpha1"
	zz "github.com/crossplane/crossplane/internal/zzverif"
	"github.com/crossplane/crossplane/internal/zzverif/kube"
)

// HarnessC20Defaults: the default-object steps (Lock, default StoreConfig,
// default DeploymentRuntimeConfig) create what is missing and leave an
// object that already exists - with whatever content its user gave it -
// exactly as it was; an aborted run followed by a full run ends in the same
// state, and a further run changes nothing.
//
//gosym:harness
//gosym:cover created existing-untouched fault-hit second-run-noop
func HarnessC20Defaults() {
	s := kube.New()
	s.Register(&v1beta1.Lock{}, &v1beta1.LockList{}, "pkg.crossplane.io", "Lock")
	s.Register(&scv1alpha1.StoreConfig{}, &scv1alpha1.StoreConfigList{}, "secrets.crossplane.io", "StoreConfig")
	s.Register(&v1beta1.DeploymentRuntimeConfig{}, &v1beta1.DeploymentRuntimeConfigList{}, "pkg.crossplane.io", "DeploymentRuntimeConfig")

	hasLock, hasSC, hasDRC := zz.Bool("lock.exists"), zz.Bool("storeconfig.exists"), zz.Bool("runtimeconfig.exists")
	if hasLock {
		l := &v1beta1.Lock{ObjectMeta: metav1.ObjectMeta{Name: "lock", Finalizers: []string{"lock.pkg.crossplane.io"}}}
		l.Packages = []v1beta1.LockPackage{{Name: "provider-x-rev", Type: ptr.To(v1beta1.ProviderPackageType), Source: "xpkg.example.org/org/provider-x", Version: "v1.0.0"}}
		s.Put(l)
	}
	if hasSC {
		sc := &scv1alpha1.StoreConfig{ObjectMeta: metav1.ObjectMeta{Name: "default", Labels: map[string]string{"edited": "by-user"}}}
		sc.Spec.SecretStoreConfig = xpv1.SecretStoreConfig{DefaultScope: "somewhere-else"}
		s.Put(sc)
	}
	if hasDRC {
		rc := &v1beta1.DeploymentRuntimeConfig{ObjectMeta: metav1.ObjectMeta{Name: "default", Labels: map[string]string{"edited": "by-user"}}}
		rc.Spec.ServiceAccountTemplate = &v1beta1.ServiceAccountTemplate{Metadata: &v1beta1.ObjectMeta{Name: ptr.To("custom-sa")}}
		s.Put(rc)
	}
	snap := func() [3]map[string]any {
		return [3]map[string]any{
			runtime.DeepCopyJSON(s.Doc("pkg.crossplane.io", "Lock", "", "lock")),
			runtime.DeepCopyJSON(s.Doc("secrets.crossplane.io", "StoreConfig", "", "default")),
			runtime.DeepCopyJSON(s.Doc("pkg.crossplane.io", "DeploymentRuntimeConfig", "", "default")),
		}
	}
	before := snap()

	steps := []Step{NewLockObject(), NewStoreConfigObject(zzNS), StepFunc(DefaultDeploymentRuntimeConfig)}
	runAll := func() error {
		for _, st := range steps {
			if err := st.Run(context.Background(), s); err != nil {
				return err
			}
		}
		return nil
	}
	s.FaultAt = zz.Choose("fault.at", 6) - 1
	s.FaultKind = 1 + zz.Choose("fault.kind", 2)
	err := runAll()
	if s.Faulted {
		zz.Cover("fault-hit")
	}
	_ = err
	s.FaultAt = -1
	zz.Assert("full-run-no-error", runAll() == nil)

	after := snap()
	for k, had := range []bool{hasLock, hasSC, hasDRC} {
		if had {
			zz.Cover("existing-untouched")
			zz.Assert("existing-default-object-left-untouched", reflect.DeepEqual(before[k], after[k]))
		} else {
			zz.Cover("created")
			zz.Assert("missing-default-object-created", after[k] != nil)
		}
	}
	sc := &scv1alpha1.StoreConfig{}
	if !hasSC && s.Peek("", "default", sc) {
		zz.Assert("default-store-config-scoped-to-the-crossplane-namespace", sc.Spec.DefaultScope == zzNS)
	}
	writes := 0
	for _, w := range s.Writes(false) {
		if w.Effect {
			writes++
		}
	}
	zz.Assert("third-run-no-error", runAll() == nil)
	again := 0
	for _, w := range s.Writes(false) {
		if w.Effect {
			again++
		}
	}
	zz.Cover("second-run-noop")
	zz.Assert("further-run-changes-nothing", again == writes)
}
