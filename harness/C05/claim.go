//go:build verif

//gosym:package github.com/crossplane/crossplane/internal/controller/apiextensions/claim
//gosym:file zz_c05_claim_verif.go

package claim

import (
	"context"

	"k8s.io/apimachinery/pkg/runtime"
	"k8s.io/apimachinery/pkg/types"
	"sigs.k8s.io/controller-runtime/pkg/client"
	"sigs.k8s.io/controller-runtime/pkg/reconcile"

	xpv1 "github.com/crossplane/crossplane-runtime/apis/common/v1"
	"github.com/crossplane/crossplane-runtime/pkg/resource"
	"github.com/crossplane/crossplane-runtime/pkg/resource/unstructured/claim"
	"github.com/crossplane/crossplane-runtime/pkg/resource/unstructured/composite"

	"github.com/crossplane/crossplane/internal/names"
	zz "github.com/crossplane/crossplane/internal/zzverif"
	"github.com/crossplane/crossplane/internal/zzverif/kube"
)

// zzLagXR is a client whose reads of the XR come from a cache that still
// holds a copy of an object the API server has deleted.
type zzLagXR struct {
	*kube.Store
	cached map[string]any
}

func (c *zzLagXR) Get(ctx context.Context, key client.ObjectKey, obj client.Object, opts ...client.GetOption) error {
	if c.cached != nil && obj.GetObjectKind().GroupVersionKind().Kind == "XR" {
		obj.(runtime.Unstructured).SetUnstructuredContent(runtime.DeepCopyJSON(c.cached))
		return nil
	}
	return c.Store.Get(ctx, key, obj, opts...)
}

// HarnessC05Claim: a claim is reported Ready=True only by a reconcile that
// observed its bound XR Ready=True.
//
//gosym:harness
//gosym:cover claim-ready claim-waiting xr-gone-behind-the-cache
func HarnessC05Claim() {
	s := kube.New()
	cm := claim.New(claim.WithGroupVersionKind(zzClaimGVK))
	cm.SetName("cm")
	cm.SetNamespace("team")
	cm.SetUID("uid-claim")
	cm.Object["spec"] = map[string]any{"param": "v", "resourceRef": map[string]any{"apiVersion": "example.org/v1", "kind": "XR", "name": "xr-1"}}
	// the claim may carry a stale Ready=True from an earlier reconcile
	if zz.Bool("claim.wasReady") {
		cm.SetConditions(xpv1.Available())
	}
	s.Put(cm)

	xr := composite.New(composite.WithGroupVersionKind(zzXRGVK))
	xr.SetName("xr-1")
	xr.SetUID("uid-xr")
	xr.Object["spec"] = map[string]any{"param": "v", "claimRef": map[string]any{"apiVersion": "example.org/v1", "kind": "Claim", "name": "cm", "namespace": "team"}}
	xrReady := zz.Choose("xr.ready", 4) // no condition, True, False, Unknown
	switch xrReady {
	case 1:
		xr.SetConditions(xpv1.Available())
	case 2:
		xr.SetConditions(xpv1.Creating())
	case 3:
		c := xpv1.Available()
		c.Status = "Unknown"
		xr.SetConditions(c)
	}
	// a custom condition the XR wants shown on the claim, possibly named like a system one
	ctype := zz.Str("xr.claimConditionType")
	zz.Assume(ctype != "")
	// (system condition types cannot be claim condition types: the XR's own
	// Ready condition is the xr.ready input above)
	zz.Assume(ctype != "Ready")
	zz.Assume(ctype != "Synced")
	zz.Assume(ctype != "Healthy")
	if zz.Bool("xr.hasClaimCondition") {
		xr.SetConditions(xpv1.Condition{Type: xpv1.ConditionType(ctype), Status: "True", Reason: "FromXR"})
		_ = xr.SetClaimConditionTypes(xpv1.ConditionType(ctype))
	}
	s.Put(xr)

	// the XR may have been deleted since the cache last saw it: the
	// reconciler reads the cached copy, the API server no longer has the object
	c := &zzLagXR{Store: s}
	gone := zz.Bool("xr.deletedBehindTheCache")
	if gone {
		zz.Cover("xr-gone-behind-the-cache")
		c.cached = runtime.DeepCopyJSON(s.Doc("example.org", "XR", "", "xr-1"))
		del := composite.New(composite.WithGroupVersionKind(zzXRGVK))
		del.SetName("xr-1")
		_ = s.Delete(context.Background(), del)
	}

	opts := []ReconcilerOption{}
	if zz.Bool("syncer.ssa") {
		opts = append(opts, WithCompositeSyncer(NewServerSideCompositeSyncer(c, names.NewNameGenerator(c))))
	}
	r := NewReconciler(c, resource.CompositeClaimKind(zzClaimGVK), resource.CompositeKind(zzXRGVK), opts...)
	_, err := r.Reconcile(context.Background(), reconcile.Request{NamespacedName: types.NamespacedName{Namespace: "team", Name: "cm"}})
	if !gone {
		zz.Assert("claim-reconcile-no-error", err == nil)
	}
	if err != nil {
		return
	}

	after := claim.New(claim.WithGroupVersionKind(zzClaimGVK))
	s.Peek("team", "cm", after)
	ready := after.GetCondition(xpv1.TypeReady)
	if gone && after.GetCondition(xpv1.TypeSynced).Status != "True" {
		// the reconcile failed before it judged readiness (recorded as a
		// ReconcileError): whatever Ready shows was reported earlier
		return
	}
	if ready.Status == "True" {
		zz.Cover("claim-ready")
		zz.Assert("claim-ready-only-if-bound-xr-observed-ready", xrReady == 1)
		// what the reconcile observed is what the API server answered its
		// write with, not what the cache showed before it
		wrote := false
		for _, w := range s.Writes(false) {
			if w.Kind == "XR" && w.Effect && w.Verb != kube.VerbDelete {
				wrote = true
			}
		}
		if wrote {
			now := composite.New(composite.WithGroupVersionKind(zzXRGVK))
			zz.Assert("claim-ready-only-if-the-xr-it-wrote-is-ready", s.Peek("", "xr-1", now) && now.GetCondition(xpv1.TypeReady).Status == "True")
		}
	} else {
		zz.Cover("claim-waiting")
	}
	zz.Observe("claim", string(ready.Status))
}
