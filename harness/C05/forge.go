//go:build verif

//gosym:package github.com/crossplane/crossplane/internal/controller/apiextensions/composite
//gosym:file zz_c05_forge_verif.go

package composite

import (
	"context"

	corev1 "k8s.io/api/core/v1"
	kerrors "k8s.io/apimachinery/pkg/api/errors"
	"k8s.io/apimachinery/pkg/runtime/schema"
	"k8s.io/apimachinery/pkg/types"
	"sigs.k8s.io/controller-runtime/pkg/reconcile"

	xpv1 "github.com/crossplane/crossplane-runtime/apis/common/v1"
	"github.com/crossplane/crossplane-runtime/pkg/reconciler/managed"
	"github.com/crossplane/crossplane-runtime/pkg/resource"

	fnv1 "github.com/crossplane/crossplane/apis/apiextensions/fn/proto/v1"
	v1 "github.com/crossplane/crossplane/apis/apiextensions/v1"
	zz "github.com/crossplane/crossplane/internal/zzverif"
	"github.com/crossplane/crossplane/internal/zzverif/kube"
)

var zzErrPublish = errString("publishing failed")

type zzFailingPublisher struct{ err error }

func (p zzFailingPublisher) PublishConnection(context.Context, resource.ConnectionSecretOwner, managed.ConnectionDetails) (bool, error) {
	return false, p.err
}

func (p zzFailingPublisher) UnpublishConnection(context.Context, resource.ConnectionSecretOwner, managed.ConnectionDetails) error {
	return nil
}

// HarnessC05StatusForge: the other way a function's output reaches the XR's
// conditions - the status of the desired composite, which the composer
// server-side applies. A condition of a symbolic type written there must
// not become the XR's Ready or Synced, whatever happens after the
// composer returned: the reconcile finishing, the connection publisher failing
// (error or conflict), or the final status update failing or not being reached
// (a fault at any call of the reconcile).
//
//gosym:harness
//gosym:cover forged-ready forged-synced custom publish-error publish-conflict faulted completed
func HarnessC05StatusForge() {
	s := kube.New()
	s.Put(zzNewXRObject())

	st := zzStep{desired: []bool{true, false}, ready: make([]fnv1.Ready, 2)}
	st.ready[0] = []fnv1.Ready{fnv1.Ready_READY_UNSPECIFIED, fnv1.Ready_READY_TRUE, fnv1.Ready_READY_FALSE}[zz.Choose("res0.ready", 3)]
	st.xrReady = []fnv1.Ready{fnv1.Ready_READY_UNSPECIFIED, fnv1.Ready_READY_TRUE, fnv1.Ready_READY_FALSE}[zz.Choose("xr.ready", 3)]
	ct := zz.Str("status.condition.type")
	st.xrStatus = map[string]any{
		"field": "from-function",
		// ... and marks that condition type as one the claim is to show
		"claimConditionTypes": []any{ct},
		"conditions": []any{map[string]any{
			"type": ct, "status": "True", "reason": "FromFunctionStatus", "lastTransitionTime": "2024-01-01T00:00:00Z",
		}},
	}
	runner := &zzRunner{steps: []zzStep{st}}

	opts := []ReconcilerOption{
		WithCompositionSelector(CompositionSelectorFn(func(context.Context, resource.Composite) error { return nil })),
		WithCompositionRevisionFetcher(CompositionRevisionFetcherFn(func(context.Context, resource.Composite) (*v1.CompositionRevision, error) {
			return zzRevision(1), nil
		})),
		WithCompositionRevisionValidator(CompositionRevisionValidatorFn(func(*v1.CompositionRevision) error { return nil })),
		WithConfigurator(ConfiguratorFn(func(context.Context, resource.Composite, *v1.CompositionRevision) error { return nil })),
		WithComposer(NewFunctionComposer(s, s, runner)),
	}
	after := zz.Choose("after.compose", 4) // completes, publish error, publish conflict, a fault at some call
	switch after {
	case 1:
		zz.Cover("publish-error")
		opts = append(opts, WithConnectionPublishers(zzFailingPublisher{err: zzErrPublish}))
	case 2:
		zz.Cover("publish-conflict")
		opts = append(opts, WithConnectionPublishers(zzFailingPublisher{err: kerrors.NewConflict(schema.GroupResource{Resource: "secrets"}, "s", zzErrPublish)}))
	case 3:
		zz.Cover("faulted")
		s.FaultAt = zz.Choose("fault.at", 10)
		s.FaultKind = []int{kube.FaultErrNoEffect, kube.FaultErrEffect, kube.FaultConflict}[zz.Choose("fault.kind", 3)]
	default:
		zz.Cover("completed")
	}
	r := NewReconciler(s, s, resource.CompositeKind(zzXRGVK), opts...)
	_, _ = r.Reconcile(context.Background(), reconcile.Request{NamespacedName: types.NamespacedName{Name: zzXRName}})

	ready := zzStoredCondition(s, xpv1.TypeReady)
	synced := zzStoredCondition(s, xpv1.TypeSynced)
	switch ct {
	case string(xpv1.TypeReady):
		zz.Cover("forged-ready")
	case string(xpv1.TypeSynced):
		zz.Cover("forged-synced")
	default:
		zz.Cover("custom")
	}
	zz.Assert("function-cannot-set-ready-through-the-desired-status", ready.Reason != "FromFunctionStatus")
	zz.Assert("function-cannot-set-synced-through-the-desired-status", synced.Reason != "FromFunctionStatus")
	if ready.Status == corev1.ConditionTrue {
		zz.Assert("ready-only-if-marked-ready-or-all-resources-ready",
			st.xrReady == fnv1.Ready_READY_TRUE || (st.xrReady != fnv1.Ready_READY_FALSE && st.ready[0] == fnv1.Ready_READY_TRUE))
	}
	for _, t := range zzReadXR(s).GetClaimConditionTypes() {
		zz.Assert("function-cannot-mark-a-system-condition-for-the-claim-through-the-desired-status", !xpv1.IsSystemConditionType(t))
	}
	// what the function may write through the desired status still arrives
	if after == 0 {
		stored := zzReadXR(s)
		status, _ := stored.Object["status"].(map[string]any)
		zz.Assert("desired-status-field-is-applied", status["field"] == any("from-function"))
		if !xpv1.IsSystemConditionType(xpv1.ConditionType(ct)) {
			zz.Assert("custom-condition-in-the-desired-status-is-applied", zzStoredCondition(s, xpv1.ConditionType(ct)).Reason == "FromFunctionStatus")
		}
	}
	zz.Observe("forge", string(ready.Status), string(synced.Status), string(ready.Reason))
}

// HarnessC05TwoSteps: a pipeline of two steps, each of which marks the XR
// ready, unready or not at all in the desired state it returns. What counts is
// the pipeline's final desired state - the last step's: the XR is reported
// Ready=True only if that marks it ready, or does not mark it unready and the
// composed resource is ready. What an earlier step said does not stick.
//
//gosym:harness
//gosym:cover ready-true ready-false earlier-step-said-ready
func HarnessC05TwoSteps() {
	s := kube.New()
	s.Put(zzNewXRObject())
	readies := []fnv1.Ready{fnv1.Ready_READY_UNSPECIFIED, fnv1.Ready_READY_TRUE, fnv1.Ready_READY_FALSE}
	res := readies[zz.Choose("res0.ready", 3)]
	st0 := zzStep{desired: []bool{true, false}, ready: []fnv1.Ready{res, res}, xrReady: readies[zz.Choose("step0.xr.ready", 3)]}
	st1 := zzStep{desired: []bool{true, false}, ready: []fnv1.Ready{res, res}, xrReady: readies[zz.Choose("step1.xr.ready", 3)]}
	runner := &zzRunner{steps: []zzStep{st0, st1}}
	r := NewReconciler(s, s, resource.CompositeKind(zzXRGVK),
		WithCompositionSelector(CompositionSelectorFn(func(context.Context, resource.Composite) error { return nil })),
		WithCompositionRevisionFetcher(CompositionRevisionFetcherFn(func(context.Context, resource.Composite) (*v1.CompositionRevision, error) {
			return zzRevision(2), nil
		})),
		WithCompositionRevisionValidator(CompositionRevisionValidatorFn(func(*v1.CompositionRevision) error { return nil })),
		WithConfigurator(ConfiguratorFn(func(context.Context, resource.Composite, *v1.CompositionRevision) error { return nil })),
		WithComposer(NewFunctionComposer(s, s, runner)),
	)
	_, err := r.Reconcile(context.Background(), reconcile.Request{NamespacedName: types.NamespacedName{Name: zzXRName}})
	zz.Assert("reconcile-no-error", err == nil)
	ready := zzStoredCondition(s, xpv1.TypeReady)
	if st0.xrReady == fnv1.Ready_READY_TRUE && st1.xrReady != fnv1.Ready_READY_TRUE {
		zz.Cover("earlier-step-said-ready")
	}
	if ready.Status == corev1.ConditionTrue {
		zz.Cover("ready-true")
		zz.Assert("ready-only-if-the-final-desired-state-says-so-or-all-resources-ready",
			st1.xrReady == fnv1.Ready_READY_TRUE || (st1.xrReady != fnv1.Ready_READY_FALSE && res == fnv1.Ready_READY_TRUE))
	} else {
		zz.Cover("ready-false")
	}
}
