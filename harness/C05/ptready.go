//go:build verif

//gosym:package github.com/crossplane/crossplane/internal/controller/apiextensions/composite
//gosym:file zz_c05_ptready_verif.go

package composite

import (
	"context"

	corev1 "k8s.io/api/core/v1"
	"sigs.k8s.io/controller-runtime/pkg/client"

	xpv1 "github.com/crossplane/crossplane-runtime/apis/common/v1"

	v1 "github.com/crossplane/crossplane/apis/apiextensions/v1"
	zz "github.com/crossplane/crossplane/internal/zzverif"
	"github.com/crossplane/crossplane/internal/zzverif/kube"
)

var zzStatuses = []corev1.ConditionStatus{corev1.ConditionTrue, corev1.ConditionFalse, corev1.ConditionUnknown}

// HarnessC05PTReady: the patch-and-transform composer reports a composed
// resource ready only if every readiness check of its template holds on the
// resource as the API server returned it, and synced only if it was rendered
// and applied; a resource that failed to render or was rejected as invalid is
// neither.
//
//gosym:harness
//gosym:cover ready not-ready default-check invalid-apply render-failure two-checks field-absent
func HarnessC05PTReady() {
	s := kube.New()

	// the observed state of the first composed resource: arbitrary
	cd := zzComposedObject(zzXRName+"-olda", zzResNames[0], zzOwnOurs, "")
	status := map[string]any{}
	hasState, hasCount, hasOK := zz.Bool("status.state.present"), zz.Bool("status.count.present"), zz.Bool("status.ok.present")
	state, count, ok := zz.Str("status.state"), zz.Int64("status.count"), zz.Bool("status.ok")
	if hasState {
		status["state"] = state
	}
	if hasCount {
		status["count"] = count
	}
	if hasOK {
		status["ok"] = ok
	}
	condStatus := map[xpv1.ConditionType]int{} // 0 absent, 1.. index into zzStatuses
	var conds []any
	for _, t := range []xpv1.ConditionType{xpv1.TypeReady, "Healthy"} {
		opts := 4
		if t != xpv1.TypeReady {
			opts = zz.Bound(2, 4)
		}
		k := zz.Choose("condition."+string(t), opts)
		condStatus[t] = k
		if k > 0 {
			conds = append(conds, map[string]any{"type": string(t), "status": string(zzStatuses[k-1]), "reason": "r", "lastTransitionTime": "2024-01-01T00:00:00Z"})
		}
	}
	if len(conds) > 0 {
		status["conditions"] = conds
	}
	cd.Object["status"] = status
	s.Put(cd)

	// the second desired resource: fine and ready, rejected as invalid by
	// the API server, or not renderable
	second := zz.Choose("second", 4) // absent, ready, invalid, render failure
	if second > 0 {
		o := zzComposedObject(zzXRName+"-oldb", zzResNames[1], zzOwnOurs, "")
		o.Object["status"] = map[string]any{"conditions": []any{map[string]any{"type": "Ready", "status": "True", "reason": "r", "lastTransitionTime": "2024-01-01T00:00:00Z"}}}
		s.Put(o)
	}
	xr := zzNewXRObject()
	refs := []any{map[string]any{"apiVersion": "example.org/v1", "kind": zzCDKind, "name": zzXRName + "-olda"}}
	if second > 0 {
		refs = append(refs, map[string]any{"apiVersion": "example.org/v1", "kind": zzCDKind, "name": zzXRName + "-oldb"})
	}
	xr.Object["spec"] = map[string]any{"resourceRefs": refs}
	s.Put(xr)

	// readiness checks of the first template, and the reference meaning of each
	nChecks := zz.Choose("checks", 3)
	var checks []v1.ReadinessCheck
	want := true
	for i := 0; i < nChecks; i++ {
		nm := "check" + string(rune('0'+i))
		kind := 0
		if i == 0 || zz.Tier() == "thorough" {
			kind = zz.Choose(nm+".type", 7)
		} else {
			kind = []int{2, 4, 6}[zz.Choose(nm+".type", 3)]
		}
		switch kind {
		case 0:
			checks = append(checks, v1.ReadinessCheck{Type: v1.ReadinessCheckTypeNone})
		case 1:
			checks = append(checks, v1.ReadinessCheck{Type: v1.ReadinessCheckTypeNonEmpty, FieldPath: "status.state"})
			want = zz.And(want, hasState)
		case 2:
			m := zz.Str(nm + ".matchString")
			zz.Assume(m != "")
			checks = append(checks, v1.ReadinessCheck{Type: v1.ReadinessCheckTypeMatchString, FieldPath: "status.state", MatchString: m})
			want = zz.And(want, zz.And(hasState, state == m))
		case 3:
			m := zz.Int64(nm + ".matchInteger")
			zz.Assume(m != 0)
			checks = append(checks, v1.ReadinessCheck{Type: v1.ReadinessCheckTypeMatchInteger, FieldPath: "status.count", MatchInteger: m})
			want = zz.And(want, zz.And(hasCount, count == m))
		case 4:
			checks = append(checks, v1.ReadinessCheck{Type: v1.ReadinessCheckTypeMatchTrue, FieldPath: "status.ok"})
			want = zz.And(want, zz.And(hasOK, ok))
		case 5:
			checks = append(checks, v1.ReadinessCheck{Type: v1.ReadinessCheckTypeMatchFalse, FieldPath: "status.ok"})
			want = zz.And(want, zz.And(hasOK, zz.Not(ok)))
		case 6:
			t := []xpv1.ConditionType{xpv1.TypeReady, "Healthy"}[zz.Choose(nm+".condition.type", 2)]
			st := zz.Choose(nm+".condition.status", 3)
			checks = append(checks, v1.ReadinessCheck{Type: v1.ReadinessCheckTypeMatchCondition, MatchCondition: &v1.MatchConditionReadinessCheck{Type: t, Status: zzStatuses[st]}})
			// an absent condition reads as Unknown
			have := condStatus[t] - 1
			if have < 0 {
				have = 2
			}
			want = zz.And(want, have == st)
		}
	}
	if nChecks == 0 {
		// no checks at all: ready means the Ready condition is True
		zz.Cover("default-check")
		want = condStatus[xpv1.TypeReady] == 1
	}
	if nChecks == 2 {
		zz.Cover("two-checks")
	}
	if !hasState || !hasCount || !hasOK {
		zz.Cover("field-absent")
	}

	rev := zzPTRevision([]bool{true, second > 0}, func(i int) []v1.Patch {
		if i == 1 && second == 3 {
			policy := v1.FromFieldPathPolicyRequired
			return []v1.Patch{{Type: v1.PatchTypeFromCompositeFieldPath, FromFieldPath: ptrTo("spec.missing"), ToFieldPath: ptrTo("spec.field"), Policy: &v1.PatchPolicy{FromFieldPath: &policy}}}
		}
		return nil
	})
	rev.Spec.Resources[0].ReadinessChecks = checks
	if second == 2 {
		s.RejectObject = func(obj client.Object) bool { return obj.GetName() == zzXRName+"-oldb" }
	}

	c := NewPTComposer(s, s)
	res, err := c.Compose(context.Background(), zzReadXR(s), CompositionRequest{Revision: rev})
	zz.Assert("compose-no-error", err == nil)
	if err != nil {
		return
	}
	n := 1
	if second > 0 {
		n = 2
	}
	zz.Assert("one-result-per-desired-resource", len(res.Composed) == n)
	if len(res.Composed) != n {
		return
	}
	first := res.Composed[0]
	zz.Assert("result-names-the-template", first.ResourceName == ResourceName(zzResNames[0]))
	zz.Assert("applied-resource-is-synced", first.Synced)
	if first.Ready {
		zz.Cover("ready")
		zz.Assert("ready-only-if-every-readiness-check-holds", want)
	} else {
		zz.Cover("not-ready")
		zz.Note("not-ready-only-if-some-check-fails", zz.Not(want))
	}
	if second > 0 {
		sec := res.Composed[1]
		switch second {
		case 1:
			zz.Assert("ready-resource-reported-ready-and-synced", sec.Ready && sec.Synced)
		case 2:
			zz.Cover("invalid-apply")
			zz.Assert("rejected-resource-neither-ready-nor-synced", !sec.Ready && !sec.Synced)
		case 3:
			zz.Cover("render-failure")
			zz.Assert("unrendered-resource-neither-ready-nor-synced", !sec.Ready && !sec.Synced)
		}
	}
	zz.Observe("first", first.Ready, first.Synced)
}

func ptrTo(s string) *string { return &s }
