//go:build verif

//gosym:package github.com/crossplane/crossplane/internal/controller/apiextensions/composite
//gosym:file zz_c05_ready_verif.go

package composite

import (
	"context"

	corev1 "k8s.io/api/core/v1"
	"k8s.io/apimachinery/pkg/types"
	"sigs.k8s.io/controller-runtime/pkg/client"
	"sigs.k8s.io/controller-runtime/pkg/reconcile"

	xpv1 "github.com/crossplane/crossplane-runtime/apis/common/v1"
	"github.com/crossplane/crossplane-runtime/pkg/resource"
	"github.com/crossplane/crossplane-runtime/pkg/resource/unstructured/composite"

	fnv1 "github.com/crossplane/crossplane/apis/apiextensions/fn/proto/v1"
	v1 "github.com/crossplane/crossplane/apis/apiextensions/v1"
	zz "github.com/crossplane/crossplane/internal/zzverif"
	"github.com/crossplane/crossplane/internal/zzverif/kube"
)

func zzStoredCondition(s *kube.Store, t xpv1.ConditionType) xpv1.Condition {
	xr := composite.New(composite.WithGroupVersionKind(zzXRGVK))
	s.Peek("", zzXRName, xr)
	return xr.GetCondition(t)
}

// HarnessC05Pipeline: the whole XR reconcile with the real function composer
// behind it. Ready=True only if the pipeline marked the XR ready, or did not
// mark it unready and every desired resource is ready; Synced=True only if
// every desired resource was applied and nothing failed; function conditions
// cannot overwrite Ready / Synced; after a fatal result custom conditions
// not re-asserted become Unknown.
//
//gosym:harness
//gosym:cover ready-true ready-false synced-true synced-false forged-system-condition fatal custom-condition claim-condition
func HarnessC05Pipeline() {
	n := zz.Bound(2, 2)
	s := kube.New()

	// XR with a pre-existing custom condition
	xr := zzNewXRObject()
	xr.SetConditions(xpv1.Condition{Type: "Custom", Status: corev1.ConditionTrue, Reason: "Whatever"})
	s.Put(xr)

	st := zzStep{desired: make([]bool, n), ready: make([]fnv1.Ready, n)}
	rejected := make([]bool, n)
	for i := 0; i < n; i++ {
		nm := "res" + string(rune('0'+i))
		st.desired[i] = zz.Bool(nm + ".desired")
		st.ready[i] = []fnv1.Ready{fnv1.Ready_READY_UNSPECIFIED, fnv1.Ready_READY_TRUE, fnv1.Ready_READY_FALSE}[zz.Choose(nm+".ready", 3)]
		rejected[i] = zz.Bool(nm + ".rejected")
	}
	st.xrReady = []fnv1.Ready{fnv1.Ready_READY_UNSPECIFIED, fnv1.Ready_READY_TRUE, fnv1.Ready_READY_FALSE}[zz.Choose("xr.ready", 3)]
	st.fatal = zz.Bool("fatal")
	// a condition supplied by the function: any type, possibly a system one
	ct := zz.Str("cond.type")
	cs := []fnv1.Status{fnv1.Status_STATUS_CONDITION_TRUE, fnv1.Status_STATUS_CONDITION_FALSE, fnv1.Status_STATUS_CONDITION_UNKNOWN}[zz.Choose("cond.status", 3)]
	st.conds = []*fnv1.Condition{{Type: ct, Status: cs, Reason: "FromFunction"}}
	// ... aimed at the XR only (the default) or at the XR and its claim
	target := zz.Choose("cond.target", 3)
	switch target {
	case 1:
		st.conds[0].Target = fnv1.Target_TARGET_COMPOSITE.Enum()
	case 2:
		st.conds[0].Target = fnv1.Target_TARGET_COMPOSITE_AND_CLAIM.Enum()
	}
	runner := &zzRunner{steps: []zzStep{st}}

	// the API server rejects some composed resources as invalid
	s.RejectObject = func(obj client.Object) bool {
		for i := 0; i < n; i++ {
			if rejected[i] && obj.GetAnnotations()[AnnotationKeyCompositionResourceName] == zzResNames[i] {
				return true
			}
		}
		return false
	}

	rev := zzRevision(1)
	r := NewReconciler(s, s, resource.CompositeKind(zzXRGVK),
		WithCompositionSelector(CompositionSelectorFn(func(context.Context, resource.Composite) error { return nil })),
		WithCompositionRevisionFetcher(CompositionRevisionFetcherFn(func(context.Context, resource.Composite) (*v1.CompositionRevision, error) { return rev, nil })),
		WithCompositionRevisionValidator(CompositionRevisionValidatorFn(func(*v1.CompositionRevision) error { return nil })),
		WithConfigurator(ConfiguratorFn(func(context.Context, resource.Composite, *v1.CompositionRevision) error { return nil })),
		WithComposer(NewFunctionComposer(s, s, runner)),
	)
	_, err := r.Reconcile(context.Background(), reconcile.Request{NamespacedName: types.NamespacedName{Name: zzXRName}})
	zz.Assert("reconcile-no-error", err == nil)

	ready := zzStoredCondition(s, xpv1.TypeReady)
	synced := zzStoredCondition(s, xpv1.TypeSynced)

	allReady, anyRejected := true, false
	for i := 0; i < n; i++ {
		if st.desired[i] {
			if st.ready[i] != fnv1.Ready_READY_TRUE {
				allReady = false
			}
			if rejected[i] {
				anyRejected = true
			}
		}
	}

	if st.fatal {
		zz.Cover("fatal")
		zz.Assert("fatal-result-is-not-synced", synced.Status != corev1.ConditionTrue)
		zz.Assert("fatal-result-is-not-ready", ready.Status != corev1.ConditionTrue)
		custom := zzStoredCondition(s, "Custom")
		if ct != "Custom" {
			zz.Cover("custom-condition")
			zz.Assert("custom-condition-not-reasserted-becomes-unknown", custom.Status == corev1.ConditionUnknown && custom.Reason == reasonFatalError)
		}
	} else {
		if ready.Status == corev1.ConditionTrue {
			zz.Cover("ready-true")
			zz.Assert("ready-only-if-marked-ready-or-all-resources-ready",
				st.xrReady == fnv1.Ready_READY_TRUE || (st.xrReady != fnv1.Ready_READY_FALSE && allReady))
		} else {
			zz.Cover("ready-false")
			zz.Note("not-ready-only-with-a-reason", !(st.xrReady == fnv1.Ready_READY_TRUE || (st.xrReady != fnv1.Ready_READY_FALSE && allReady)))
		}
		if synced.Status == corev1.ConditionTrue {
			zz.Cover("synced-true")
			zz.Assert("synced-only-if-every-resource-applied", !anyRejected)
		} else {
			zz.Cover("synced-false")
			zz.Note("unsynced-only-with-a-rejected-resource", anyRejected)
		}
	}
	// functions cannot forge the system conditions
	if ct == string(xpv1.TypeReady) || ct == string(xpv1.TypeSynced) || ct == string(xpv1.TypeHealthy) {
		zz.Cover("forged-system-condition")
		zz.Assert("function-cannot-set-ready-reason", ready.Reason != "FromFunction")
		zz.Assert("function-cannot-set-synced-reason", synced.Reason != "FromFunction")
		zz.Assert("function-cannot-set-healthy", zzStoredCondition(s, xpv1.TypeHealthy).Reason != "FromFunction")
	} else if !st.fatal {
		got := zzStoredCondition(s, xpv1.ConditionType(ct))
		zz.Assert("custom-function-condition-is-stored", got.Reason == "FromFunction")
	}
	// only a custom condition aimed at the claim is marked for the claim
	stored := zzReadXR(s)
	marked := false
	for _, t := range stored.GetClaimConditionTypes() {
		if string(t) == ct {
			marked = true
		}
		zz.Assert("system-condition-types-never-marked-for-the-claim", !xpv1.IsSystemConditionType(t))
	}
	if marked {
		zz.Cover("claim-condition")
		zz.Assert("condition-marked-for-the-claim-only-if-aimed-at-it", target == 2)
	}
	zz.Observe("conditions", string(ready.Status), string(synced.Status))
}
