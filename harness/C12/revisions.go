//go:build verif

//gosym:package github.com/crossplane/crossplane/internal/controller/apiextensions/composition
//gosym:file zz_c12_revisions_verif.go

package composition

import (
	"context"

	metav1 "k8s.io/apimachinery/pkg/apis/meta/v1"
	"k8s.io/apimachinery/pkg/types"
	ctrl "sigs.k8s.io/controller-runtime"
	"sigs.k8s.io/controller-runtime/pkg/client"
	"sigs.k8s.io/controller-runtime/pkg/reconcile"

	v1 "github.com/crossplane/crossplane/apis/apiextensions/v1"
	zz "github.com/crossplane/crossplane/internal/zzverif"
	"github.com/crossplane/crossplane/internal/zzverif/kube"
)

const (
	zzGroup    = "apiextensions.crossplane.io"
	zzCompName = "comp"
	zzCompUID  = "uid-comp"
)

type zzManager struct {
	ctrl.Manager
	c client.Client
}

func (m *zzManager) GetClient() client.Client { return m.c }

// contents: distinct specs, and one that differs from the first only in a
// label of the Composition (a label-only edit); the quick tier uses the first three
var zzContents = []string{"step-a|", "step-b|", "step-a|staging", "step-c|"}

var zzSteps = []string{"step-a", "step-b", "step-a", "step-c"}

// zzContentOf identifies a content by its spec and its channel label.
func zzContentOf(step string, labels map[string]string) string {
	return step + "|" + labels["channel"]
}

// zzComposition returns the Composition with content k.
func zzComposition(k int) *v1.Composition {
	c := &v1.Composition{ObjectMeta: metav1.ObjectMeta{Name: zzCompName, UID: zzCompUID}}
	c.Spec.CompositeTypeRef = v1.TypeReference{APIVersion: "example.org/v1", Kind: "XR"}
	mode := v1.CompositionModePipeline
	c.Spec.Mode = &mode
	c.Spec.Pipeline = []v1.PipelineStep{{Step: zzSteps[k], FunctionRef: v1.FunctionReference{Name: "fn"}}}
	if k == 2 {
		c.Labels = map[string]string{"channel": "staging"}
	}
	return c
}

type zzRev struct {
	name       string
	content    string
	number     int64
	controlled bool
	hash       string
}

func zzStored(s *kube.Store) []zzRev {
	var out []zzRev
	s.Each(func(group, kind, _ string, name string, doc map[string]any) {
		if group != zzGroup || kind != "CompositionRevision" {
			return
		}
		r := &v1.CompositionRevision{}
		if !s.Peek("", name, r) {
			return
		}
		content := ""
		if len(r.Spec.Pipeline) == 1 {
			content = zzContentOf(r.Spec.Pipeline[0].Step, r.GetLabels())
		}
		out = append(out, zzRev{name: name, content: content, number: r.Spec.Revision,
			controlled: kube.ControllerUID(doc) == zzCompUID, hash: r.GetLabels()[v1.LabelCompositionHash]})
	})
	return out
}

func zzSetup(nMax int) (*kube.Store, *v1.Composition, []zzRev) {
	return zzSetupContents(nMax, zz.Bound(3, 4))
}

// zzSetupContents is zzSetup with the number of distinct composition contents given.
func zzSetupContents(nMax, contents int) (*kube.Store, *v1.Composition, []zzRev) {
	s := kube.New()
	s.Register(&v1.Composition{}, &v1.CompositionList{}, zzGroup, "Composition")
	s.Register(&v1.CompositionRevision{}, &v1.CompositionRevisionList{}, zzGroup, "CompositionRevision")

	cur := zz.Choose("content", contents)
	comp := zzComposition(cur)
	s.Put(comp)

	n := zz.Choose("revisions", nMax+1)
	var pre []zzRev
	used := map[int]bool{}
	for i := 0; i < n; i++ {
		nm := "rev" + string(rune('0'+i))
		k := zz.Choose(nm+".content", contents)
		// history invariant: each distinct content was captured exactly once
		zz.Assume(!used[k])
		used[k] = true
		num := zz.Int64(nm + ".number")
		zz.Assume(num >= 1)
		zz.Assume(num < 1<<40)
		for _, o := range pre {
			zz.Assume(o.number != num)
		}
		r := NewCompositionRevision(zzComposition(k), num)
		controlled := zz.Bool(nm + ".controlled")
		if !controlled {
			// owner references stripped by backup/restore
			r.SetOwnerReferences(nil)
		}
		if i == 0 && k != cur && (zz.Tier() != "thorough" || n == 1) && zz.Bool(nm+".hashLabelLost") {
			// (thorough tier: only as the single pre-existing revision - time budget)
			// a revision of some other content that no longer carries its hash
			// label (written by an older release, hand-made, label removed): it
			// says nothing about the current content
			l := r.GetLabels()
			delete(l, v1.LabelCompositionHash)
			r.SetLabels(l)
		}
		s.Put(r)
		pre = append(pre, zzRev{name: r.GetName(), content: zzContents[k], number: num, controlled: controlled})
	}
	return s, comp, pre
}

func zzCheckPost(s *kube.Store, comp *v1.Composition, pre []zzRev, tag string) {
	post := zzStored(s)
	curContent := zzContentOf(comp.Spec.Pipeline[0].Step, comp.GetLabels())
	curHash := comp.Hash()[:63]
	matches := 0
	var cur zzRev
	for _, r := range post {
		if r.hash == curHash {
			matches++
			cur = r
		}
	}
	zz.Assert(tag+"exactly-one-revision-for-current-content", matches == 1)
	if matches != 1 {
		return
	}
	zz.Assert(tag+"revision-spec-equals-content", cur.content == curContent)
	for _, r := range post {
		if r.name != cur.name {
			zz.Assert(tag+"current-revision-has-highest-number", cur.number > r.number)
		}
		zz.Assert(tag+"revisions-controlled-by-composition", r.controlled)
	}
	had := false
	for _, o := range pre {
		found := false
		for _, r := range post {
			if r.name == o.name {
				found = true
				zz.Assert(tag+"revision-numbers-never-decrease", r.number >= o.number)
				zz.Assert(tag+"revision-content-never-edited", r.content == o.content)
				if o.content != curContent {
					zz.Assert(tag+"other-revisions-keep-their-number", r.number == o.number)
				}
			}
		}
		zz.Assert(tag+"no-revision-lost", found)
		if o.content == curContent {
			had = true
		}
	}
	want := len(pre)
	if !had {
		want++
	}
	zz.Assert(tag+"one-revision-per-content", len(post) == want)
}

// HarnessC12Reconcile: the revision controller from an arbitrary valid
// history (each earlier content captured once, symbolic revision numbers,
// owner references possibly stripped), current content new or a revert.
//
//gosym:harness
//gosym:cover revert new-content stripped-owner
func HarnessC12Reconcile() {
	s, comp, pre := zzSetup(zz.Bound(3, 3))
	for _, o := range pre {
		if o.content == zzContentOf(comp.Spec.Pipeline[0].Step, comp.GetLabels()) {
			zz.Cover("revert")
		}
		if !o.controlled {
			zz.Cover("stripped-owner")
		}
	}
	r := NewReconciler(&zzManager{c: s})
	req := reconcile.Request{NamespacedName: types.NamespacedName{Name: zzCompName}}
	res, err := r.Reconcile(context.Background(), req)
	zz.Assert("reconcile-no-error", err == nil)
	if err != nil || res.Requeue {
		return
	}
	if len(zzStored(s)) > len(pre) {
		zz.Cover("new-content")
	}
	zzCheckPost(s, comp, pre, "")

	// reconciling again changes nothing
	w := len(s.Writes(false))
	_, err = r.Reconcile(context.Background(), req)
	zz.Assert("second-reconcile-no-error", err == nil)
	zz.Assert("second-reconcile-writes-nothing", len(s.Writes(false)) == w)
	zz.Observe("post", len(zzStored(s)))
}

// HarnessC12Faults: a reconcile interrupted at any API call (error without
// effect, error after effect, conflict), followed by clean reconciles until
// one completes: the history is still faithful and monotonic.
//
//gosym:harness
//gosym:cover fault-hit
func HarnessC12Faults() {
	s, comp, pre := zzSetupContents(zz.Bound(2, 3), 3)
	s.FaultAt = zz.Choose("fault.at", 8)
	s.FaultKind = 1 + zz.Choose("fault.kind", 3)
	r := NewReconciler(&zzManager{c: s})
	req := reconcile.Request{NamespacedName: types.NamespacedName{Name: zzCompName}}
	res0, err0 := r.Reconcile(context.Background(), req)
	if s.Faulted {
		zz.Cover("fault-hit")
		if err0 == nil && !res0.Requeue && res0.RequeueAfter == 0 {
			// the interrupted reconcile says it is done (no error, no requeue):
			// nothing will run it again, so the history must be in order already
			zz.Cover("fault-absorbed")
			zzCheckPost(s, comp, pre, "after-absorbed-fault-")
		}
	}
	s.FaultAt = -1 // only the first reconcile is interrupted
	// retries after the fault: two clean reconciles are enough to converge
	// (the first may requeue after re-numbering)
	_, err := r.Reconcile(context.Background(), req)
	zz.Assert("retry-no-error", err == nil)
	_, err = r.Reconcile(context.Background(), req)
	zz.Assert("retry2-no-error", err == nil)
	zzCheckPost(s, comp, pre, "after-fault-")
}
