//go:build verif

//gosym:package github.com/crossplane/crossplane/internal/controller/apiextensions/composite
//gosym:file zz_c12_fetch_verif.go

package composite

import (
	"context"

	corev1 "k8s.io/api/core/v1"
	metav1 "k8s.io/apimachinery/pkg/apis/meta/v1"
	"k8s.io/apimachinery/pkg/types"
	"k8s.io/utils/ptr"

	xpv1 "github.com/crossplane/crossplane-runtime/apis/common/v1"
	"github.com/crossplane/crossplane-runtime/pkg/resource"
	"github.com/crossplane/crossplane-runtime/pkg/resource/unstructured/composite"

	v1 "github.com/crossplane/crossplane/apis/apiextensions/v1"
	zz "github.com/crossplane/crossplane/internal/zzverif"
	"github.com/crossplane/crossplane/internal/zzverif/kube"
)

// HarnessC12Fetch: an XR with the Manual update policy keeps using the
// revision it references; an XR with the Automatic policy (or none) moves to
// the highest-numbered revision controlled by its Composition, restricted by
// its revision selector.
//
//gosym:harness panics
//gosym:cover manual automatic moved selector-restricted foreign-revision-ignored empty-selector
func HarnessC12Fetch() {
	s := kube.New()
	const group = "apiextensions.crossplane.io"
	s.Register(&v1.Composition{}, &v1.CompositionList{}, group, "Composition")
	s.Register(&v1.CompositionRevision{}, &v1.CompositionRevisionList{}, group, "CompositionRevision")

	comp := &v1.Composition{ObjectMeta: metav1.ObjectMeta{Name: "comp", UID: "uid-comp"}}
	s.Put(comp)

	n := zz.Bound(3, 3)
	type rev struct {
		name       string
		number     int64
		controlled bool
		channel    string
	}
	var revs []rev
	for i := 0; i < n; i++ {
		nm := "rev" + string(rune('0'+i))
		r := rev{name: "comp-" + nm}
		r.number = zz.Int64(nm + ".number")
		zz.Assume(r.number >= 1)
		zz.Assume(r.number < 1<<40)
		for _, o := range revs {
			zz.Assume(o.number != r.number)
		}
		r.controlled = zz.Bool(nm + ".controlled")
		r.channel = []string{"stable", "edge"}[zz.Choose(nm+".channel", 2)]
		cr := &v1.CompositionRevision{ObjectMeta: metav1.ObjectMeta{
			Name:   r.name,
			Labels: map[string]string{v1.LabelCompositionName: "comp", "channel": r.channel},
		}}
		uid := types.UID("uid-comp")
		if !r.controlled {
			// a revision of a same-named Composition that no longer exists
			uid = "uid-other"
			zz.Cover("foreign-revision-ignored")
		}
		cr.OwnerReferences = []metav1.OwnerReference{{APIVersion: "apiextensions.crossplane.io/v1", Kind: "Composition", Name: "comp", UID: uid, Controller: ptr.To(true)}}
		cr.Spec.Revision = r.number
		s.Put(cr)
		revs = append(revs, r)
	}

	xr := composite.New(composite.WithGroupVersionKind(zzXRGVK))
	xr.SetName(zzXRName)
	xr.SetUID(zzXRUIDc)
	xr.SetCompositionReference(&corev1.ObjectReference{Name: "comp"})
	policy := zz.Choose("updatePolicy", 3) // unset, Manual, Automatic
	switch policy {
	case 1:
		xr.SetCompositionUpdatePolicy(ptr.To(xpv1.UpdateManual))
	case 2:
		xr.SetCompositionUpdatePolicy(ptr.To(xpv1.UpdateAutomatic))
	}
	cur := zz.Choose("currentRevision", n+1) - 1 // none, or one of the revisions
	if cur >= 0 {
		xr.SetCompositionRevisionReference(&corev1.LocalObjectReference{Name: revs[cur].name})
	}
	// The property speaks of the selector only for the Automatic policy; an XR
	// without any policy is explored without a selector.
	// A Manual XR that references a revision may carry a selector too: it is
	// irrelevant there (the XR keeps its revision).
	manualWithRef := policy == 1 && cur >= 0
	selector := (policy == 2 || manualWithRef) && zz.Bool("revisionSelector")
	if selector {
		xr.SetCompositionRevisionSelector(&metav1.LabelSelector{MatchLabels: map[string]string{"channel": "stable"}})
	} else if policy == 2 && zz.Bool("revisionSelector.withoutLabels") {
		// a selector that names no labels (`compositionRevisionSelector: {}`) restricts nothing
		zz.Cover("empty-selector")
		xr.SetCompositionRevisionSelector(&metav1.LabelSelector{})
	}
	s.Put(xr)
	xr = zzReadXR(s)

	f := NewAPIRevisionFetcher(resource.ClientApplicator{Client: s, Applicator: resource.NewAPIPatchingApplicator(s)})
	got, err := f.Fetch(context.Background(), xr)

	if policy == 1 && cur >= 0 {
		zz.Cover("manual")
		zz.Assert("manual-fetch-no-error", err == nil)
		if err == nil {
			zz.Assert("manual-policy-keeps-the-referenced-revision", got.GetName() == revs[cur].name)
		}
		stored := zzReadXR(s)
		zz.Assert("manual-policy-never-rewrites-the-reference", stored.GetCompositionRevisionReference() != nil && stored.GetCompositionRevisionReference().Name == revs[cur].name)
		return
	}
	zz.Cover("automatic")
	// reference: the highest-numbered revision controlled by the Composition
	// among those matching the selector
	best := -1
	for i, r := range revs {
		if !r.controlled || (selector && r.channel != "stable") {
			continue
		}
		if selector {
			zz.Cover("selector-restricted")
		}
		if best < 0 {
			best = i
		}
	}
	// the maximum is decided by the solver, candidate by candidate
	for i, r := range revs {
		if !r.controlled || (selector && r.channel != "stable") {
			continue
		}
		isMax := true
		for j, o := range revs {
			if j == i || !o.controlled || (selector && o.channel != "stable") {
				continue
			}
			isMax = zz.And(isMax, r.number > o.number)
		}
		if err == nil {
			zz.Assert("automatic-policy-selects-the-highest-numbered-controlled-revision", zz.Implies(isMax, got.GetName() == r.name))
		}
	}
	if best < 0 {
		zz.Assert("no-eligible-revision-is-an-error", err != nil)
		return
	}
	zz.Assert("automatic-fetch-no-error", err == nil)
	if err != nil {
		return
	}
	stored := zzReadXR(s)
	zz.Assert("automatic-policy-records-the-selected-revision", stored.GetCompositionRevisionReference() != nil && stored.GetCompositionRevisionReference().Name == got.GetName())
	if cur < 0 || revs[cur].name != got.GetName() {
		zz.Cover("moved")
	}
	zz.Observe("fetched", got.GetName())
}
