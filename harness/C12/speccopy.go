//go:build verif

//gosym:package github.com/crossplane/crossplane/internal/controller/apiextensions/composition
//gosym:file zz_c12_speccopy_verif.go

package composition

import (
	"reflect"

	corev1 "k8s.io/api/core/v1"
	extv1 "k8s.io/apiextensions-apiserver/pkg/apis/apiextensions/v1"
	"k8s.io/apimachinery/pkg/runtime"
	"k8s.io/utils/ptr"

	xpv1 "github.com/crossplane/crossplane-runtime/apis/common/v1"

	v1 "github.com/crossplane/crossplane/apis/apiextensions/v1"
	zz "github.com/crossplane/crossplane/internal/zzverif"
	"github.com/crossplane/crossplane/internal/zzverif/kube"
)

// HarnessC12SpecCopy: the revision that captures a content has a spec equal
// to that content - field by field, for a Composition that uses every part
// of the spec (which parts are present is symbolic): pipeline steps with input
// and credentials; templates with patches (policies, combine, transforms),
// connection details and readiness checks; patch sets; the connection secret
// namespace and store config. Both objects are compared as the API server
// stores them (JSON), the revision minus its number.
//
//gosym:harness
//gosym:cover pipeline resources credentials patches
func HarnessC12SpecCopy() {
	s := kube.New()
	s.Register(&v1.Composition{}, &v1.CompositionList{}, zzGroup, "Composition")
	s.Register(&v1.CompositionRevision{}, &v1.CompositionRevisionList{}, zzGroup, "CompositionRevision")

	c := zzComposition(0)
	c.Spec.Pipeline = nil
	if zz.Bool("mode.pipeline") {
		zz.Cover("pipeline")
		st := v1.PipelineStep{Step: "step-a", FunctionRef: v1.FunctionReference{Name: "fn"}}
		if zz.Bool("step.input") {
			st.Input = &runtime.RawExtension{Raw: []byte(`{"apiVersion":"fn.example.org/v1","kind":"Input","value":"x"}`)}
		}
		if zz.Bool("step.credentials") {
			zz.Cover("credentials")
			st.Credentials = []v1.FunctionCredentials{
				{Name: "creds", Source: v1.FunctionCredentialsSourceSecret, SecretRef: &xpv1.SecretReference{Namespace: "ns", Name: "secret"}},
				{Name: "none", Source: v1.FunctionCredentialsSourceNone},
			}
		}
		c.Spec.Pipeline = []v1.PipelineStep{st, {Step: "step-b", FunctionRef: v1.FunctionReference{Name: "fn2"}}}
	} else {
		zz.Cover("resources")
		mode := v1.CompositionModeResources
		c.Spec.Mode = &mode
		t := v1.ComposedTemplate{Name: ptr.To("res"), Base: runtime.RawExtension{Raw: []byte(`{"apiVersion":"example.org/v1","kind":"Composed","spec":{"a":"b"}}`)}}
		if zz.Bool("template.patches") {
			zz.Cover("patches")
			t.Patches = []v1.Patch{
				{Type: v1.PatchTypeFromCompositeFieldPath, FromFieldPath: ptr.To("spec.a"), ToFieldPath: ptr.To("spec.b"),
					Policy: &v1.PatchPolicy{FromFieldPath: ptr.To(v1.FromFieldPathPolicyRequired), MergeOptions: &xpv1.MergeOptions{KeepMapValues: ptr.To(true), AppendSlice: ptr.To(true)}},
					Transforms: []v1.Transform{
						{Type: v1.TransformTypeMath, Math: &v1.MathTransform{Type: v1.MathTransformTypeMultiply, Multiply: ptr.To(int64(3))}},
						{Type: v1.TransformTypeMap, Map: &v1.MapTransform{Pairs: map[string]extv1.JSON{"a": {Raw: []byte(`"x"`)}}}},
						{Type: v1.TransformTypeString, String: &v1.StringTransform{Type: v1.StringTransformTypeFormat, Format: ptr.To("%s-x")}},
					}},
				{Type: v1.PatchTypeCombineFromComposite, ToFieldPath: ptr.To("spec.c"),
					Combine: &v1.Combine{Strategy: v1.CombineStrategyString, Variables: []v1.CombineVariable{{FromFieldPath: "spec.a"}, {FromFieldPath: "spec.b"}}, String: &v1.StringCombine{Format: "%s-%s"}}},
				{Type: v1.PatchTypePatchSet, PatchSetName: ptr.To("common")},
			}
		}
		if zz.Bool("template.connectionDetails") {
			t.ConnectionDetails = []v1.ConnectionDetail{
				{Name: ptr.To("user"), Type: ptr.To(v1.ConnectionDetailTypeFromConnectionSecretKey), FromConnectionSecretKey: ptr.To("username")},
				{Name: ptr.To("host"), Type: ptr.To(v1.ConnectionDetailTypeFromFieldPath), FromFieldPath: ptr.To("status.host")},
				{Name: ptr.To("fixed"), Type: ptr.To(v1.ConnectionDetailTypeFromValue), Value: ptr.To("v")},
			}
		}
		if zz.Bool("template.readinessChecks") {
			t.ReadinessChecks = []v1.ReadinessCheck{
				{Type: v1.ReadinessCheckTypeMatchString, FieldPath: "status.state", MatchString: "ok"},
				{Type: v1.ReadinessCheckTypeMatchInteger, FieldPath: "status.n", MatchInteger: 3},
				{Type: v1.ReadinessCheckTypeMatchCondition, MatchCondition: &v1.MatchConditionReadinessCheck{Type: xpv1.TypeReady, Status: corev1.ConditionTrue}},
			}
		}
		c.Spec.Resources = []v1.ComposedTemplate{t}
		if zz.Bool("patchSets") {
			c.Spec.PatchSets = []v1.PatchSet{{Name: "common", Patches: []v1.Patch{{Type: v1.PatchTypeFromCompositeFieldPath, FromFieldPath: ptr.To("metadata.labels"), ToFieldPath: ptr.To("metadata.labels")}}}}
		}
	}
	if zz.Bool("connectionSecretNamespace") {
		c.Spec.WriteConnectionSecretsToNamespace = ptr.To("crossplane-system")
	}
	if zz.Bool("storeConfig") {
		c.Spec.PublishConnectionDetailsWithStoreConfigRef = &v1.StoreConfigReference{Name: "vault"}
	}
	s.Put(c)
	rev := NewCompositionRevision(c, 1)
	s.Put(rev)

	cdoc := s.Doc(zzGroup, "Composition", "", zzCompName)
	rdoc := s.Doc(zzGroup, "CompositionRevision", "", rev.GetName())
	zz.Assert("revision-stored", rdoc != nil)
	if rdoc == nil {
		return
	}
	cspec, _ := cdoc["spec"].(map[string]any)
	rspec, _ := rdoc["spec"].(map[string]any)
	zz.Assert("revision-carries-its-number", rspec["revision"] != nil)
	delete(rspec, "revision")
	for k := range cspec {
		zz.Assert("revision-spec-equals-content-field-by-field", reflect.DeepEqual(cspec[k], rspec[k]))
	}
	zz.Assert("revision-spec-has-nothing-the-content-lacks", len(rspec) == len(cspec))
}
