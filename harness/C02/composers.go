//go:build verif

//gosym:package github.com/crossplane/crossplane/internal/controller/apiextensions/composite
//gosym:file zz_c02_composers_verif.go

package composite

import (
	"context"
	"reflect"

	kerrors "k8s.io/apimachinery/pkg/api/errors"
	metav1 "k8s.io/apimachinery/pkg/apis/meta/v1"
	"k8s.io/apimachinery/pkg/runtime"
	"k8s.io/apimachinery/pkg/runtime/schema"
	"k8s.io/apimachinery/pkg/types"
	"k8s.io/utils/ptr"
	"sigs.k8s.io/controller-runtime/pkg/client"

	"github.com/crossplane/crossplane-runtime/pkg/resource/unstructured/composed"

	zz "github.com/crossplane/crossplane/internal/zzverif"
	"github.com/crossplane/crossplane/internal/zzverif/kube"
)

// zzForeignSetup puts one composed resource controlled by a foreign
// (symbolic) UID in the store, referenced by the XR or not, next to one
// resource the XR does control.
func zzForeignSetup(s *kube.Store) (foreignName string, referenced bool, before map[string]any) {
	foreign := zz.Str("foreign.uid")
	zz.Assume(foreign != zzXRUIDc)
	zz.Assume(foreign != "")
	foreignName = zzXRName + "-foreign"
	fo := zzComposedObject(foreignName, zzResNames[0], zzOwnForeign, foreign)
	if zz.Bool("foreign.hasFieldManagers") {
		// written by its own controller: field managers that are not the XR's
		fo.SetManagedFields([]metav1.ManagedFieldsEntry{{Manager: "other-controller", Operation: metav1.ManagedFieldsOperationUpdate}})
	}
	s.Put(fo)
	own := zzComposedObject(zzXRName+"-own", zzResNames[1], zzOwnOurs, "")
	s.Put(own)
	xr := zzNewXRObject()
	refs := []any{map[string]any{"apiVersion": "example.org/v1", "kind": zzCDKind, "name": zzXRName + "-own"}}
	referenced = zz.Bool("foreign.referenced")
	if referenced {
		refs = append(refs, map[string]any{"apiVersion": "example.org/v1", "kind": zzCDKind, "name": foreignName})
	}
	xr.Object["spec"] = map[string]any{"resourceRefs": refs}
	s.Put(xr)
	before = runtime.DeepCopyJSON(s.Doc(zzCDGroup, zzCDKind, "", foreignName))
	return
}

func zzAssertUntouched(s *kube.Store, name string, before map[string]any) {
	zz.Assert("foreign-object-left-exactly-as-it-was", reflect.DeepEqual(before, s.Doc(zzCDGroup, zzCDKind, "", name)))
	for _, w := range s.Writes(false) {
		if w.Kind == zzCDKind && w.Name == name {
			zz.Assert("no-effective-write-addressed-to-foreign-object", !w.Effect)
			zz.Assert("foreign-object-never-deleted", w.Verb != kube.VerbDelete)
		}
	}
}

// zzMissingCache is a cached client that has not seen one object yet.
type zzMissingCache struct {
	*kube.Store
	miss string
}

func (c *zzMissingCache) Get(ctx context.Context, key client.ObjectKey, obj client.Object, opts ...client.GetOption) error {
	if key.Name == c.miss {
		return kerrors.NewNotFound(schema.GroupResource{Resource: "composed"}, key.Name)
	}
	return c.Store.Get(ctx, key, obj, opts...)
}

// HarnessC02Pipeline: the function composer never updates, adopts or deletes
// a composed resource another owner controls - whether the XR references it,
// a desired resource carries its name annotation, or a desired resource asks
// for its very name - and the conflict surfaces.
//
//gosym:harness
//gosym:cover named-collision referenced-foreign desired-same-resource-name conflict-surfaced cache-miss
func HarnessC02Pipeline() {
	s := kube.New()
	name, referenced, before := zzForeignSetup(s)
	if referenced {
		zz.Cover("referenced-foreign")
	}
	st := zzStep{desired: []bool{zz.Bool("desired0"), zz.Bool("desired1")}, names: []string{"", ""}}
	collide := zz.Bool("function.names.foreign.object")
	if collide && st.desired[0] {
		// the function asks for the foreign object's name
		st.names[0] = name
		zz.Cover("named-collision")
	}
	if st.desired[0] {
		zz.Cover("desired-same-resource-name")
	}
	runner := &zzRunner{steps: []zzStep{st}}
	// the informer cache may not hold the foreign object yet: reads of it
	// fall through to the API server
	var cached client.Client = s
	if zz.Bool("cache.missesForeignObject") {
		zz.Cover("cache-miss")
		cached = &zzMissingCache{Store: s, miss: name}
	}
	c := NewFunctionComposer(cached, s, runner)
	res, err := c.Compose(context.Background(), zzReadXR(s), CompositionRequest{Revision: zzRevision(1)})
	zzAssertUntouched(s, name, before)
	if collide && st.desired[0] {
		surfaced := err != nil
		for _, cr := range res.Composed {
			if string(cr.ResourceName) == zzResNames[0] && !cr.Synced {
				surfaced = true
			}
		}
		zz.Cover("conflict-surfaced")
		zz.Assert("conflict-with-foreign-owner-surfaces", surfaced)
	}
	zz.Observe("err", err != nil)
}

// HarnessC02PT: the same for the patch-and-transform composer with named
// templates: a referenced resource controlled by another owner is neither
// patched (template present) nor garbage collected (template absent).
//
//gosym:harness
//gosym:cover template-present template-absent conflict-surfaced
func HarnessC02PT() {
	s := kube.New()
	name, referenced, before := zzForeignSetup(s)
	present := []bool{zz.Bool("template0"), zz.Bool("template1")}
	c := NewPTComposer(s, s)
	_, err := c.Compose(context.Background(), zzReadXR(s), CompositionRequest{Revision: zzPTRevision(present, nil)})
	zzAssertUntouched(s, name, before)
	if referenced {
		if present[0] {
			zz.Cover("template-present")
		} else {
			zz.Cover("template-absent")
		}
		zz.Cover("conflict-surfaced")
		zz.Assert("conflict-with-foreign-owner-surfaces", err != nil)
	}
	zz.Observe("err", err != nil)
}

// HarnessC02PTUsage: the same for a composed resource of kind Usage, which
// the patch-and-transform composer applies with an extra option of its own:
// a referenced Usage that another owner controls is not patched, and the
// conflict surfaces; one the XR controls (or nobody does) is.
//
//gosym:harness
//gosym:cover foreign-usage own-usage
func HarnessC02PTUsage() {
	s := kube.New()
	const usageAPI, usageKind, usageName = "apiextensions.crossplane.io/v1beta1", "Usage", zzXRName + "-usage"
	foreign := zz.Str("foreign.uid")
	zz.Assume(foreign != zzXRUIDc)
	zz.Assume(foreign != "")
	u := composed.New()
	u.SetAPIVersion(usageAPI)
	u.SetKind(usageKind)
	u.SetName(usageName)
	u.SetAnnotations(map[string]string{AnnotationKeyCompositionResourceName: zzResNames[0]})
	u.Object["spec"] = map[string]any{"reason": "old"}
	owner := zz.Choose("usage.controller", 3) // nobody, the XR, another owner
	switch owner {
	case 1:
		u.SetOwnerReferences([]metav1.OwnerReference{{APIVersion: "example.org/v1", Kind: "XR", Name: zzXRName, UID: zzXRUIDc, Controller: ptr.To(true)}})
	case 2:
		u.SetOwnerReferences([]metav1.OwnerReference{{APIVersion: "example.org/v1", Kind: "Other", Name: "other", UID: types.UID(foreign), Controller: ptr.To(true)}})
	}
	s.Put(u)
	xr := zzNewXRObject()
	xr.Object["spec"] = map[string]any{"resourceRefs": []any{map[string]any{"apiVersion": usageAPI, "kind": usageKind, "name": usageName}}}
	s.Put(xr)
	before := runtime.DeepCopyJSON(s.Doc("apiextensions.crossplane.io", usageKind, "", usageName))

	rev := zzPTRevision([]bool{true}, nil)
	rev.Spec.Resources[0].Base = runtime.RawExtension{Raw: []byte(`{"apiVersion":"` + usageAPI + `","kind":"Usage","spec":{"reason":"new"}}`)}
	c := NewPTComposer(s, s)
	_, err := c.Compose(context.Background(), zzReadXR(s), CompositionRequest{Revision: rev})
	after := s.Doc("apiextensions.crossplane.io", usageKind, "", usageName)
	if owner == 2 {
		zz.Cover("foreign-usage")
		zz.Assert("foreign-object-left-exactly-as-it-was", reflect.DeepEqual(before, after))
		zz.Assert("conflict-with-foreign-owner-surfaces", err != nil)
		return
	}
	zz.Cover("own-usage")
	zz.Assert("compose-no-error", err == nil)
	spec, _ := after["spec"].(map[string]any)
	zz.Assert("own-usage-is-updated", spec["reason"] == any("new"))
	zz.Assert("own-usage-controlled-by-the-xr", kube.ControllerUID(after) == zzXRUIDc)
}
