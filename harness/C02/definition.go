//go:build verif

//gosym:package github.com/crossplane/crossplane/internal/controller/apiextensions/definition
//gosym:file zz_c02_definition_verif.go

package definition

import (
	"context"
	"reflect"

	extv1 "k8s.io/apiextensions-apiserver/pkg/apis/apiextensions/v1"
	metav1 "k8s.io/apimachinery/pkg/apis/meta/v1"
	"k8s.io/apimachinery/pkg/runtime"
	"k8s.io/apimachinery/pkg/types"
	"k8s.io/utils/ptr"
	"sigs.k8s.io/controller-runtime/pkg/reconcile"

	v1 "github.com/crossplane/crossplane/apis/apiextensions/v1"
	"github.com/crossplane/crossplane/internal/engine"
	zz "github.com/crossplane/crossplane/internal/zzverif"
	"github.com/crossplane/crossplane/internal/zzverif/kube"
)

// zzLiveEngine records whether a controller was started.
type zzLiveEngine struct {
	zzEngine
	running bool
	started bool
}

func (e *zzLiveEngine) IsRunning(string) bool { return e.running }
func (e *zzLiveEngine) Start(string, ...engine.ControllerOption) error {
	e.started = true
	return nil
}

// HarnessC02Definition: a CustomResourceDefinition that carries the name an
// XRD derives but is controlled by another owner is never modified, adopted
// or deleted by that XRD's reconciler, whether the XRD is live or being
// deleted and whatever API call fails; a CRD the XRD controls stays its own.
//
//gosym:harness
//gosym:cover foreign-crd-live foreign-crd-deleting own-crd uncontrolled-crd-adopted fault-hit plain-owner-before
func HarnessC02Definition() {
	s := kube.New()
	s.PreserveStatus = true // CRDs have a status subresource: applying the rendered CRD keeps Established
	s.Register(&v1.CompositeResourceDefinition{}, &v1.CompositeResourceDefinitionList{}, "apiextensions.crossplane.io", "CompositeResourceDefinition")
	s.Register(&extv1.CustomResourceDefinition{}, &extv1.CustomResourceDefinitionList{}, "apiextensions.k8s.io", "CustomResourceDefinition")

	d := zzXRD()
	deleting := zz.Bool("xrd.deleting")
	if zz.Bool("xrd.hasFinalizer") || deleting {
		d.Finalizers = []string{finalizer}
	}
	if deleting {
		now := metav1.Now()
		d.DeletionTimestamp = &now
	}
	s.Put(d)

	crdState := 1 + zz.Choose("crd.state", 4) // ours, controlled by another owner, controlled by nobody, ours as a plain (non-controlling) owner
	foreign := zz.Str("foreign.uid")
	zz.Assume(foreign != zzXRDUID)
	zz.Assume(foreign != "")
	crd := &extv1.CustomResourceDefinition{ObjectMeta: metav1.ObjectMeta{Name: zzXRDName, Labels: map[string]string{"who": "someone"}}}
	crd.Spec.Group = "example.org"
	crd.Spec.Names = extv1.CustomResourceDefinitionNames{Kind: "Other", ListKind: "OtherList", Plural: "xthings", Singular: "other"}
	switch crdState {
	case 1:
		crd.OwnerReferences = []metav1.OwnerReference{{APIVersion: "apiextensions.crossplane.io/v1", Kind: "CompositeResourceDefinition", Name: zzXRDName, UID: zzXRDUID, Controller: ptr.To(true)}}
	case 2:
		// the other owner may be an XRD of the same name from before a
		// delete-and-recreate, or anything else
		crd.OwnerReferences = []metav1.OwnerReference{{APIVersion: "apiextensions.crossplane.io/v1", Kind: "CompositeResourceDefinition", Name: zz.Str("foreign.owner.name"), UID: types.UID(foreign), Controller: ptr.To(true)}}
	}
	if crdState == 4 {
		// e.g. restored from a backup, or written by a tool that sets plain owners
		crd.OwnerReferences = []metav1.OwnerReference{{APIVersion: "apiextensions.crossplane.io/v1", Kind: "CompositeResourceDefinition", Name: zzXRDName, UID: zzXRDUID}}
	}
	if zz.Bool("crd.established") {
		crd.Status.Conditions = []extv1.CustomResourceDefinitionCondition{{Type: extv1.Established, Status: extv1.ConditionTrue}}
	}
	s.Put(crd)
	before := runtime.DeepCopyJSON(s.Doc("apiextensions.k8s.io", "CustomResourceDefinition", "", zzXRDName))

	eng := &zzLiveEngine{zzEngine: zzEngine{s: s}, running: zz.Bool("controller.running")}
	s.FaultAt = zz.Choose("fault.at", 7) - 1
	s.FaultKind = 1 + zz.Choose("fault.kind", 3)
	r := NewReconciler(NewClientApplicator(s), WithControllerEngine(eng))
	_, err := r.Reconcile(context.Background(), reconcile.Request{NamespacedName: types.NamespacedName{Name: zzXRDName}})
	if s.Faulted {
		zz.Cover("fault-hit")
	}

	after := s.Doc("apiextensions.k8s.io", "CustomResourceDefinition", "", zzXRDName)
	switch crdState {
	case 2:
		if deleting {
			zz.Cover("foreign-crd-deleting")
		} else {
			zz.Cover("foreign-crd-live")
		}
		zz.Assert("foreign-crd-not-deleted", after != nil)
		zz.Assert("foreign-crd-left-exactly-as-it-was", after != nil && reflect.DeepEqual(before, after))
		zz.Note("no-controller-started-for-a-crd-another-owner-controls", !eng.started)
	case 1:
		zz.Cover("own-crd")
		if after != nil {
			zz.Assert("own-crd-stays-controlled-by-the-xrd", kube.ControllerUID(after) == zzXRDUID)
		}
	case 3, 4:
		if after != nil && kube.ControllerUID(after) == zzXRDUID {
			zz.Cover("uncontrolled-crd-adopted")
		}
		if crdState == 4 {
			zz.Cover("plain-owner-before")
		}
		// a CRD nobody controls is adopted: after a reconcile of a live XRD that
		// went through, the CRD carries a controller reference to the XRD
		if !deleting && !s.Faulted && err == nil && after != nil {
			zz.Assert("crd-of-a-reconciled-xrd-is-controlled-by-it", kube.ControllerUID(after) == zzXRDUID)
		}
	}
	zz.Observe("crd", after != nil, eng.started, eng.stopped)
}
