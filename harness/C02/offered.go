//go:build verif

//gosym:package github.com/crossplane/crossplane/internal/controller/apiextensions/offered
//gosym:file zz_c02_offered_verif.go

package offered

import (
	"context"
	"reflect"

	extv1 "k8s.io/apiextensions-apiserver/pkg/apis/apiextensions/v1"
	metav1 "k8s.io/apimachinery/pkg/apis/meta/v1"
	kunstructured "k8s.io/apimachinery/pkg/apis/meta/v1/unstructured"
	"k8s.io/apimachinery/pkg/runtime"
	"k8s.io/apimachinery/pkg/types"
	"k8s.io/utils/ptr"
	"sigs.k8s.io/controller-runtime/pkg/reconcile"

	zz "github.com/crossplane/crossplane/internal/zzverif"
	"github.com/crossplane/crossplane/internal/zzverif/kube"
)

// HarnessC02Offered: a claim CustomResourceDefinition with the name an XRD
// derives but controlled by another owner is never modified, adopted or
// deleted by that XRD's offered-claim reconciler, nor are its claims.
//
//gosym:harness
//gosym:cover foreign-crd-live foreign-crd-deleting own-crd uncontrolled-crd-adopted fault-hit
func HarnessC02Offered() {
	s := zzStore()
	s.PreserveStatus = true // CRDs have a status subresource: applying the rendered CRD keeps Established
	d := zzXRD()
	deleting := zz.Bool("xrd.deleting")
	if zz.Bool("xrd.hasFinalizer") || deleting {
		d.Finalizers = []string{finalizer}
	}
	if deleting {
		now := metav1.Now()
		d.DeletionTimestamp = &now
	}
	s.Put(d)

	crdState := 1 + zz.Choose("crd.state", 3) // ours, controlled by another owner, controlled by nobody
	foreign := zz.Str("foreign.uid")
	zz.Assume(foreign != zzXRDUID)
	zz.Assume(foreign != "")
	crd := &extv1.CustomResourceDefinition{ObjectMeta: metav1.ObjectMeta{Name: zzClaimCRDName, Labels: map[string]string{"who": "someone"}}}
	crd.Spec.Group = "example.org"
	crd.Spec.Names = extv1.CustomResourceDefinitionNames{Kind: "Thing", ListKind: "ThingList", Plural: "things", Singular: "thing"}
	switch crdState {
	case 1:
		crd.OwnerReferences = []metav1.OwnerReference{{APIVersion: "apiextensions.crossplane.io/v1", Kind: "CompositeResourceDefinition", Name: zzXRDName, UID: zzXRDUID, Controller: ptr.To(true)}}
	case 2:
		crd.OwnerReferences = []metav1.OwnerReference{{APIVersion: "apiextensions.crossplane.io/v1", Kind: "CompositeResourceDefinition", Name: zz.Str("foreign.owner.name"), UID: types.UID(foreign), Controller: ptr.To(true)}}
	}
	if zz.Bool("crd.established") {
		crd.Status.Conditions = []extv1.CustomResourceDefinitionCondition{{Type: extv1.Established, Status: extv1.ConditionTrue}}
	}
	s.Put(crd)
	before := runtime.DeepCopyJSON(s.Doc("apiextensions.k8s.io", "CustomResourceDefinition", "", zzClaimCRDName))

	// a claim of that kind exists
	cl := &kunstructured.Unstructured{Object: map[string]any{}}
	cl.SetAPIVersion("example.org/v1")
	cl.SetKind("Thing")
	cl.SetNamespace("ns")
	cl.SetName("c0")
	s.Put(cl)

	eng := &zzEngine{s: s, running: zz.Bool("controller.running")}
	s.FaultAt = zz.Choose("fault.at", 7) - 1
	s.FaultKind = 1 + zz.Choose("fault.kind", 3)
	r := NewReconciler(NewClientApplicator(s), WithControllerEngine(eng))
	_, _ = r.Reconcile(context.Background(), reconcile.Request{NamespacedName: types.NamespacedName{Name: zzXRDName}})
	if s.Faulted {
		zz.Cover("fault-hit")
	}

	after := s.Doc("apiextensions.k8s.io", "CustomResourceDefinition", "", zzClaimCRDName)
	switch crdState {
	case 2:
		if deleting {
			zz.Cover("foreign-crd-deleting")
		} else {
			zz.Cover("foreign-crd-live")
		}
		zz.Assert("foreign-crd-not-deleted", after != nil)
		zz.Assert("foreign-crd-left-exactly-as-it-was", after != nil && reflect.DeepEqual(before, after))
		zz.Assert("claims-of-a-foreign-crd-not-deleted", zzClaims(s) == 1)
		zz.Note("no-controller-started-for-a-crd-another-owner-controls", !eng.started)
	case 1:
		zz.Cover("own-crd")
		if after != nil {
			zz.Assert("own-crd-stays-controlled-by-the-xrd", kube.ControllerUID(after) == zzXRDUID)
		}
	case 3:
		if after != nil && kube.ControllerUID(after) == zzXRDUID {
			zz.Cover("uncontrolled-crd-adopted")
		}
	}
	zz.Observe("crd", after != nil, eng.started, eng.stopped)
}
