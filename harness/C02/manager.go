//go:build verif

//gosym:package github.com/crossplane/crossplane/internal/controller/pkg/manager
//gosym:file zz_c02_manager_verif.go

package manager

import (
	"context"
	"reflect"

	metav1 "k8s.io/apimachinery/pkg/apis/meta/v1"
	"k8s.io/apimachinery/pkg/runtime"
	"k8s.io/apimachinery/pkg/types"
	"k8s.io/utils/ptr"
	"sigs.k8s.io/controller-runtime/pkg/reconcile"

	v1 "github.com/crossplane/crossplane/apis/pkg/v1"
	zz "github.com/crossplane/crossplane/internal/zzverif"
	"github.com/crossplane/crossplane/internal/zzverif/kube"
)

// HarnessC02Manager: a package revision with the name derived for this
// package, but controlled by another owner, is neither adopted nor modified,
// and the conflict surfaces - also when it is Active and would otherwise be
// deactivated.
//
//gosym:harness
//gosym:cover foreign-current foreign-other history-full
func HarnessC02Manager() {
	s := kube.New()
	s.Register(&v1.Provider{}, &v1.ProviderList{}, zzPkgGroup, "Provider")
	s.Register(&v1.ProviderRevision{}, &v1.ProviderRevisionList{}, zzPkgGroup, "ProviderRevision")
	p := &v1.Provider{ObjectMeta: metav1.ObjectMeta{Name: zzPkgName, UID: zzPkgUID}}
	p.Spec.Package = "xpkg.example.org/org/provider-x:v1.0.0"
	// the revision history may be full, so that the oldest revision listed
	// is up for garbage collection
	ownOlder := zz.Choose("own.inactive.revisions", 3)
	if zz.Bool("package.historyLimited") {
		p.Spec.RevisionHistoryLimit = ptr.To[int64](1)
	}
	s.Put(p)
	for k := 0; k < ownOlder; k++ {
		o := &v1.ProviderRevision{ObjectMeta: metav1.ObjectMeta{
			Name:            "provider-x-own" + string(rune('0'+k)),
			Labels:          map[string]string{v1.LabelParentPackage: zzPkgName},
			OwnerReferences: []metav1.OwnerReference{{APIVersion: "pkg.crossplane.io/v1", Kind: "Provider", Name: zzPkgName, UID: zzPkgUID, Controller: ptr.To(true)}},
		}}
		o.Spec.Revision = int64(2 + k)
		o.Spec.Package = "xpkg.example.org/org/provider-x:v0.9." + string(rune('0'+k))
		o.Spec.DesiredState = v1.PackageRevisionInactive
		s.Put(o)
	}

	foreign := zz.Str("foreign.uid")
	zz.Assume(foreign != zzPkgUID)
	zz.Assume(foreign != "")
	// the foreign-controlled revision carries this package's label (so the
	// manager lists it) and either the current revision's name or another one
	isCurrent := zz.Bool("foreign.isCurrent")
	name := zzRevNames[1]
	if isCurrent {
		name = zzRevNames[0]
		zz.Cover("foreign-current")
	} else {
		zz.Cover("foreign-other")
	}
	r := &v1.ProviderRevision{ObjectMeta: metav1.ObjectMeta{
		Name:            name,
		Labels:          map[string]string{v1.LabelParentPackage: zzPkgName},
		OwnerReferences: []metav1.OwnerReference{{APIVersion: "pkg.crossplane.io/v1", Kind: "Provider", Name: zz.Str("foreign.owner.name"), UID: types.UID(foreign), Controller: ptr.To(true)}},
	}}
	r.Spec.Revision = 1
	r.Spec.Package = "xpkg.example.org/other/provider-x:v0.9.0"
	r.Spec.DesiredState = v1.PackageRevisionInactive
	if zz.Bool("foreign.active") {
		r.Spec.DesiredState = v1.PackageRevisionActive
	}
	s.Put(r)
	before := runtime.DeepCopyJSON(s.Doc(zzPkgGroup, "ProviderRevision", "", name))

	if p.Spec.RevisionHistoryLimit != nil && ownOlder == 2 {
		zz.Cover("history-full")
	}
	rec := zzReconciler(s, zzRevNames[0])
	_, err := rec.Reconcile(context.Background(), reconcile.Request{NamespacedName: types.NamespacedName{Name: zzPkgName}})

	zz.Assert("foreign-revision-left-exactly-as-it-was", reflect.DeepEqual(before, s.Doc(zzPkgGroup, "ProviderRevision", "", name)))
	if isCurrent || r.Spec.DesiredState == v1.PackageRevisionActive {
		// the manager had to write it (apply the current revision / deactivate
		// an active one): the conflict must surface
		zz.Assert("conflict-with-foreign-owner-surfaces", err != nil)
	}
	zz.Observe("err", err != nil)
}
