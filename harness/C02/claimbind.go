//go:build verif

//gosym:package github.com/crossplane/crossplane/internal/controller/apiextensions/claim
//gosym:file zz_c02_claimbind_verif.go

package claim

import (
	"context"
	"reflect"

	metav1 "k8s.io/apimachinery/pkg/apis/meta/v1"
	"k8s.io/apimachinery/pkg/runtime"
	"k8s.io/apimachinery/pkg/types"
	"k8s.io/utils/ptr"
	"sigs.k8s.io/controller-runtime/pkg/reconcile"

	"github.com/crossplane/crossplane-runtime/pkg/resource"
	"github.com/crossplane/crossplane-runtime/pkg/resource/unstructured/claim"
	"github.com/crossplane/crossplane-runtime/pkg/resource/unstructured/composite"

	"github.com/crossplane/crossplane/internal/names"
	zz "github.com/crossplane/crossplane/internal/zzverif"
	"github.com/crossplane/crossplane/internal/zzverif/kube"
)

// HarnessC02ClaimBind: a claim that names an existing, unclaimed XR in its
// resourceRef - the way an existing XR is claimed. If that XR is controlled by
// another owner (an XR composed by a parent XR), neither claim syncer may
// write to it, and a deleted claim may not delete it: it is left exactly as it
// was and the conflict surfaces. An XR nobody controls is bound as before.
//
//gosym:harness
//gosym:cover foreign-controlled uncontrolled claim-deleted bound
func HarnessC02ClaimBind() {
	s := kube.New()
	cm := claim.New(claim.WithGroupVersionKind(zzClaimGVK))
	cm.SetName("cm")
	cm.SetNamespace("team")
	cm.SetUID("uid-claim")
	cm.Object["spec"] = map[string]any{"param": "from-claim", "resourceRef": map[string]any{"apiVersion": "example.org/v1", "kind": "XR", "name": "xr-nested"}}
	deleted := zz.Bool("claim.deleted")
	if deleted {
		zz.Cover("claim-deleted")
		cm.SetFinalizers([]string{finalizer})
		now := metav1.Now()
		cm.SetDeletionTimestamp(&now)
	}
	s.Put(cm)

	xr := composite.New(composite.WithGroupVersionKind(zzXRGVK))
	xr.SetName("xr-nested")
	xr.SetUID("uid-xr")
	xr.Object["spec"] = map[string]any{"param": "from-parent"}
	foreign := zz.Str("xr.controller.uid")
	zz.Assume(foreign != "uid-claim")
	controlled := zz.Bool("xr.controlledByAnotherOwner")
	if controlled {
		zz.Cover("foreign-controlled")
		zz.Assume(foreign != "")
		xr.SetOwnerReferences([]metav1.OwnerReference{{APIVersion: "example.org/v1", Kind: "XParent", Name: "parent", UID: types.UID(foreign), Controller: ptr.To(true)}})
	} else {
		zz.Cover("uncontrolled")
	}
	s.Put(xr)
	before := runtime.DeepCopyJSON(s.Doc("example.org", "XR", "", "xr-nested"))

	opts := []ReconcilerOption{}
	if zz.Bool("syncer.ssa") {
		opts = append(opts, WithCompositeSyncer(NewServerSideCompositeSyncer(s, names.NewNameGenerator(s))),
			WithManagedFieldsUpgrader(NewPatchingManagedFieldsUpgrader(s)))
	}
	r := NewReconciler(s, resource.CompositeClaimKind(zzClaimGVK), resource.CompositeKind(zzXRGVK), opts...)
	_, err := r.Reconcile(context.Background(), reconcile.Request{NamespacedName: types.NamespacedName{Namespace: "team", Name: "cm"}})

	after := s.Doc("example.org", "XR", "", "xr-nested")
	if controlled {
		zz.Assert("xr-controlled-by-another-owner-is-not-deleted", after != nil)
		zz.Assert("xr-controlled-by-another-owner-is-left-as-it-was", reflect.DeepEqual(before, after))
		stored := claim.New(claim.WithGroupVersionKind(zzClaimGVK))
		surfaced := err != nil
		if s.Peek("team", "cm", stored) {
			c := stored.GetCondition("Synced")
			surfaced = surfaced || c.Status == "False"
		}
		zz.Assert("the-conflict-surfaces", surfaced)
		return
	}
	if !deleted {
		zz.Assert("reconcile-no-error", err == nil)
		spec, _ := after["spec"].(map[string]any)
		cr, _ := spec["claimRef"].(map[string]any)
		if cr != nil && cr["name"] == any("cm") {
			zz.Cover("bound")
		}
		zz.Assert("uncontrolled-xr-is-bound", cr != nil && cr["name"] == any("cm"))
	}
}
