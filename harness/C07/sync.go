//go:build verif

//gosym:package github.com/crossplane/crossplane/internal/controller/apiextensions/claim
//gosym:file zz_c07_sync_verif.go

package claim

import (
	"context"
	"reflect"

	"github.com/crossplane/crossplane-runtime/pkg/resource/unstructured/claim"
	"github.com/crossplane/crossplane-runtime/pkg/resource/unstructured/composite"

	"github.com/crossplane/crossplane/internal/names"
	zz "github.com/crossplane/crossplane/internal/zzverif"
	"github.com/crossplane/crossplane/internal/zzverif/kube"
)

// The partition of fields, written out independently of the xcrd tables.
var (
	zzPropagated    = []string{"compositionRef", "compositionSelector", "compositionUpdatePolicy", "compositionRevisionSelector"}
	zzClaimOnly     = []string{"compositeDeletePolicy", "resourceRef", "publishConnectionDetailsTo", "writeConnectionSecretToRef"}
	zzClaimMachine  = append(append([]string{"compositionRevisionRef"}, zzPropagated...), zzClaimOnly...)
	zzXRMachine     = []string{"claimRef", "resourceRefs"}
	zzStatusMachine = []string{"conditions", "connectionDetails", "claimConditionTypes"}
)

func zzNotIn(k string, sets ...[]string) {
	for _, s := range sets {
		for _, m := range s {
			zz.Assume(k != m)
		}
	}
}

func zzMachineryValue(field string) any {
	switch field {
	case "compositionRef":
		return map[string]any{"name": "comp-from-claim"}
	case "compositionSelector", "compositionRevisionSelector":
		return map[string]any{"matchLabels": map[string]any{"tier": "gold"}}
	case "compositionRevisionRef":
		return map[string]any{"name": "rev-from-claim"}
	case "compositeDeletePolicy":
		return "Foreground"
	case "resourceRef":
		return map[string]any{"apiVersion": "example.org/v1", "kind": "XR", "name": "xr-bound"}
	case "publishConnectionDetailsTo":
		return map[string]any{"name": "claim-publish"}
	case "writeConnectionSecretToRef":
		return map[string]any{"name": "claim-secret"}
	}
	return nil
}

// HarnessC07SyncSSA: what the server-side-apply syncer moves between a claim
// and its XR.
//
//gosym:harness
//gosym:cover bound-existing created-new reserved-label manual automatic manual-pin manual-pin-first-sync policy-edited xr-only-field
func HarnessC07SyncSSA() { zzC07Sync(true) }

// HarnessC07SyncCSA: the same for the client-side (merge based) syncer.
//
//gosym:harness
//gosym:cover bound-existing created-new reserved-label manual automatic claim-without-status manual-pin manual-pin-first-sync policy-edited xr-only-field
func HarnessC07SyncCSA() { zzC07Sync(false) }

func zzC07Sync(ssa bool) {
	s := kube.New()

	// ---- the claim
	cm := claim.New(claim.WithGroupVersionKind(zzClaimGVK))
	cm.SetName("cm")
	cm.SetNamespace("team")
	cm.SetUID("uid-claim")
	spec := map[string]any{}
	// user-defined fields with arbitrary names (not machinery names of either side)
	k0, k1 := zz.Str("claim.spec.key0"), zz.Str("claim.spec.key1")
	zz.Assume(k0 != k1)
	zzNotIn(k0, zzClaimMachine, zzXRMachine)
	zz.Assume(k0 != "xrOnlyUserField")
	zz.Assume(k1 != "xrOnlyUserField")
	zzNotIn(k1, zzClaimMachine, zzXRMachine)
	// a nested user object whose inner key may collide with a machinery name
	inner := zz.Str("claim.spec.nested.key")
	spec[k0] = "user-0"
	spec[k1] = map[string]any{inner: "user-nested"}
	// machinery: selection fields present or not; claim-only fields present or not
	hasSelection := zz.Bool("claim.selectionFields")
	policy := zz.Choose("updatePolicy", 3) // unset, Manual, Automatic
	if hasSelection {
		for _, f := range zzPropagated {
			if f != "compositionUpdatePolicy" {
				spec[f] = zzMachineryValue(f)
			}
		}
	}
	switch policy {
	case 1:
		spec["compositionUpdatePolicy"] = "Manual"
		zz.Cover("manual")
	case 2:
		spec["compositionUpdatePolicy"] = "Automatic"
		zz.Cover("automatic")
	}
	hasRevRef := zz.Bool("claim.compositionRevisionRef")
	if hasRevRef {
		spec["compositionRevisionRef"] = zzMachineryValue("compositionRevisionRef")
	}
	hasClaimOnly := zz.Bool("claim.claimOnlyFields")
	xrExists := zz.Bool("xr.exists")
	if hasClaimOnly {
		for _, f := range zzClaimOnly {
			if f == "resourceRef" && !xrExists {
				continue
			}
			spec[f] = zzMachineryValue(f)
		}
	} else if xrExists {
		spec["resourceRef"] = zzMachineryValue("resourceRef")
	}
	cm.Object["spec"] = spec
	// labels / annotations: a symbolic prefix decides whether they are reserved
	prefix := zz.StrNo("label.prefix", "/")
	lkey := prefix + "/name"
	cm.SetLabels(map[string]string{lkey: "lv", "plain": "pv"})
	cm.SetAnnotations(map[string]string{lkey: "av"})
	// the claim may carry an external-name annotation of its own
	switch zz.Choose("claim.externalName", 3) {
	case 1:
		cm.SetAnnotations(map[string]string{lkey: "av", "crossplane.io/external-name": "ext-xr"})
	case 2:
		cm.SetAnnotations(map[string]string{lkey: "av", "crossplane.io/external-name": "ext-claim-edited"})
	}
	claimHasStatus := true
	if !ssa {
		// the client-side syncer only merges XR status into an existing claim
		// status; a claim synced for the first time has none yet
		claimHasStatus = zz.Bool("claim.hasStatus")
		if claimHasStatus {
			cm.Object["status"] = map[string]any{}
		} else {
			zz.Cover("claim-without-status")
		}
	}
	reserved := zz.Or(zz.HasSuffix(prefix, "kubernetes.io"), zz.HasSuffix(prefix, "k8s.io"))
	s.Put(cm)

	// ---- the XR
	xr := composite.New(composite.WithGroupVersionKind(zzXRGVK))
	us0 := zz.Str("xr.status.key0")
	zzNotIn(us0, zzStatusMachine)
	xrHasCompRef := zz.Bool("xr.compositionRef")
	xrHasRevRef := zz.Bool("xr.compositionRevisionRef")
	xrOnlyField := xrExists && zz.Bool("xr.spec.fieldTheClaimLacks")
	if xrExists {
		zz.Cover("bound-existing")
		xr.SetName("xr-bound")
		xr.SetUID("uid-xr")
		xspec := map[string]any{
			"resourceRefs":               []any{map[string]any{"apiVersion": "example.org/v1", "kind": "Composed", "name": "cd-1"}},
			"writeConnectionSecretToRef": map[string]any{"name": "xr-secret", "namespace": "crossplane-system"},
			"claimRef":                   map[string]any{"apiVersion": "example.org/v1", "kind": "Claim", "name": "cm", "namespace": "team"},
		}
		// a user-defined field the claim no longer has (removed from the claim
		// since the last sync), or that something else wrote to the XR
		if xrOnlyField {
			xspec["xrOnlyUserField"] = "left-over"
		}
		if xrHasCompRef {
			xspec["compositionRef"] = map[string]any{"name": "comp-from-xr"}
		}
		if xrHasRevRef {
			xspec["compositionRevisionRef"] = map[string]any{"name": "rev-from-xr"}
		}
		// the XR carries the claim's policy as of the previous sync: the same, or -
		// when the claim was edited since - the other one
		xpolicy := policy
		if policy != 0 && zz.Bool("xr.policyFromBeforeAnEdit") {
			xpolicy = 3 - policy
			zz.Cover("policy-edited")
		}
		if xpolicy == 1 {
			xspec["compositionUpdatePolicy"] = "Manual"
		}
		if xpolicy == 2 {
			xspec["compositionUpdatePolicy"] = "Automatic"
		}
		xr.Object["spec"] = xspec
		xr.SetAnnotations(map[string]string{"crossplane.io/external-name": "ext-xr"})
		xr.Object["status"] = map[string]any{
			us0:                   "user-status",
			"conditions":          []any{map[string]any{"type": "Ready", "status": "True", "reason": "Available", "lastTransitionTime": "2024-01-01T00:00:00Z"}},
			"connectionDetails":   map[string]any{"lastPublishedTime": "2024-01-01T00:00:00Z"},
			"claimConditionTypes": []any{"Custom"},
		}
		s.Put(xr)
		xr = composite.New(composite.WithGroupVersionKind(zzXRGVK))
		s.Peek("", "xr-bound", xr)
	} else {
		zz.Cover("created-new")
	}

	read := claim.New(claim.WithGroupVersionKind(zzClaimGVK))
	s.Peek("team", "cm", read)
	var syncer CompositeSyncer = NewServerSideCompositeSyncer(s, names.NewNameGenerator(s))
	if !ssa {
		syncer = NewClientSideCompositeSyncer(s, names.NewNameGenerator(s))
	}
	err := syncer.Sync(context.Background(), read, xr)
	zz.Assert("sync-no-error", err == nil)
	if err != nil {
		return
	}

	// ---- claim -> XR
	xrName := read.GetResourceReference().Name
	xdoc := s.Doc(zzXRGVK.Group, zzXRGVK.Kind, "", xrName)
	zz.Assert("xr-exists-after-sync", xdoc != nil)
	if xdoc == nil {
		return
	}
	xspec, _ := xdoc["spec"].(map[string]any)
	zz.Assert("user-field-propagated", xspec[k0] == any("user-0"))
	nested, _ := xspec[k1].(map[string]any)
	zz.Assert("nested-user-field-propagated-whatever-its-inner-name", nested != nil && nested[inner] == any("user-nested"))
	for _, f := range zzPropagated {
		if f == "compositionUpdatePolicy" {
			continue
		}
		_, in := xspec[f]
		if hasSelection {
			zz.Assert("selection-field-propagated", in)
		} else if !(f == "compositionRef" && xrExists && xrHasCompRef) {
			zz.Assert("absent-selection-field-not-invented", !in)
		}
	}
	for _, f := range zzClaimOnly {
		if f == "writeConnectionSecretToRef" {
			// the XR has its own field of that name: the claim's value must not replace it
			w, _ := xspec[f].(map[string]any)
			if xrExists {
				zz.Assert("xr-keeps-its-own-connection-secret-ref", w != nil && w["name"] == any("xr-secret"))
			} else {
				zz.Assert("claim-connection-secret-ref-not-copied", w == nil)
			}
			continue
		}
		if f == "publishConnectionDetailsTo" {
			_, in := xspec[f]
			zz.Assert("claim-only-machinery-never-copied-to-xr", !in)
			continue
		}
		_, in := xspec[f]
		zz.Assert("claim-only-machinery-never-copied-to-xr", !in)
	}
	if policy != 1 && hasRevRef && !(xrExists && xrHasRevRef) {
		_, in := xspec["compositionRevisionRef"]
		zz.Assert("revision-ref-not-propagated-unless-manual", !in)
	}
	if policy == 1 && hasRevRef {
		// under the Manual policy the claim's pinned revision is the XR's: on the
		// first sync and right after the claim switched to Manual as well
		zz.Cover("manual-pin")
		if !xrExists {
			zz.Cover("manual-pin-first-sync")
		}
		zz.Assert("manual-policy-propagates-the-claims-revision-to-the-xr", reflect.DeepEqual(xspec["compositionRevisionRef"], zzMachineryValue("compositionRevisionRef")))
	}
	cr, _ := xspec["claimRef"].(map[string]any)
	zz.Assert("xr-claimref-names-the-claim", cr != nil && cr["name"] == any("cm") && cr["namespace"] == any("team"))
	if xrExists {
		refs, _ := xspec["resourceRefs"].([]any)
		zz.Assert("xr-keeps-its-composed-resource-refs", len(refs) == 1)
		md, _ := xdoc["metadata"].(map[string]any)
		ann, _ := md["annotations"].(map[string]any)
		zz.Assert("xr-keeps-its-external-name", ann["crossplane.io/external-name"] == any("ext-xr"))
	}
	md, _ := xdoc["metadata"].(map[string]any)
	labels, _ := md["labels"].(map[string]any)
	ann, _ := md["annotations"].(map[string]any)
	zz.Assert("plain-label-propagated", labels["plain"] == any("pv"))
	_, lin := labels[lkey]
	_, ain := ann[lkey]
	zz.Assert("label-propagated-iff-not-reserved", lin == !reserved)
	zz.Assert("annotation-propagated-iff-not-reserved", ain == !reserved)
	if lin {
		zz.Assert("propagated-label-value", labels[lkey] == any("lv"))
	} else {
		zz.Cover("reserved-label")
	}

	// ---- XR -> claim
	cdoc := s.Doc(zzClaimGVK.Group, zzClaimGVK.Kind, "team", "cm")
	cspec, _ := cdoc["spec"].(map[string]any)
	cstatus, _ := cdoc["status"].(map[string]any)
	if xrExists {
		if claimHasStatus {
			zz.Assert("user-status-field-reaches-claim", cstatus[us0] == any("user-status"))
		}
		for _, f := range zzStatusMachine {
			if f == "conditions" {
				continue
			}
			_, in := cstatus[f]
			zz.Assert("xr-status-machinery-never-copied-to-claim", !in)
		}
		conds, _ := cstatus["conditions"].([]any)
		for _, c := range conds {
			cmap, _ := c.(map[string]any)
			zz.Assert("xr-conditions-not-copied-to-claim", cmap["reason"] != any("Available"))
		}
		cref, _ := cspec["compositionRef"].(map[string]any)
		if hasSelection {
			zz.Assert("claim-keeps-its-own-composition-ref", cref != nil && cref["name"] == any("comp-from-claim"))
		} else if xrHasCompRef {
			zz.Assert("claim-takes-composition-ref-from-xr-when-it-has-none", cref != nil && cref["name"] == any("comp-from-xr"))
		} else {
			zz.Assert("no-composition-ref-invented", cref == nil)
		}
		rref, _ := cspec["compositionRevisionRef"].(map[string]any)
		if policy == 2 && xrHasRevRef {
			zz.Assert("automatic-policy-takes-revision-from-xr", rref != nil && rref["name"] == any("rev-from-xr"))
		} else if policy == 2 {
			// under Automatic the XR is authoritative for the revision: nothing
			// is asserted about a claim-side value the XR does not have
		} else if hasRevRef {
			zz.Assert("claim-keeps-its-revision-ref", rref != nil && rref["name"] == any("rev-from-claim"))
		} else {
			zz.Assert("no-revision-ref-invented", rref == nil)
		}
		cmd, _ := cdoc["metadata"].(map[string]any)
		cann, _ := cmd["annotations"].(map[string]any)
		zz.Assert("external-name-reaches-claim", cann["crossplane.io/external-name"] == any("ext-xr"))
	}
	rr, _ := cspec["resourceRef"].(map[string]any)
	zz.Assert("claim-references-the-xr", rr != nil && rr["name"] == any(xrName))
	zz.Observe("synced", xrExists, hasSelection)
	// last, because the client-side syncer is known to fail it (known_findings.txt):
	// a user-defined spec field only the XR has must not reach the claim
	if xrOnlyField {
		zz.Cover("xr-only-field")
		_, in := cspec["xrOnlyUserField"]
		zz.Assert("xr-user-spec-field-does-not-reach-the-claim", !in)
	}
}
