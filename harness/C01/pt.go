//go:build verif

//gosym:package github.com/crossplane/crossplane/internal/controller/apiextensions/composite
//gosym:file zz_c01_pt_verif.go

package composite

import (
	"context"

	zz "github.com/crossplane/crossplane/internal/zzverif"
	"github.com/crossplane/crossplane/internal/zzverif/kube"
)

// HarnessC01PT: the same three-reconcile scenario as HarnessC01Pipeline for
// the patch-and-transform composer with named templates.
//
//gosym:harness
//gosym:cover fault-hit created kept-name quiescent garbage-collected
func HarnessC01PT() {
	n := zz.Bound(2, 3)
	s := kube.New()
	pre := zzSetupComposed(s, n, "", false)

	desired := make([]bool, n)
	for i := range desired {
		desired[i] = zz.Bool("template" + string(rune('0'+i)))
	}
	c := NewPTComposer(s, s)
	req := CompositionRequest{Revision: zzPTRevision(desired, nil)}

	s.OnMutate = zzLeakInvariant(s)

	s.FaultAt = zz.Choose("fault.at", zz.Bound(14, 18)) - 1
	s.FaultKind = 1 + zz.Choose("fault.kind", 3)
	_, err1 := c.Compose(context.Background(), zzReadXR(s), req)
	if s.Faulted {
		zz.Cover("fault-hit")
	}
	s.FaultAt = -1
	if !s.Faulted {
		zz.Assert("fault-free-compose-succeeds", err1 == nil)
	}

	nameOf := func(res string) string {
		for _, cd := range zzStoredComposed(s) {
			if cd.resName == res && cd.controller == zzXRUIDc {
				return cd.name
			}
		}
		return ""
	}
	after1 := make([]string, n)
	for i := range after1 {
		after1[i] = nameOf(zzResNames[i])
	}

	_, err2 := c.Compose(context.Background(), zzReadXR(s), req)
	zz.Assert("second-reconcile-succeeds", err2 == nil)
	if err2 != nil {
		return
	}
	for i := 0; i < n; i++ {
		now := nameOf(zzResNames[i])
		if desired[i] {
			zz.Assert("desired-resource-exists", now != "")
			if after1[i] != "" {
				zz.Cover("kept-name")
				zz.Assert("composed-resource-name-never-changes", now == after1[i])
			} else {
				zz.Cover("created")
			}
			if pre[i].exists && pre[i].referenced && pre[i].owner == zzOwnOurs {
				zz.Assert("pre-existing-composed-resource-keeps-its-name", now == pre[i].name)
			}
		} else {
			if pre[i].exists && pre[i].referenced {
				zz.Cover("garbage-collected")
				// a referenced resource whose named template no longer exists is collected
				zz.Assert("undesired-resource-gone", now == "")
			}
		}
	}

	before := 0
	for _, w := range s.Writes(false) {
		if w.Effect {
			before++
		}
	}
	_, err3 := c.Compose(context.Background(), zzReadXR(s), req)
	zz.Assert("third-reconcile-succeeds", err3 == nil)
	after := 0
	for _, w := range s.Writes(false) {
		if w.Effect {
			after++
		}
	}
	zz.Cover("quiescent")
	zz.Assert("reconciling-a-converged-xr-changes-nothing", after == before)
	zz.Observe("composed", len(zzStoredComposed(s)), len(zzStoredRefNames(s)))
}
