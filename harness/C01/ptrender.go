//go:build verif

//gosym:package github.com/crossplane/crossplane/internal/controller/apiextensions/composite
//gosym:file zz_c01_ptrender_verif.go

package composite

import (
	"context"

	v1 "github.com/crossplane/crossplane/apis/apiextensions/v1"
	zz "github.com/crossplane/crossplane/internal/zzverif"
	"github.com/crossplane/crossplane/internal/zzverif/kube"
)

// zzSetXRSource edits the stored XR the way a user would: the source field of
// template i's required patch is present or absent.
func zzSetXRSource(s *kube.Store, i int, present bool) {
	doc := s.Doc("example.org", "XR", "", zzXRName)
	spec, _ := doc["spec"].(map[string]any)
	if spec == nil {
		spec = map[string]any{}
		doc["spec"] = spec
	}
	key := "src" + string(rune('0'+i))
	if present {
		spec[key] = "value"
	} else {
		delete(spec, key)
	}
}

// HarnessC01PTRender: three reconciles of the patch-and-transform composer in
// which each named template may fail to render (a Required patch whose
// source field the user has removed from the XR) in the first and in the
// second reconcile, and renders in the third. A resource that exists keeps
// its reference and its name through the reconciles that cannot render it,
// and no second resource is created for its template afterwards.
//
//gosym:harness
//gosym:cover render-failed-existing render-failed-new rendered-again kept-name
func HarnessC01PTRender() {
	const n = 2
	s := kube.New()
	pre := zzSetupComposed(s, n, "", false)
	c := NewPTComposer(s, s)
	policy := v1.FromFieldPathPolicyRequired
	req := CompositionRequest{Revision: zzPTRevision([]bool{true, true}, func(i int) []v1.Patch {
		from, to := "spec.src"+string(rune('0'+i)), "spec.field"
		return []v1.Patch{{Type: v1.PatchTypeFromCompositeFieldPath, FromFieldPath: &from, ToFieldPath: &to, Policy: &v1.PatchPolicy{FromFieldPath: &policy}}}
	})}
	s.OnMutate = zzLeakInvariant(s)

	nameOf := func(res string) string {
		for _, cd := range zzStoredComposed(s) {
			if cd.resName == res && cd.controller == zzXRUIDc {
				return cd.name
			}
		}
		return ""
	}
	names := make([]string, n)
	for i := range names {
		if pre[i].exists && pre[i].referenced && pre[i].owner == zzOwnOurs {
			names[i] = pre[i].name
		}
	}
	for round := 0; round < 3; round++ {
		for i := 0; i < n; i++ {
			renders := round == 2 || zz.Bool("round"+string(rune('0'+round))+".template"+string(rune('0'+i))+".renders")
			zzSetXRSource(s, i, renders)
			if !renders {
				if names[i] != "" {
					zz.Cover("render-failed-existing")
				} else {
					zz.Cover("render-failed-new")
				}
			} else if round > 0 && names[i] != "" {
				zz.Cover("rendered-again")
			}
		}
		_, err := c.Compose(context.Background(), zzReadXR(s), req)
		zz.Assert("compose-with-unrenderable-templates-is-not-an-error", err == nil)
		if err != nil {
			return
		}
		for i := 0; i < n; i++ {
			now := nameOf(zzResNames[i])
			if names[i] != "" {
				zz.Cover("kept-name")
				zz.Assert("existing-composed-resource-keeps-its-name", now == names[i])
			}
			names[i] = now
		}
	}
	for i := 0; i < n; i++ {
		zz.Assert("every-template-has-its-resource-in-the-end", names[i] != "")
	}
	zz.Observe("composed", len(zzStoredComposed(s)), len(zzStoredRefNames(s)))
}
