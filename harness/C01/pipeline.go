//go:build verif

//gosym:package github.com/crossplane/crossplane/internal/controller/apiextensions/composite
//gosym:file zz_c01_pipeline_verif.go

package composite

import (
	"context"

	zz "github.com/crossplane/crossplane/internal/zzverif"
	"github.com/crossplane/crossplane/internal/zzverif/kube"
)

// HarnessC01Pipeline: three reconciles of the function-pipeline composer on
// one store. The first may be interrupted by an API failure at any call; the
// desired set is the same in all three. At every instant a composed resource
// controlled by the XR is referenced by the XR; names never change; the third
// reconcile changes nothing.
//
//gosym:harness
//gosym:cover fault-hit created kept-name quiescent garbage-collected explicit-name
func HarnessC01Pipeline() {
	n := zz.Bound(2, 3)
	s := kube.New()
	// (thorough: the third candidate's pre-state is fixed - it exists, is
	// referenced and controlled by the XR; whether it is desired is symbolic)
	pre := zzSetupComposedN(s, n, 2, "", false)

	desired := make([]bool, n)
	for i := range desired {
		desired[i] = zz.Bool("desired" + string(rune('0'+i)))
	}
	runner := &zzRunner{steps: []zzStep{{desired: desired}}}
	c := NewFunctionComposer(s, s, runner)
	req := CompositionRequest{Revision: zzRevision(1)}

	s.OnMutate = zzLeakInvariant(s)

	// R1, possibly interrupted
	s.FaultAt = zz.Choose("fault.at", zz.Bound(14, 18)) - 1
	s.FaultKind = 1 + zz.Choose("fault.kind", 3) // error without effect, error after effect, conflict
	_, err1 := c.Compose(context.Background(), zzReadXR(s), req)
	if s.Faulted {
		zz.Cover("fault-hit")
	}
	s.FaultAt = -1
	if !s.Faulted {
		zz.Assert("fault-free-compose-succeeds", err1 == nil)
	}

	// names after R1 (or in the pre-state) per desired resource name
	nameOf := func(res string) string {
		for _, cd := range zzStoredComposed(s) {
			if cd.resName == res && cd.controller == zzXRUIDc {
				return cd.name
			}
		}
		return ""
	}
	after1 := make([]string, n)
	for i := range after1 {
		after1[i] = nameOf(zzResNames[i])
	}

	// from now on the function may give the first desired resource an explicit
	// metadata.name of its own
	// (a fresh name or the name the resource had in the pre-state; never the
	// name of another composed resource, which no arrangement could honour)
	namesChoice := 0
	if !s.Faulted {
		// (explored only when the first reconcile was not interrupted: the two
		// dimensions are independent and their product is large)
		namesChoice = zz.Choose("function.namesFirstResource", 3)
	}
	switch namesChoice {
	case 1:
		runner.steps[0].names = []string{"explicit-a"}
		zz.Cover("explicit-name")
	case 2:
		runner.steps[0].names = []string{pre[0].name}
		zz.Cover("explicit-name")
	}

	// R2 (a retry if R1 failed)
	_, err2 := c.Compose(context.Background(), zzReadXR(s), req)
	zz.Assert("second-reconcile-succeeds", err2 == nil)
	if err2 != nil {
		return
	}
	for i := 0; i < n; i++ {
		now := nameOf(zzResNames[i])
		if desired[i] {
			zz.Assert("desired-resource-exists", now != "")
			if after1[i] != "" {
				zz.Cover("kept-name")
				zz.Assert("composed-resource-name-never-changes", now == after1[i])
			} else {
				zz.Cover("created")
			}
			if pre[i].exists && pre[i].referenced && pre[i].owner == zzOwnOurs {
				zz.Assert("pre-existing-composed-resource-keeps-its-name", now == pre[i].name)
			}
		} else {
			if pre[i].exists && pre[i].referenced {
				zz.Cover("garbage-collected")
			}
			zz.Assert("undesired-resource-gone", now == "")
		}
	}

	// R3: the composed state matches the desired state; nothing changes
	before := 0
	for _, w := range s.Writes(false) {
		if w.Effect {
			before++
		}
	}
	_, err3 := c.Compose(context.Background(), zzReadXR(s), req)
	zz.Assert("third-reconcile-succeeds", err3 == nil)
	after := 0
	for _, w := range s.Writes(false) {
		if w.Effect {
			after++
		}
	}
	zz.Cover("quiescent")
	zz.Assert("reconciling-a-converged-xr-changes-nothing", after == before)
	zz.Observe("composed", len(zzStoredComposed(s)), len(zzStoredRefNames(s)))
}

// HarnessC01PipelineOrders: the same composer with Go's map iteration order
// made a decision point (the desired and observed states are Go maps): two
// reconciles on one store, the first from an arbitrary consistent pre-state,
// for every order in which each range over a two- or three-entry map in
// Compose, AsState, the garbage collector and UpdateResourceRefs may run. The
// second reconcile changes nothing whichever orders were used, and the
// references name the desired resources in the same order. Quick: two
// resources, orders explored in the second reconcile only; thorough: in both.
//
//gosym:harness
//gosym:maporders FunctionComposer).Compose composite.AsState GarbageCollectComposedResources composite.UpdateResourceRefs
//gosym:cover quiescent
func HarnessC01PipelineOrders() {
	zzPipelineOrders(2, zz.Tier() == "thorough")
}

// HarnessC01PipelineOrdersWide: three resources; orders explored in the
// second reconcile, in the functions that write (garbage collector and
// reference update) and in the observed-state conversion.
//
//gosym:harness thorough
//gosym:maporders composite.AsState GarbageCollectComposedResources composite.UpdateResourceRefs
//gosym:cover quiescent
func HarnessC01PipelineOrdersWide() {
	zzPipelineOrders(3, false)
}

func zzPipelineOrders(n int, both bool) {
	s := kube.New()
	zzSetupComposedN(s, n, 1, "", false)
	desired := make([]bool, n)
	for i := range desired {
		desired[i] = true
	}
	runner := &zzRunner{steps: []zzStep{{desired: desired}}}
	c := NewFunctionComposer(s, s, runner)
	req := CompositionRequest{Revision: zzRevision(1)}
	s.OnMutate = zzLeakInvariant(s)

	zz.MapOrders(both)
	_, err1 := c.Compose(context.Background(), zzReadXR(s), req)
	zz.Assert("first-reconcile-succeeds", err1 == nil)
	if err1 != nil {
		return
	}
	refs1 := zzStoredRefNames(s)
	before := 0
	for _, w := range s.Writes(false) {
		if w.Effect {
			before++
		}
	}
	zz.MapOrders(true)
	_, err2 := c.Compose(context.Background(), zzReadXR(s), req)
	zz.MapOrders(false)
	zz.Assert("second-reconcile-succeeds", err2 == nil)
	after := 0
	for _, w := range s.Writes(false) {
		if w.Effect {
			after++
		}
	}
	zz.Cover("quiescent")
	zz.Assert("converged-xr-unchanged-under-every-map-order", after == before)
	refs2 := zzStoredRefNames(s)
	zz.Assert("one-reference-per-desired-resource", len(refs1) == n && len(refs2) == n)
	for i := 0; i < len(refs1) && i < len(refs2); i++ {
		zz.Assert("reference-order-independent-of-map-iteration-order", refs1[i] == refs2[i])
	}
}

// HarnessC01NamespacedOrders: two desired resources of one kind that the
// function gives the same metadata.name in two namespaces, with the map
// iteration order in UpdateResourceRefs a decision point: once composed, a
// further reconcile changes nothing whichever order the desired state is
// walked in (the references differ in their namespace only).
//
//gosym:harness
//gosym:maporders composite.UpdateResourceRefs
//gosym:cover quiescent
func HarnessC01NamespacedOrders() {
	s := kube.New()
	zzSetupComposedN(s, 0, 0, "", false)
	st := zzStep{desired: []bool{true, true}, names: []string{"same", "same"}, namespaces: []string{"team-a", "team-b"}}
	runner := &zzRunner{steps: []zzStep{st}}
	c := NewFunctionComposer(s, s, runner)
	req := CompositionRequest{Revision: zzRevision(1)}
	zz.MapOrders(false)
	for k := 0; k < 2; k++ {
		_, err := c.Compose(context.Background(), zzReadXR(s), req)
		zz.Assert("reconcile-succeeds", err == nil)
		if err != nil {
			return
		}
	}
	zz.Assert("both-resources-exist", s.Exists(zzCDGroup, zzCDKind, "team-a", "same") && s.Exists(zzCDGroup, zzCDKind, "team-b", "same"))
	before := 0
	for _, w := range s.Writes(false) {
		if w.Effect {
			before++
		}
	}
	zz.MapOrders(true)
	_, err := c.Compose(context.Background(), zzReadXR(s), req)
	zz.MapOrders(false)
	zz.Assert("third-reconcile-succeeds", err == nil)
	after := 0
	for _, w := range s.Writes(false) {
		if w.Effect {
			after++
		}
	}
	zz.Cover("quiescent")
	zz.Assert("converged-xr-unchanged-under-every-map-order", after == before)
}

// HarnessC01Namespaced: the pipeline composer with namespaced composed
// resources (the function puts metadata.namespace on what it desires): three
// reconciles of a fresh XR. The resources created by the first are found
// again by the second - none is created twice, none is left unreferenced -
// and the third changes nothing.
//
//gosym:harness
//gosym:cover created quiescent
func HarnessC01Namespaced() {
	n := zz.Bound(2, 3)
	s := kube.New()
	zzSetupComposedN(s, 0, 0, "", false)
	desired := make([]bool, n)
	for i := range desired {
		desired[i] = i == 0 || zz.Bool("desired"+string(rune('0'+i)))
	}
	runner := &zzRunner{steps: []zzStep{{desired: desired, namespace: "team-a"}}}
	c := NewFunctionComposer(s, s, runner)
	req := CompositionRequest{Revision: zzRevision(1)}
	s.OnMutate = zzLeakInvariant(s)
	_, err := c.Compose(context.Background(), zzReadXR(s), req)
	zz.Assert("first-reconcile-succeeds", err == nil)
	want := 0
	for _, d := range desired {
		if d {
			want++
		}
	}
	zz.Cover("created")
	zz.Assert("one-composed-resource-per-desired-name", len(zzStoredComposed(s)) == want)
	names := map[string]string{}
	for _, cd := range zzStoredComposed(s) {
		names[cd.resName] = cd.name
	}
	_, err = c.Compose(context.Background(), zzReadXR(s), req)
	zz.Assert("second-reconcile-succeeds", err == nil)
	zz.Assert("no-composed-resource-created-twice", len(zzStoredComposed(s)) == want)
	for _, cd := range zzStoredComposed(s) {
		zz.Assert("composed-resource-name-never-changes", names[cd.resName] == cd.name)
	}
	zz.Assert("one-reference-per-desired-resource", len(zzStoredRefNames(s)) == want)
	before := 0
	for _, w := range s.Writes(false) {
		if w.Effect {
			before++
		}
	}
	_, err = c.Compose(context.Background(), zzReadXR(s), req)
	zz.Assert("third-reconcile-succeeds", err == nil)
	after := 0
	for _, w := range s.Writes(false) {
		if w.Effect {
			after++
		}
	}
	zz.Cover("quiescent")
	zz.Assert("reconciling-a-converged-xr-changes-nothing", after == before)
}
