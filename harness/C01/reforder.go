//go:build verif

//gosym:package github.com/crossplane/crossplane/internal/controller/apiextensions/composite
//gosym:file zz_c01_reforder_verif.go

package composite

import (
	"github.com/crossplane/crossplane-runtime/pkg/resource/unstructured/composed"
	"github.com/crossplane/crossplane-runtime/pkg/resource/unstructured/composite"

	zz "github.com/crossplane/crossplane/internal/zzverif"
)

// HarnessC01RefOrder: the resource references written to the XR are a
// function of the set of desired resources, not of the order in which Go
// happens to iterate the desired-state map - otherwise a converged XR would
// be rewritten on every reconcile. Two or three desired resources with
// kinds and names from a table (equal names under different kinds, and pairs
// whose concatenations collide, included),
// presented in two different orders, yield the same reference list.
//
//gosym:harness
//gosym:cover same-name-other-kind reordered
func HarnessC01RefOrder() {
	n := zz.Bound(2, 3)
	kinds := make([]string, n)
	names := make([]string, n)
	for i := 0; i < n; i++ {
		id := string(rune('0' + i))
		// kinds and names from small tables that include pairs whose plain
		// concatenation collides (Foo+bar = Foob+ar): ordering symbolic strings
		// lexicographically is beyond what the solvers here decide in time
		kinds[i] = []string{"Foo", "Foob", "Bar"}[zz.Choose("res"+id+".kind", 3)]
		names[i] = []string{"bar", "ar", "x"}[zz.Choose("res"+id+".name", 3)]
		for j := 0; j < i; j++ {
			// two desired resources are never the same object
			zz.Assume(zz.Or(kinds[i] != kinds[j], names[i] != names[j]))
		}
	}
	if zz.Bool("witness.sameName") {
		zz.Assume(zz.And(names[0] == names[1], kinds[0] != kinds[1]))
		zz.Cover("same-name-other-kind")
	}
	mk := func(i int) ComposedResourceState {
		cd := composed.New()
		cd.SetAPIVersion("example.org/v1")
		cd.SetKind(kinds[i])
		cd.SetName(names[i])
		return ComposedResourceState{Resource: cd}
	}
	order := func(perm []int) []string {
		desired := ComposedResourceStates{}
		for _, i := range perm {
			desired[ResourceName("res-"+string(rune('a'+i)))] = mk(i)
		}
		xr := composite.New()
		UpdateResourceRefs(xr, desired)
		var out []string
		for _, r := range xr.GetResourceReferences() {
			out = append(out, r.Kind+"/"+r.Name)
		}
		return out
	}
	fwd := make([]int, n)
	rev := make([]int, n)
	for i := 0; i < n; i++ {
		fwd[i], rev[i] = i, n-1-i
	}
	a, b := order(fwd), order(rev)
	zz.Cover("reordered")
	zz.Assert("one-reference-per-desired-resource", len(a) == n && len(b) == n)
	for i := 0; i < n && i < len(a) && i < len(b); i++ {
		zz.Assert("reference-order-independent-of-map-iteration-order", a[i] == b[i])
	}
}
