//go:build verif

//gosym:package github.com/crossplane/crossplane/internal/controller/pkg/revision
//gosym:file zz_c15_install_verif.go

package revision

import (
	"context"
	"io"
	"reflect"
	"strings"
	"unsafe"

	"github.com/Masterminds/semver"
	admv1 "k8s.io/api/admissionregistration/v1"
	corev1 "k8s.io/api/core/v1"
	extv1 "k8s.io/apiextensions-apiserver/pkg/apis/apiextensions/v1"
	metav1 "k8s.io/apimachinery/pkg/apis/meta/v1"
	"k8s.io/apimachinery/pkg/runtime"
	"k8s.io/apimachinery/pkg/types"
	"k8s.io/utils/ptr"
	"sigs.k8s.io/controller-runtime/pkg/client"
	"sigs.k8s.io/controller-runtime/pkg/manager"
	"sigs.k8s.io/controller-runtime/pkg/reconcile"

	xpv1 "github.com/crossplane/crossplane-runtime/apis/common/v1"
	"github.com/crossplane/crossplane-runtime/pkg/feature"
	"github.com/crossplane/crossplane-runtime/pkg/parser"

	apiextv1 "github.com/crossplane/crossplane/apis/apiextensions/v1"
	pkgmetav1 "github.com/crossplane/crossplane/apis/pkg/meta/v1"
	v1 "github.com/crossplane/crossplane/apis/pkg/v1"
	"github.com/crossplane/crossplane/apis/pkg/v1beta1"
	"github.com/crossplane/crossplane/internal/features"
	"github.com/crossplane/crossplane/internal/xpkg"
	zz "github.com/crossplane/crossplane/internal/zzverif"
	"github.com/crossplane/crossplane/internal/zzverif/kube"
)

// zzMakePackage builds a parser.Package holding the given objects (its fields
// are unexported; the engine intercepts this function).
func zzMakePackage(meta, objs []runtime.Object) *parser.Package {
	p := parser.NewPackage()
	v := reflect.ValueOf(p).Elem()
	m := v.FieldByName("meta")
	reflect.NewAt(m.Type(), unsafe.Pointer(m.UnsafeAddr())).Elem().Set(reflect.ValueOf(meta))
	o := v.FieldByName("objects")
	reflect.NewAt(o.Type(), unsafe.Pointer(o.UnsafeAddr())).Elem().Set(reflect.ValueOf(objs))
	return p
}

type zzMgr15 struct {
	manager.Manager
	c client.Client
}

func (m *zzMgr15) GetClient() client.Client { return m.c }

type zzCache struct{}

func (zzCache) Has(string) bool                        { return true }
func (zzCache) Get(string) (io.ReadCloser, error)      { return io.NopCloser(strings.NewReader("")), nil }
func (zzCache) Store(string, io.ReadCloser) error      { return nil }
func (zzCache) Delete(string) error                    { return nil }

type zzParser struct{ pkg *parser.Package }

func (p zzParser) Parse(context.Context, io.ReadCloser) (*parser.Package, error) { return p.pkg, nil }

type zzVersioner struct{ in bool }

func (zzVersioner) GetVersionString() string               { return "v1.18.0" }
func (zzVersioner) GetSemVer() (*semver.Version, error)    { return semver.NewVersion("v1.18.0") }
func (v zzVersioner) InConstraints(string) (bool, error)   { return v.in, nil }

type zzEstablisher struct {
	calls   int
	objects []runtime.Object
	control bool
}

func (e *zzEstablisher) Establish(_ context.Context, objs []runtime.Object, _ v1.PackageRevision, control bool) ([]xpv1.TypedReference, error) {
	e.calls++
	e.objects = objs
	e.control = control
	return nil, nil
}
func (e *zzEstablisher) ReleaseObjects(context.Context, v1.PackageRevision) error { return nil }

type zzLock struct{}

func (zzLock) Resolve(context.Context, pkgmetav1.Pkg, v1.PackageRevision) (int, int, int, error) {
	return 0, 0, 0, nil
}
func (zzLock) RemoveSelf(context.Context, v1.PackageRevision) error { return nil }

type zzCfg struct{}

func (zzCfg) PullSecretFor(context.Context, string) (string, string, error) { return "", "", nil }
func (zzCfg) ImageVerificationConfigFor(context.Context, string) (string, *v1beta1.ImageVerification, error) {
	return "", nil, nil
}

const (
	zzKindCRD = iota
	zzKindMutatingWebhook
	zzKindValidatingWebhook
	zzKindXRD
	zzKindComposition
	zzKindSecret
	zzObjKinds
)

func zzObject(kind int, name string) runtime.Object {
	switch kind {
	case zzKindCRD:
		return &extv1.CustomResourceDefinition{ObjectMeta: metav1.ObjectMeta{Name: name}}
	case zzKindMutatingWebhook:
		return &admv1.MutatingWebhookConfiguration{ObjectMeta: metav1.ObjectMeta{Name: name}}
	case zzKindValidatingWebhook:
		return &admv1.ValidatingWebhookConfiguration{ObjectMeta: metav1.ObjectMeta{Name: name}}
	case zzKindXRD:
		return &apiextv1.CompositeResourceDefinition{ObjectMeta: metav1.ObjectMeta{Name: name}}
	case zzKindComposition:
		return &apiextv1.Composition{ObjectMeta: metav1.ObjectMeta{Name: name}}
	}
	return &corev1.Secret{ObjectMeta: metav1.ObjectMeta{Name: name}}
}

// zzInstall runs one revision reconcile on the cache-hit path for the given
// package type (0 provider, 1 configuration, 2 function) and checks what is established.
func zzInstall(pkgType int) {
	s := kube.New()
	s.Register(&v1.ProviderRevision{}, &v1.ProviderRevisionList{}, "pkg.crossplane.io", "ProviderRevision")
	s.Register(&v1.ConfigurationRevision{}, &v1.ConfigurationRevisionList{}, "pkg.crossplane.io", "ConfigurationRevision")
	s.Register(&v1.FunctionRevision{}, &v1.FunctionRevisionList{}, "pkg.crossplane.io", "FunctionRevision")

	// package content: metadata objects and other objects
	nMeta := zz.Choose("meta.count", 3)
	var metas []runtime.Object
	metaKinds := make([]int, 0, nMeta)
	constrained := false
	for i := 0; i < nMeta; i++ {
		k := zz.Choose("meta"+string(rune('0'+i))+".kind", 3)
		metaKinds = append(metaKinds, k)
		var cc *pkgmetav1.CrossplaneConstraints
		if i == 0 && zz.Bool("meta0.constraints") {
			cc = &pkgmetav1.CrossplaneConstraints{Version: ">=v1.0.0"}
			constrained = true
		}
		switch k {
		case 0:
			metas = append(metas, &pkgmetav1.Provider{ObjectMeta: metav1.ObjectMeta{Name: "m"}, Spec: pkgmetav1.ProviderSpec{MetaSpec: pkgmetav1.MetaSpec{Crossplane: cc}}})
		case 1:
			metas = append(metas, &pkgmetav1.Configuration{ObjectMeta: metav1.ObjectMeta{Name: "m"}, Spec: pkgmetav1.ConfigurationSpec{MetaSpec: pkgmetav1.MetaSpec{Crossplane: cc}}})
		default:
			metas = append(metas, &pkgmetav1.Function{ObjectMeta: metav1.ObjectMeta{Name: "m"}, Spec: pkgmetav1.FunctionSpec{MetaSpec: pkgmetav1.MetaSpec{Crossplane: cc}}})
		}
	}
	maxObj := zz.Bound(3, 4)
	if pkgType == 2 {
		// the function linter does not restrict object kinds: fewer objects
		maxObj = zz.Bound(2, 3)
	}
	nObj := zz.Choose("objects.count", maxObj)
	var objs []runtime.Object
	objKinds := make([]int, 0, nObj)
	for i := 0; i < nObj; i++ {
		k := zz.Choose("obj"+string(rune('0'+i))+".kind", zzObjKinds)
		objKinds = append(objKinds, k)
		objs = append(objs, zzObject(k, "o"+string(rune('0'+i))))
	}
	pkg := zzMakePackage(metas, objs)

	// the revision
	verified := zz.Choose("verified", 3) // no condition, True, False
	active := zz.Bool("active")
	ignoreConstraints := zz.Choose("ignoreConstraints", 3) // unset, false, true
	var pr v1.PackageRevision
	var linter parser.Linter
	if pkgType == 0 {
		pr = &v1.ProviderRevision{ObjectMeta: metav1.ObjectMeta{Name: "rev", UID: "uid-rev"}}
		linter = xpkg.NewProviderLinter()
	} else if pkgType == 2 {
		pr = &v1.FunctionRevision{ObjectMeta: metav1.ObjectMeta{Name: "rev", UID: "uid-rev"}}
		linter = xpkg.NewFunctionLinter()
	} else {
		pr = &v1.ConfigurationRevision{ObjectMeta: metav1.ObjectMeta{Name: "rev", UID: "uid-rev"}}
		linter = xpkg.NewConfigurationLinter()
	}
	pr.SetSource("xpkg.example.org/org/pkg:v1.0.0")
	pr.SetDesiredState(v1.PackageRevisionInactive)
	if active {
		pr.SetDesiredState(v1.PackageRevisionActive)
	}
	switch ignoreConstraints {
	case 1:
		pr.SetIgnoreCrossplaneConstraints(ptr.To(false))
	case 2:
		pr.SetIgnoreCrossplaneConstraints(ptr.To(true))
	}
	switch verified {
	case 1:
		pr.SetConditions(v1.VerificationSucceeded("cfg"))
	case 2:
		pr.SetConditions(v1.VerificationFailed("cfg", errString15("bad signature")))
	}
	s.Put(pr)

	verification := zz.Bool("signatureVerificationEnabled")
	flags := &feature.Flags{}
	if verification {
		flags.Enable(features.EnableAlphaSignatureVerification)
	}
	inConstraints := zz.Bool("versioner.inConstraints")
	est := &zzEstablisher{}
	newRev := func() v1.PackageRevision { return &v1.ProviderRevision{} }
	if pkgType == 1 {
		newRev = func() v1.PackageRevision { return &v1.ConfigurationRevision{} }
	}
	if pkgType == 2 {
		newRev = func() v1.PackageRevision { return &v1.FunctionRevision{} }
	}
	r := NewReconciler(&zzMgr15{c: s},
		WithNewPackageRevisionFn(newRev),
		WithCache(zzCache{}),
		WithParser(zzParser{pkg: pkg}),
		WithLinter(linter),
		WithVersioner(zzVersioner{in: inConstraints}),
		WithEstablisher(est),
		WithDependencyManager(zzLock{}),
		WithConfigStore(zzCfg{}),
		WithFeatureFlags(flags),
	)
	_, _ = r.Reconcile(context.Background(), reconcile.Request{NamespacedName: types.NamespacedName{Name: "rev"}})

	if est.calls == 0 {
		zz.Cover("not-installed")
		return
	}
	zz.Cover("installed")
	zz.Assert("established-once", est.calls == 1)
	zz.Assert("package-with-no-or-several-metadata-never-installed", nMeta == 1)
	if nMeta != 1 {
		return
	}
	zz.Assert("metadata-of-another-package-type-never-installed", metaKinds[0] == pkgType)
	for _, k := range objKinds {
		if pkgType == 0 {
			zz.Assert("provider-package-installs-only-permitted-kinds", k == zzKindCRD || k == zzKindMutatingWebhook || k == zzKindValidatingWebhook)
		} else if pkgType == 1 {
			zz.Assert("configuration-package-installs-only-permitted-kinds", k == zzKindXRD || k == zzKindComposition)
		}
	}
	if constrained && ignoreConstraints != 2 {
		zz.Cover("constraints-checked")
		zz.Assert("unmet-crossplane-constraints-never-installed", inConstraints)
	}
	if verification {
		zz.Cover("verification-on")
		zz.Assert("unverified-package-never-installed", verified == 1)
	}
	// exactly the objects of the package stream
	same := len(est.objects) == len(objs)
	for i := range objs {
		same = same && i < len(est.objects) && est.objects[i] == objs[i]
	}
	zz.Assert("established-objects-are-exactly-the-package-objects", same)
	zz.Assert("only-an-active-revision-controls", est.control == active)
	zz.Observe("installed", len(est.objects))
}

type errString15 string

func (e errString15) Error() string { return string(e) }

// HarnessC15Provider: what a provider revision installs.
//
//gosym:harness
//gosym:cover installed not-installed constraints-checked verification-on
func HarnessC15Provider() { zzInstall(0) }

// HarnessC15Configuration: what a configuration revision installs.
//
//gosym:harness
//gosym:cover installed not-installed constraints-checked verification-on
func HarnessC15Configuration() { zzInstall(1) }

// HarnessC15Function: what a function revision installs (the function linter
// restricts the metadata, not the kinds of the other objects).
//
//gosym:harness
//gosym:cover installed not-installed constraints-checked verification-on
func HarnessC15Function() { zzInstall(2) }
