//go:build verif

//gosym:package github.com/crossplane/crossplane/internal/controller/pkg/revision
//gosym:file zz_c15_gate_verif.go

package revision

import (
	"context"

	metav1 "k8s.io/apimachinery/pkg/apis/meta/v1"
	"k8s.io/apimachinery/pkg/runtime"
	"k8s.io/apimachinery/pkg/types"
	"sigs.k8s.io/controller-runtime/pkg/reconcile"

	"github.com/crossplane/crossplane-runtime/pkg/feature"

	pkgmetav1 "github.com/crossplane/crossplane/apis/pkg/meta/v1"
	v1 "github.com/crossplane/crossplane/apis/pkg/v1"
	"github.com/crossplane/crossplane/internal/features"
	"github.com/crossplane/crossplane/internal/xpkg"
	zz "github.com/crossplane/crossplane/internal/zzverif"
	"github.com/crossplane/crossplane/internal/zzverif/kube"
)

// HarnessC15Gate: with signature verification enabled a valid package is
// established only by a reconcile that saw Verified=True - over up to three
// reconciles in a row of a revision in any earlier state (Healthy absent,
// waiting, True or False; finalizer present or not), the Verified condition
// possibly changing between them.
//
//gosym:harness
//gosym:cover gated installed-after-verification never-verified verification-off
func HarnessC15Gate() {
	s := kube.New()
	s.Register(&v1.ProviderRevision{}, &v1.ProviderRevisionList{}, "pkg.crossplane.io", "ProviderRevision")

	metas := []runtime.Object{&pkgmetav1.Provider{ObjectMeta: metav1.ObjectMeta{Name: "m"}}}
	objs := []runtime.Object{zzObject(zzKindCRD, "o0")}
	pkg := zzMakePackage(metas, objs)

	pr := &v1.ProviderRevision{ObjectMeta: metav1.ObjectMeta{Name: "rev", UID: "uid-rev"}}
	pr.SetSource("xpkg.example.org/org/pkg:v1.0.0")
	pr.SetDesiredState(v1.PackageRevisionActive)
	if zz.Bool("revision.hasFinalizer") {
		pr.Finalizers = []string{finalizer}
	}
	switch zz.Choose("revision.healthy", 4) {
	case 1:
		pr.SetConditions(v1.AwaitingVerification())
	case 2:
		pr.SetConditions(v1.Healthy())
	case 3:
		pr.SetConditions(v1.Unhealthy())
	}
	setVerified := func(p v1.PackageRevision, st int) {
		switch st {
		case 1:
			p.SetConditions(v1.VerificationSucceeded("cfg"))
		case 2:
			p.SetConditions(v1.VerificationFailed("cfg", errString15("bad signature")))
		case 3:
			p.SetConditions(v1.VerificationIncomplete(errString15("registry down")))
		}
	}
	verified := zz.Choose("verified.initially", 4) // absent, True, False, incomplete
	setVerified(pr, verified)
	s.Put(pr)

	verification := zz.Bool("signatureVerificationEnabled")
	flags := &feature.Flags{}
	if verification {
		flags.Enable(features.EnableAlphaSignatureVerification)
	} else {
		zz.Cover("verification-off")
	}
	est := &zzEstablisher{}
	r := NewReconciler(&zzMgr15{c: s},
		WithNewPackageRevisionFn(func() v1.PackageRevision { return &v1.ProviderRevision{} }),
		WithCache(zzCache{}),
		WithParser(zzParser{pkg: pkg}),
		WithLinter(xpkg.NewProviderLinter()),
		WithVersioner(zzVersioner{in: true}),
		WithEstablisher(est),
		WithDependencyManager(zzLock{}),
		WithConfigStore(zzCfg{}),
		WithFeatureFlags(flags),
	)
	everVerified := false
	rounds := zz.Bound(3, 3)
	for k := 0; k < rounds; k++ {
		if k > 0 && zz.Bool("verified.changes.before.round"+string(rune('0'+k))) {
			// the signature controller reports between two reconciles
			cur := &v1.ProviderRevision{}
			s.Peek("", "rev", cur)
			verified = zz.Choose("verified.round"+string(rune('0'+k)), 4)
			if verified == 0 {
				verified = 2
			}
			setVerified(cur, verified)
			s.Put(cur)
		}
		before := est.calls
		_, _ = r.Reconcile(context.Background(), reconcile.Request{NamespacedName: types.NamespacedName{Name: "rev"}})
		if est.calls > before && verification {
			zz.Assert("established-only-by-a-reconcile-that-saw-verified-true", verified == 1)
			if verified == 1 && k > 0 {
				zz.Cover("installed-after-verification")
			}
		}
		if verified == 1 {
			everVerified = true
		}
		if verification && verified != 1 && est.calls == before {
			zz.Cover("gated")
		}
	}
	if verification && !everVerified {
		zz.Cover("never-verified")
		zz.Assert("never-verified-package-never-installed", est.calls == 0)
	}
	zz.Observe("established", est.calls)
}
