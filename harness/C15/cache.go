//go:build verif

//gosym:package github.com/crossplane/crossplane/internal/controller/pkg/revision
//gosym:file zz_c15_cache_verif.go

package revision

import (
	"context"
	"errors"
	"io"
	"strings"

	extv1 "k8s.io/apiextensions-apiserver/pkg/apis/apiextensions/v1"
	metav1 "k8s.io/apimachinery/pkg/apis/meta/v1"
	"k8s.io/apimachinery/pkg/runtime"
	"k8s.io/apimachinery/pkg/types"
	"sigs.k8s.io/controller-runtime/pkg/reconcile"

	"github.com/crossplane/crossplane-runtime/pkg/feature"
	"github.com/crossplane/crossplane-runtime/pkg/parser"

	pkgmetav1 "github.com/crossplane/crossplane/apis/pkg/meta/v1"
	v1 "github.com/crossplane/crossplane/apis/pkg/v1"
	"github.com/crossplane/crossplane/internal/xpkg"
	zz "github.com/crossplane/crossplane/internal/zzverif"
	"github.com/crossplane/crossplane/internal/zzverif/kube"
)

const zzStream = "the-package-stream-of-the-image"

// zzMemCache is a package cache over a map. A Store that fails does so after
// it has consumed the whole stream (as a compressing writer that buffers
// does) and leaves the first bytes behind, like a file written in part.
type zzMemCache struct {
	entries  map[string]string
	failNext bool
	keep     int
	stores   int
	deletes  int
}

func (c *zzMemCache) Has(id string) bool { _, ok := c.entries[id]; return ok }
func (c *zzMemCache) Get(id string) (io.ReadCloser, error) {
	e, ok := c.entries[id]
	if !ok {
		return nil, errors.New("not in cache")
	}
	return io.NopCloser(strings.NewReader(e)), nil
}
func (c *zzMemCache) Store(id string, rc io.ReadCloser) error {
	c.stores++
	b, err := io.ReadAll(rc)
	if err != nil {
		return err
	}
	if c.failNext {
		c.failNext = false
		c.entries[id] = string(b[:c.keep])
		return errors.New("no space left on device")
	}
	c.entries[id] = string(b)
	return nil
}
func (c *zzMemCache) Delete(id string) error {
	c.deletes++
	delete(c.entries, id)
	return nil
}

// zzRegistry is the registry side: it serves the package stream. The next
// stream may break off with an error after failAfter bytes.
type zzRegistry struct {
	inits     int
	failNext  bool
	failAfter int
}

func (b *zzRegistry) Init(context.Context, ...parser.BackendOption) (io.ReadCloser, error) {
	b.inits++
	if b.failNext {
		b.failNext = false
		return io.NopCloser(io.MultiReader(strings.NewReader(zzStream[:b.failAfter]), zzErrReader{})), nil
	}
	return io.NopCloser(strings.NewReader(zzStream)), nil
}

type zzErrReader struct{}

func (zzErrReader) Read([]byte) (int, error) { return 0, errors.New("connection reset by peer") }

// zzStreamParser reads the whole stream, closes it, and parses it: only the
// complete stream is a package.
type zzStreamParser struct {
	pkg   *parser.Package
	reads []string
}

func (p *zzStreamParser) Parse(_ context.Context, rc io.ReadCloser) (*parser.Package, error) {
	b, err := io.ReadAll(rc)
	_ = rc.Close()
	if err != nil {
		return nil, err
	}
	p.reads = append(p.reads, string(b))
	if string(b) != zzStream {
		return nil, errors.New("unexpected EOF")
	}
	return p.pkg, nil
}

// HarnessC15Cache: the cache-miss path of the revision reconciler - the image
// stream is parsed while a goroutine writes it to the cache - followed by a
// second reconcile of the same revision. The cache write of the first
// reconcile may fail after it has consumed the stream, leaving a partial
// entry behind. Either way the first reconcile installs the package's
// objects, no partial entry survives it, and the second reconcile - whether it
// is served by the cache or pulls again - installs exactly the same objects.
//
//gosym:harness latego
//gosym:cover cache-write-failed cache-hit pulled-again registry-stream-broke-off
func HarnessC15Cache() {
	s := kube.New()
	s.Register(&v1.ProviderRevision{}, &v1.ProviderRevisionList{}, "pkg.crossplane.io", "ProviderRevision")
	pr := &v1.ProviderRevision{ObjectMeta: metav1.ObjectMeta{Name: "rev", UID: "uid-rev"}}
	pr.SetSource("xpkg.example.org/org/pkg:v1.0.0")
	pr.SetDesiredState(v1.PackageRevisionActive)
	s.Put(pr)

	objs := []runtime.Object{&extv1.CustomResourceDefinition{ObjectMeta: metav1.ObjectMeta{Name: "as.example.org"}}}
	pkg := zzMakePackage([]runtime.Object{&pkgmetav1.Provider{ObjectMeta: metav1.ObjectMeta{Name: "m"}}}, objs)

	cache := &zzMemCache{entries: map[string]string{}}
	switch zz.Choose("cache.pre", 3) {
	case 1: // warm
		cache.entries["rev"] = zzStream
	case 2: // another revision's entry only
		cache.entries["other"] = "something else"
	}
	warm := cache.Has("rev")
	cache.failNext = zz.Bool("cacheWrite.fails")
	cache.keep = []int{0, 5, len(zzStream) - 1}[zz.Choose("cacheWrite.bytesLeftBehind", 3)]
	failing := cache.failNext && !warm

	img := &zzRegistry{}
	// the registry connection may break while the first reconcile streams the image
	if !warm && !cache.failNext && zz.Bool("registry.streamBreaksOff") {
		img.failNext = true
		img.failAfter = []int{0, 5, len(zzStream) - 1}[zz.Choose("registry.bytesDelivered", 3)]
		zz.Cover("registry-stream-broke-off")
	}
	broken := img.failNext
	ps := &zzStreamParser{pkg: pkg}
	est := &zzEstablisher{}
	r := NewReconciler(&zzMgr15{c: s},
		WithNewPackageRevisionFn(func() v1.PackageRevision { return &v1.ProviderRevision{} }),
		WithCache(cache),
		WithParser(ps),
		WithParserBackend(img),
		WithLinter(xpkg.NewProviderLinter()),
		WithVersioner(zzVersioner{in: true}),
		WithEstablisher(est),
		WithDependencyManager(zzLock{}),
		WithConfigStore(zzCfg{}),
		WithFeatureFlags(&feature.Flags{}),
	)
	req := reconcile.Request{NamespacedName: types.NamespacedName{Name: "rev"}}

	_, err := r.Reconcile(context.Background(), req)
	if broken {
		zz.Assert("broken-stream-is-an-error", err != nil)
		zz.Assert("broken-stream-installs-nothing", est.calls == 0)
	} else {
		zz.Assert("first-reconcile-no-error", err == nil)
		zz.Assert("first-reconcile-installs-the-packages-objects", est.calls == 1 && len(est.objects) == 1 && est.objects[0] == objs[0])
	}
	if failing {
		zz.Cover("cache-write-failed")
	}
	if e, ok := cache.entries["rev"]; ok {
		zz.Assert("no-partial-cache-entry-survives-a-reconcile", e == zzStream)
	}
	if warm {
		zz.Assert("warm-cache-is-not-pulled-again", img.inits == 0)
	}

	// the same revision is reconciled again
	est.calls, est.objects = 0, nil
	inits := img.inits
	_, err = r.Reconcile(context.Background(), req)
	zz.Assert("second-reconcile-no-error", err == nil)
	zz.Assert("second-reconcile-installs-the-same-objects", est.calls == 1 && len(est.objects) == 1 && est.objects[0] == objs[0])
	if img.inits > inits {
		zz.Cover("pulled-again")
	} else {
		zz.Cover("cache-hit")
	}
	zz.Observe("end", img.inits, cache.stores, cache.deletes, len(ps.reads))
}
