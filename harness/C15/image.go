//go:build verif

//gosym:package github.com/crossplane/crossplane/internal/controller/pkg/revision
//gosym:file zz_c15_image_verif.go

package revision

import (
	"archive/tar"
	"bytes"
	"compress/gzip"
	"context"
	"crypto/sha256"
	"encoding/hex"
	"io"

	"github.com/google/go-containerregistry/pkg/name"
	conregv1 "github.com/google/go-containerregistry/pkg/v1"
	metav1 "k8s.io/apimachinery/pkg/apis/meta/v1"

	v1 "github.com/crossplane/crossplane/apis/pkg/v1"
	"github.com/crossplane/crossplane/internal/xpkg"
	zz "github.com/crossplane/crossplane/internal/zzverif"
)

// a fake image: a manifest with layer descriptors and, per digest, a layer
// whose uncompressed content is a tar archive
type zzImage struct {
	conregv1.Image
	manifest *conregv1.Manifest
	layers   map[conregv1.Hash]conregv1.Layer
}

func (i *zzImage) Manifest() (*conregv1.Manifest, error) { return i.manifest, nil }
func (i *zzImage) LayerByDigest(h conregv1.Hash) (conregv1.Layer, error) {
	l, ok := i.layers[h]
	if !ok {
		return nil, errString15("no such layer")
	}
	return l, nil
}

type zzLayer struct {
	conregv1.Layer
	tarball    []byte
	compressed []byte
	digest     conregv1.Hash
	diffID     conregv1.Hash
}

func (l *zzLayer) Uncompressed() (io.ReadCloser, error) {
	return io.NopCloser(bytes.NewReader(l.tarball)), nil
}
func (l *zzLayer) Compressed() (io.ReadCloser, error) {
	return io.NopCloser(bytes.NewReader(l.compressed)), nil
}
func (l *zzLayer) Digest() (conregv1.Hash, error) { return l.digest, nil }
func (l *zzLayer) DiffID() (conregv1.Hash, error) { return l.diffID, nil }
func (l *zzLayer) Size() (int64, error)           { return int64(len(l.compressed)), nil }

// zzLayerIdentity computes what go-containerregistry's layer validation
// recomputes: the gzip stream of the archive and the two digests. Under the
// engine (where that validation is assumed to pass) it is intercepted and
// returns fixed, distinct digests per index.
func zzLayerIdentity(idx int, tarball []byte) (compressed []byte, digest, diffID conregv1.Hash) {
	var buf bytes.Buffer
	zw := gzip.NewWriter(&buf)
	_, _ = zw.Write(tarball)
	_ = zw.Close()
	compressed = buf.Bytes()
	d := sha256.Sum256(compressed)
	u := sha256.Sum256(tarball)
	return compressed, conregv1.Hash{Algorithm: "sha256", Hex: hex.EncodeToString(d[:])}, conregv1.Hash{Algorithm: "sha256", Hex: hex.EncodeToString(u[:])}
}

func zzNewLayer(idx int, entries []zzTarEntry) *zzLayer {
	l := &zzLayer{tarball: zzTar(entries)}
	l.compressed, l.digest, l.diffID = zzLayerIdentity(idx, l.tarball)
	return l
}

type zzImageFetcher struct{ img conregv1.Image }

func (f *zzImageFetcher) Fetch(context.Context, name.Reference, ...string) (conregv1.Image, error) {
	return f.img, nil
}
func (f *zzImageFetcher) Head(context.Context, name.Reference, ...string) (*conregv1.Descriptor, error) {
	return nil, nil
}
func (f *zzImageFetcher) Tags(context.Context, name.Reference, ...string) ([]string, error) {
	return nil, nil
}

type zzTarEntry struct{ name, content string }

func zzTar(entries []zzTarEntry) []byte {
	var buf bytes.Buffer
	w := tar.NewWriter(&buf)
	for _, e := range entries {
		_ = w.WriteHeader(&tar.Header{Name: e.name, Mode: 0o644, Size: int64(len(e.content)), Typeflag: tar.TypeReg})
		_, _ = w.Write([]byte(e.content))
	}
	_ = w.Close()
	return buf.Bytes()
}

// HarnessC15Image: the package stream a revision parses is exactly the
// content of the file package.yaml at the root of the image's annotated base
// layer - not of a file of that name in a directory, not of another layer,
// whatever the order of the entries and of the layers; an image with several
// annotated base layers, or without the file, is refused.
//
//gosym:harness
//gosym:cover stream-found nested-file-first two-base-layers no-stream-file base-layer-second
func HarnessC15Image() {
	const stream = "the-package-stream"
	// entries of the base layer, in a solver-chosen order
	var entries []zzTarEntry
	hasRoot := zz.Bool("base.hasRootFile")
	nested := zz.Choose("base.nestedFile", 3) // none, before the root file, after it
	other := zz.Bool("base.otherFileFirst")
	if other {
		entries = append(entries, zzTarEntry{"README.md", "hello"})
	}
	if nested == 1 {
		entries = append(entries, zzTarEntry{"testdata/" + xpkg.StreamFile, "a-stray-stream"})
	}
	if hasRoot {
		entries = append(entries, zzTarEntry{xpkg.StreamFile, stream})
	}
	if nested == 2 {
		entries = append(entries, zzTarEntry{"examples/" + xpkg.StreamFile, "a-stray-stream"})
	}
	base := zzNewLayer(1, entries)
	extra := zzNewLayer(2, []zzTarEntry{{xpkg.StreamFile, "another-layers-stream"}})
	hBase, hExtra := base.digest, extra.digest
	annotated := map[string]string{layerAnnotation: baseAnnotationValue}
	dBase := conregv1.Descriptor{Digest: hBase, Annotations: annotated}
	dExtra := conregv1.Descriptor{Digest: hExtra}
	extraKind := zz.Choose("extra.layer", 4) // none, plain, annotated as examples, annotated as base too
	switch extraKind {
	case 2:
		dExtra.Annotations = map[string]string{layerAnnotation: "examples"}
	case 3:
		dExtra.Annotations = annotated
	}
	m := &conregv1.Manifest{}
	baseSecond := extraKind != 0 && zz.Bool("base.layerSecond")
	switch {
	case extraKind == 0:
		m.Layers = []conregv1.Descriptor{dBase}
	case baseSecond:
		m.Layers = []conregv1.Descriptor{dExtra, dBase}
		zz.Cover("base-layer-second")
	default:
		m.Layers = []conregv1.Descriptor{dBase, dExtra}
	}
	img := &zzImage{manifest: m, layers: map[conregv1.Hash]conregv1.Layer{hBase: base, hExtra: extra}}

	pr := &v1.ProviderRevision{ObjectMeta: metav1.ObjectMeta{Name: "rev"}}
	pr.SetSource("xpkg.example.org/org/pkg:v1.0.0")
	b := NewImageBackend(&zzImageFetcher{img: img}, WithDefaultRegistry("xpkg.example.org"))
	rc, err := b.Init(context.Background(), PackageRevision(pr))

	if extraKind == 3 {
		zz.Cover("two-base-layers")
		zz.Assert("several-annotated-base-layers-refused", err != nil)
		return
	}
	if !hasRoot {
		zz.Cover("no-stream-file")
		zz.Assert("image-without-a-root-stream-file-refused", err != nil)
		return
	}
	zz.Assert("image-with-a-root-stream-file-accepted", err == nil)
	if err != nil {
		return
	}
	got, rerr := io.ReadAll(rc)
	zz.Assert("stream-readable", rerr == nil)
	zz.Cover("stream-found")
	if nested == 1 {
		zz.Cover("nested-file-first")
	}
	zz.Assert("parsed-stream-is-exactly-the-root-package-file-of-the-base-layer", string(got) == stream)
}
