//go:build verif

//gosym:package github.com/crossplane/crossplane/internal/xpkg
//gosym:file zz_c15_cachekey_verif.go

package xpkg

import (
	"io"
	"strings"

	"github.com/spf13/afero"

	zz "github.com/crossplane/crossplane/internal/zzverif"
)

// the cache ids the revision reconciler uses: a revision name, or - with the
// Never pull policy - the package source as written in the revision
var zzCacheIDs = []string{
	"provider-x-abc123def456",
	"provider-x-999999999999",
	"xpkg.example.org/org/pkg:v1.2.3",
	"xpkg.example.org/org/pkg:v1.2.4",
	"xpkg.example.org/org/pkg:v1.3.0",
	"local-package",
	"local-package.gz",
}

// HarnessC15CacheKeys: the filesystem cache answers for an id only with what
// was stored under that id: an entry stored for one id is not found under a
// different one (a revision would otherwise be served, and install, another
// revision's or version's package). A trailing ".gz" is not part of an id.
//
//gosym:harness
//gosym:cover distinct-ids same-id
func HarnessC15CacheKeys() {
	fs := afero.NewMemMapFs()
	c := NewFsPackageCache("/cache", fs)
	a := zzCacheIDs[zz.Choose("stored.id", len(zzCacheIDs))]
	b := zzCacheIDs[zz.Choose("asked.id", len(zzCacheIDs))]
	zz.Assert("store-no-error", c.Store(a, io.NopCloser(strings.NewReader("stored"))) == nil)
	zz.Assert("stored-entry-found-under-its-id", c.Has(a))
	if strings.TrimSuffix(a, cacheContentExt) == strings.TrimSuffix(b, cacheContentExt) {
		zz.Cover("same-id")
		zz.Assert("stored-entry-found-under-its-id", c.Has(b))
		return
	}
	zz.Cover("distinct-ids")
	zz.Assert("entry-of-one-id-not-found-under-another", !c.Has(b))
}
