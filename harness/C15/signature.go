//go:build verif

//gosym:package github.com/crossplane/crossplane/internal/controller/pkg/signature
//gosym:file zz_c15_signature_verif.go

package signature

import (
	"context"

	"github.com/google/go-containerregistry/pkg/name"
	corev1 "k8s.io/api/core/v1"
	metav1 "k8s.io/apimachinery/pkg/apis/meta/v1"
	"k8s.io/apimachinery/pkg/types"
	"sigs.k8s.io/controller-runtime/pkg/reconcile"

	v1 "github.com/crossplane/crossplane/apis/pkg/v1"
	"github.com/crossplane/crossplane/apis/pkg/v1beta1"
	"github.com/crossplane/crossplane/internal/xpkg"
	zz "github.com/crossplane/crossplane/internal/zzverif"
	"github.com/crossplane/crossplane/internal/zzverif/kube"
)

type errString15s string

func (e errString15s) Error() string { return string(e) }

// zzValidator records which verification config it was asked to check.
type zzValidator struct {
	accept   bool
	calledBy string // name of the first authority of the config it was given
	calls    int
	image    string // the image it was asked to check, fully qualified
}

func (v *zzValidator) Validate(_ context.Context, ref name.Reference, c *v1beta1.ImageVerification, _ ...string) error {
	v.calls++
	v.image = ref.Name()
	if c != nil && c.Cosign != nil && len(c.Cosign.Authorities) > 0 {
		v.calledBy = c.Cosign.Authorities[0].Name
	}
	if v.accept {
		return nil
	}
	return errString15s("signature rejected")
}

const zzImage = "xpkg.example.org/org/pkg:v1.0.0"

// HarnessC15Signature: the signature controller marks a revision Verified
// only if no ImageConfig with a verification section matches its image, or
// the validator accepted the image under the verification config of the
// best (longest-prefix) matching ImageConfig. The real ImageConfigStore does
// the matching, over ImageConfigs with symbolic prefixes.
//
//gosym:harness
//gosym:cover verified skipped rejected inactive two-matching already-verified default-registry
func HarnessC15Signature() {
	s := kube.New()
	s.Register(&v1.ProviderRevision{}, &v1.ProviderRevisionList{}, "pkg.crossplane.io", "ProviderRevision")
	s.Register(&v1beta1.ImageConfig{}, &v1beta1.ImageConfigList{}, "pkg.crossplane.io", "ImageConfig")

	const n = 2
	prefix := make([]string, n)
	verifies := make([]bool, n)
	for i := 0; i < n; i++ {
		id := string(rune('0' + i))
		prefix[i] = zz.Str("config" + id + ".prefix")
		verifies[i] = zz.Bool("config" + id + ".hasVerification")
		ic := &v1beta1.ImageConfig{ObjectMeta: metav1.ObjectMeta{Name: "cfg" + id}}
		ic.Spec.MatchImages = []v1beta1.ImageMatch{{Prefix: prefix[i]}}
		if verifies[i] {
			ic.Spec.Verification = &v1beta1.ImageVerification{Provider: "Cosign", Cosign: &v1beta1.CosignVerificationConfig{Authorities: []v1beta1.CosignAuthority{{Name: "cfg" + id}}}}
		}
		s.Put(ic)
	}

	pr := &v1.ProviderRevision{ObjectMeta: metav1.ObjectMeta{Name: "rev"}}
	// the source may leave the registry host out: the default registry completes it
	src := zzImage
	if zz.Bool("source.withoutRegistryHost") {
		zz.Cover("default-registry")
		src = "org/pkg:v1.0.0"
	}
	pr.Spec.Package = src
	active := zz.Bool("revision.active")
	pr.Spec.DesiredState = v1.PackageRevisionInactive
	if active {
		pr.Spec.DesiredState = v1.PackageRevisionActive
	}
	had := zz.Choose("revision.verified", 3) // no condition, True, False
	switch had {
	case 1:
		pr.SetConditions(v1.VerificationSucceeded("earlier"))
		zz.Cover("already-verified")
	case 2:
		pr.SetConditions(v1.VerificationFailed("earlier", errString15s("bad")))
	}
	s.Put(pr)

	val := &zzValidator{accept: zz.Bool("validator.accepts")}
	s.FaultAt = zz.Choose("fault.at", 4) - 1
	s.FaultKind = 1 + zz.Choose("fault.kind", 2)
	r := NewReconciler(s,
		WithNewPackageRevisionFn(func() v1.PackageRevision { return &v1.ProviderRevision{} }),
		WithConfigStore(xpkg.NewImageConfigStore(s, "crossplane-system")),
		WithDefaultRegistry("xpkg.example.org"),
		WithValidator(val))
	_, _ = r.Reconcile(context.Background(), reconcile.Request{NamespacedName: types.NamespacedName{Name: "rev"}})

	after := &v1.ProviderRevision{}
	if !s.Peek("", "rev", after) {
		return
	}
	now := after.GetCondition(v1.TypeVerified).Status == corev1.ConditionTrue
	if had == 1 || !now {
		if !active {
			zz.Cover("inactive")
		}
		if val.calls > 0 && !val.accept {
			zz.Cover("rejected")
			zz.Assert("rejected-image-is-not-verified", !now || had == 1)
		}
		return
	}
	// newly Verified=True: justify it
	zz.Assert("only-active-revisions-are-verified", active)
	matches := make([]bool, n)
	anyMatch := false
	for i := 0; i < n; i++ {
		matches[i] = zz.And(verifies[i], zz.HasPrefix(src, prefix[i]))
		// an empty prefix never selects a config (its length is not above zero)
		matches[i] = zz.And(matches[i], prefix[i] != "")
		anyMatch = zz.Or(anyMatch, matches[i])
	}
	if val.calls == 0 {
		zz.Cover("skipped")
		zz.Assert("verification-skipped-only-if-no-verifying-config-matches", zz.Not(anyMatch))
		return
	}
	zz.Cover("verified")
	zz.Assert("verified-only-if-the-validator-accepted", val.accept)
	// ... and what it accepted is the image the revision controller installs
	zz.Assert("verified-image-is-the-image-that-is-installed", val.image == zzImage)
	for i := 0; i < n; i++ {
		if val.calledBy == "cfg"+string(rune('0'+i)) {
			zz.Assert("validated-under-a-matching-config", matches[i])
			for j := 0; j < n; j++ {
				if j != i {
					if matches[j] {
						zz.Cover("two-matching")
					}
					zz.Assert("validated-under-the-longest-matching-prefix", zz.Implies(matches[j], len(prefix[i]) >= len(prefix[j])))
				}
			}
		}
	}
	zz.Assert("validated-under-some-config", val.calledBy != "")
}
