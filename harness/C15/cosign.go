//go:build verif

//gosym:package github.com/crossplane/crossplane/internal/controller/pkg/signature
//gosym:file zz_c15_cosign_verif.go

package signature

import (
	"context"

	"github.com/google/go-containerregistry/pkg/name"

	"github.com/crossplane/crossplane/apis/pkg/v1beta1"
	zz "github.com/crossplane/crossplane/internal/zzverif"
)

// HarnessC15CosignVacuous: the real cosign validator on verification configs
// that name nobody who could have signed the image - no cosign section, an
// authority list that is absent or empty - or another provider. Nothing can be
// verified under such a config, so the validator must not report success (the
// signature controller would mark the revision Verified and let it install),
// and it must not panic. Configs with authorities need cosign and a registry
// and are outside this harness.
//
//gosym:harness panics
//gosym:cover other-provider no-cosign-section no-authorities empty-authorities
func HarnessC15CosignVacuous() {
	cfg := &v1beta1.ImageVerification{Provider: v1beta1.ImageVerificationProviderCosign}
	switch zz.Choose("config", 4) {
	case 0:
		zz.Cover("other-provider")
		cfg.Provider = v1beta1.ImageVerificationProvider(zz.Str("provider"))
		zz.Assume(string(cfg.Provider) != string(v1beta1.ImageVerificationProviderCosign))
		cfg.Cosign = &v1beta1.CosignVerificationConfig{Authorities: []v1beta1.CosignAuthority{{Name: "a"}}}
	case 1:
		zz.Cover("no-cosign-section")
	case 2:
		zz.Cover("no-authorities")
		cfg.Cosign = &v1beta1.CosignVerificationConfig{}
	case 3:
		zz.Cover("empty-authorities")
		cfg.Cosign = &v1beta1.CosignVerificationConfig{Authorities: []v1beta1.CosignAuthority{}}
	}
	// no service account and no pull secrets: the credential chain is built
	// without talking to the API server
	v := &CosignValidator{namespace: "crossplane-system", serviceAccount: "no service account"}
	ref, err := name.ParseReference(zzImage)
	if err != nil {
		return
	}
	err = v.Validate(context.Background(), ref, cfg)
	zz.Assert("a-config-that-verifies-nothing-does-not-pass", err != nil)
}
