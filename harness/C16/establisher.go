//go:build verif

//gosym:package github.com/crossplane/crossplane/internal/controller/pkg/revision
//gosym:file zz_c16_establisher_verif.go

package revision

import (
	"context"
	"reflect"

	extv1 "k8s.io/apiextensions-apiserver/pkg/apis/apiextensions/v1"
	kerrors "k8s.io/apimachinery/pkg/api/errors"
	metav1 "k8s.io/apimachinery/pkg/apis/meta/v1"
	"k8s.io/apimachinery/pkg/runtime"
	"k8s.io/apimachinery/pkg/runtime/schema"
	"k8s.io/apimachinery/pkg/types"
	"k8s.io/utils/ptr"
	"sigs.k8s.io/controller-runtime/pkg/client"

	xpv1 "github.com/crossplane/crossplane-runtime/apis/common/v1"

	v1 "github.com/crossplane/crossplane/apis/pkg/v1"
	zz "github.com/crossplane/crossplane/internal/zzverif"
	"github.com/crossplane/crossplane/internal/zzverif/kube"
)

const (
	zzCRDGroup = "apiextensions.k8s.io"
	zzCRDKind  = "CustomResourceDefinition"
	zzPkg      = "provider-x"
	zzPkgUID   = "uid-pkg"
	zzNewUID   = "uid-rev-new"
	zzOldUID   = "uid-rev-old"
)

var zzCRDNames = []string{"as.example.org", "bs.example.org", "cs.example.org"}

func zzRevision(name, uid string) *v1.ProviderRevision {
	r := &v1.ProviderRevision{
		TypeMeta: metav1.TypeMeta{APIVersion: v1.SchemeGroupVersion.String(), Kind: v1.ProviderRevisionKind},
		ObjectMeta: metav1.ObjectMeta{
			Name:   name,
			UID:    types.UID(uid),
			Labels: map[string]string{v1.LabelParentPackage: zzPkg},
			OwnerReferences: []metav1.OwnerReference{{
				APIVersion: v1.SchemeGroupVersion.String(), Kind: v1.ProviderKind, Name: zzPkg, UID: zzPkgUID,
				Controller: ptr.To(true), BlockOwnerDeletion: ptr.To(true),
			}},
		},
	}
	return r
}

func zzCRD(name string) *extv1.CustomResourceDefinition {
	return &extv1.CustomResourceDefinition{
		TypeMeta:   metav1.TypeMeta{APIVersion: "apiextensions.k8s.io/v1", Kind: zzCRDKind},
		ObjectMeta: metav1.ObjectMeta{Name: name},
		Spec: extv1.CustomResourceDefinitionSpec{
			Group:    "example.org",
			Names:    extv1.CustomResourceDefinitionNames{Kind: "K", Plural: name[:2]},
			Scope:    extv1.ClusterScoped,
			Versions: []extv1.CustomResourceDefinitionVersion{{Name: "v1", Served: true, Storage: true}},
		},
	}
}

// pre-existing state of a package object
const (
	zzAbsent = iota
	zzUncontrolled
	zzOursControlled
	zzOldControlled // controlled by the previous revision of the same package
	zzOldOwned      // previous revision released it: plain owner
	zzForeign       // controlled by some other owner
	zzStates
)

type zzOwner struct {
	uid        string
	controller bool
}

func zzOwners(doc map[string]any) []zzOwner {
	var out []zzOwner
	md, _ := doc["metadata"].(map[string]any)
	refs, _ := md["ownerReferences"].([]any)
	for _, r := range refs {
		rm, _ := r.(map[string]any)
		uid, _ := rm["uid"].(string)
		c, _ := rm["controller"].(bool)
		out = append(out, zzOwner{uid: uid, controller: c})
	}
	return out
}

func zzSetupObjects(s *kube.Store, n int, foreignUID string) (objs []runtime.Object, states []int) {
	for i := 0; i < n; i++ {
		nm := "obj" + string(rune('0'+i))
		st := zz.Choose(nm+".state", zzStates)
		states = append(states, st)
		crd := zzCRD(zzCRDNames[i])
		objs = append(objs, crd)
		if st == zzAbsent {
			continue
		}
		ex := zzCRD(zzCRDNames[i])
		pkgOwner := metav1.OwnerReference{APIVersion: v1.SchemeGroupVersion.String(), Kind: v1.ProviderKind, Name: zzPkg, UID: zzPkgUID, Controller: ptr.To(false)}
		rev := func(uid string, c bool) metav1.OwnerReference {
			return metav1.OwnerReference{APIVersion: v1.SchemeGroupVersion.String(), Kind: v1.ProviderRevisionKind, Name: "rev-" + uid, UID: types.UID(uid), Controller: ptr.To(c)}
		}
		switch st {
		case zzOursControlled:
			ex.SetOwnerReferences([]metav1.OwnerReference{rev(zzNewUID, true), pkgOwner})
		case zzOldControlled:
			ex.SetOwnerReferences([]metav1.OwnerReference{rev(zzOldUID, true), pkgOwner})
		case zzOldOwned:
			ex.SetOwnerReferences([]metav1.OwnerReference{rev(zzOldUID, false), pkgOwner})
		case zzForeign:
			ex.SetOwnerReferences([]metav1.OwnerReference{{APIVersion: "other/v1", Kind: "Other", Name: "other", UID: types.UID(foreignUID), Controller: ptr.To(true)}})
		}
		s.Put(ex)
	}
	return
}

// zzBehindCache is a client whose reads do not yet show one object the API
// server already has (created since the cache last synced).
type zzBehindCache struct {
	*kube.Store
	hidden string
}

func (c *zzBehindCache) Get(ctx context.Context, key client.ObjectKey, obj client.Object, opts ...client.GetOption) error {
	if c.hidden != "" && key.Name == c.hidden {
		return kerrors.NewNotFound(schema.GroupResource{Group: zzCRDGroup, Resource: "customresourcedefinitions"}, key.Name)
	}
	return c.Store.Get(ctx, key, obj, opts...)
}

// HarnessC16Establish: establishing the objects of a package is
// all-or-nothing and respects the active / inactive role.
//
//gosym:harness
//gosym:cover establish-error establish-ok inactive took-over-from-old foreign-object rejected-object revision-without-package-owner object-behind-the-cache
func HarnessC16Establish() {
	n := zz.Bound(2, 3)
	s := kube.New()
	s.Register(&extv1.CustomResourceDefinition{}, &extv1.CustomResourceDefinitionList{}, zzCRDGroup, zzCRDKind)
	foreign := zz.Str("foreign.uid")
	zz.Assume(foreign != zzNewUID)
	zz.Assume(foreign != zzOldUID)
	zz.Assume(foreign != zzPkgUID)
	zz.Assume(foreign != "")
	objs, states := zzSetupObjects(s, n, foreign)

	// the API server refuses one of the objects (same answer in dry-run mode)
	rejectIdx := zz.Choose("reject", n+1) - 1
	s.Reject = func(_, _, _, name string) bool { return rejectIdx >= 0 && name == zzCRDNames[rejectIdx] }
	if rejectIdx >= 0 {
		zz.Cover("rejected-object")
	}

	control := zz.Bool("control")
	parent := zzRevision("rev-new", zzNewUID)
	// a revision created by hand or restored from a backup may lack the owner
	// reference to its package
	ownedByPackage := zz.Bool("revision.ownedByPackage")
	if !ownedByPackage {
		parent.OwnerReferences = nil
		zz.Cover("revision-without-package-owner")
	}
	// one existing object may not have reached the cache the establisher reads
	// from yet (an active revision then believes it has to create it)
	cl := &zzBehindCache{Store: s}
	e := NewAPIEstablisher(cl, "crossplane-system", 10)
	// snapshots of the objects another owner controls
	foreignBefore := map[int]map[string]any{}
	for i, st := range states {
		if st == zzForeign {
			foreignBefore[i] = runtime.DeepCopyJSON(s.Doc(zzCRDGroup, zzCRDKind, "", zzCRDNames[i]))
		}
	}
	if zz.Tier() == "thorough" {
		// thorough: the first attempt may be cut short by an API failure at
		// any call (validation or establish phase); it is then retried
		s.FaultAt = zz.Choose("fault.at", 14) - 1
		s.FaultKind = 1 + zz.Choose("fault.kind", 3)
	}
	if control && s.FaultAt < 0 {
		if h := zz.Choose("behind.cache", n+1) - 1; h >= 0 && states[h] != zzAbsent {
			zz.Cover("object-behind-the-cache")
			cl.hidden = zzCRDNames[h]
		}
	}
	refs, err := e.Establish(context.Background(), objs, parent, control)
	mark := 0
	if s.Faulted {
		zz.Cover("fault-hit")
		s.FaultAt = -1
		for i, before := range foreignBefore {
			now := s.Doc(zzCRDGroup, zzCRDKind, "", zzCRDNames[i])
			if control {
				zz.Assert("foreign-controlled-object-untouched-by-a-failed-attempt", reflect.DeepEqual(before, now))
			} else {
				// an inactive revision may add itself as a plain owner; the
				// object's controller stays who it was
				zz.Assert("foreign-controller-kept-by-a-failed-attempt", kube.ControllerUID(now) == kube.ControllerUID(before))
			}
		}
		if !control {
			for _, c := range s.Writes(false) {
				zz.Assert("inactive-revision-never-creates", c.Verb != kube.VerbCreate)
			}
		}
		mark = len(s.Writes(false))
		refs, err = e.Establish(context.Background(), objs, parent, control)
	}

	real := s.Writes(false)[mark:]
	if !control {
		zz.Cover("inactive")
		for _, c := range real {
			zz.Assert("inactive-revision-never-creates", c.Verb != kube.VerbCreate)
		}
	}
	if err != nil {
		zz.Cover("establish-error")
		// all-or-nothing: nothing was created or modified for real
		zz.Assert("failed-establish-writes-nothing", len(real) == 0)
		return
	}
	zz.Cover("establish-ok")
	zz.Assert("one-reference-per-object", len(refs) == n)
	for i := 0; i < n; i++ {
		doc := s.Doc(zzCRDGroup, zzCRDKind, "", zzCRDNames[i])
		if states[i] == zzForeign {
			zz.Cover("foreign-object")
			// an object controlled by another owner is never taken over
			zz.Assert("foreign-controlled-object-not-taken-over", !control)
		}
		if states[i] == zzOldControlled && control {
			// the previous revision still controls it: cannot be taken over
			zz.Assert("object-controlled-by-other-revision-not-taken-over", false)
		}
		if doc == nil {
			zz.Assert("active-revision-creates-missing-objects", !control)
			continue
		}
		owners := zzOwners(doc)
		ctrl, ours, pkg := 0, false, false
		for _, o := range owners {
			if o.controller {
				ctrl++
				zz.Assert("only-active-revision-becomes-controller", zz.Implies(o.uid == zzNewUID, control))
			}
			if o.uid == zzNewUID {
				ours = true
				zz.Assert("active-revision-is-controller", o.controller == control)
			}
			if o.uid == zzPkgUID {
				pkg = true
				zz.Assert("package-is-non-controlling-owner", !o.controller)
			}
		}
		zz.Assert("at-most-one-controller", ctrl <= 1)
		zz.Assert("revision-owns-established-object", ours)
		if ownedByPackage {
			zz.Assert("package-owns-established-object", pkg)
		}
		if states[i] == zzOldOwned && control {
			zz.Cover("took-over-from-old")
			old := false
			for _, o := range owners {
				if o.uid == zzOldUID {
					old = true
				}
			}
			zz.Assert("previous-revision-keeps-ownership", old)
		}
	}
	zz.Observe("refs", len(refs), len(real))
}

// HarnessC16Release: deactivation gives up control but keeps ownership, so
// objects holding user data are not garbage collected during an upgrade;
// then the new revision can take the objects over.
//
//gosym:harness
//gosym:cover released upgraded foreign-controller-first
func HarnessC16Release() {
	n := zz.Bound(2, 2)
	s := kube.New()
	s.Register(&extv1.CustomResourceDefinition{}, &extv1.CustomResourceDefinitionList{}, zzCRDGroup, zzCRDKind)

	// the old revision is active and controls its objects (one of them may be
	// missing, or may have lost the revision's owner reference)
	old := zzRevision("rev-old", zzOldUID)
	var objs []runtime.Object
	var foreign []int
	for i := 0; i < n; i++ {
		nm := "obj" + string(rune('0'+i))
		objs = append(objs, zzCRD(zzCRDNames[i]))
		old.Status.ObjectRefs = append(old.Status.ObjectRefs, *zzTypedRef(zzCRDNames[i]))
		switch st := zz.Choose(nm+".state", 4); st {
		case 3: // controlled by another owner, whose reference precedes the old revision's plain one
			ex := zzCRD(zzCRDNames[i])
			ex.SetOwnerReferences([]metav1.OwnerReference{
				{APIVersion: v1.SchemeGroupVersion.String(), Kind: v1.ProviderRevisionKind, Name: "other-rev", UID: "uid-foreign", Controller: ptr.To(true)},
				{APIVersion: v1.SchemeGroupVersion.String(), Kind: v1.ProviderRevisionKind, Name: "rev-old", UID: zzOldUID, Controller: ptr.To(false)},
			})
			s.Put(ex)
			foreign = append(foreign, i)
			zz.Cover("foreign-controller-first")
		case 0: // controlled by the old revision
			ex := zzCRD(zzCRDNames[i])
			ex.SetOwnerReferences([]metav1.OwnerReference{
				{APIVersion: v1.SchemeGroupVersion.String(), Kind: v1.ProviderRevisionKind, Name: "rev-old", UID: zzOldUID, Controller: ptr.To(true)},
				{APIVersion: v1.SchemeGroupVersion.String(), Kind: v1.ProviderKind, Name: zzPkg, UID: zzPkgUID, Controller: ptr.To(false)},
			})
			s.Put(ex)
		case 1: // owner references stripped
			s.Put(zzCRD(zzCRDNames[i]))
		case 2: // object is gone
		}
	}
	e := NewAPIEstablisher(s, "crossplane-system", 10)
	err := e.ReleaseObjects(context.Background(), old)
	zz.Assert("release-no-error", err == nil)
	if err != nil {
		return
	}
	zz.Cover("released")
	for _, i := range foreign {
		// releasing never touches another owner's control
		zz.Assert("release-leaves-another-owners-control", kube.ControllerUID(s.Doc(zzCRDGroup, zzCRDKind, "", zzCRDNames[i])) == "uid-foreign")
	}
	for i := 0; i < n; i++ {
		doc := s.Doc(zzCRDGroup, zzCRDKind, "", zzCRDNames[i])
		if doc == nil {
			continue
		}
		found := false
		for _, o := range zzOwners(doc) {
			if o.uid == zzOldUID {
				found = true
				zz.Assert("released-revision-is-plain-owner", !o.controller)
			}
		}
		zz.Assert("released-revision-keeps-ownership", found)
	}
	for _, c := range s.Writes(false) {
		zz.Assert("release-never-deletes-or-creates", c.Verb != kube.VerbDelete && c.Verb != kube.VerbCreate)
	}

	// upgrade: the new revision becomes active
	parent := zzRevision("rev-new", zzNewUID)
	_, err = e.Establish(context.Background(), objs, parent, true)
	if len(foreign) > 0 {
		zz.Assert("object-controlled-by-another-owner-refuses-the-upgrade", err != nil)
		for _, i := range foreign {
			zz.Assert("release-leaves-another-owners-control", kube.ControllerUID(s.Doc(zzCRDGroup, zzCRDKind, "", zzCRDNames[i])) == "uid-foreign")
		}
		return
	}
	zz.Assert("establish-after-release-no-error", err == nil)
	if err != nil {
		return
	}
	zz.Cover("upgraded")
	for i := 0; i < n; i++ {
		doc := s.Doc(zzCRDGroup, zzCRDKind, "", zzCRDNames[i])
		zz.Assert("object-exists-after-upgrade", doc != nil)
		if doc == nil {
			continue
		}
		zz.Assert("new-revision-controls-after-upgrade", kube.ControllerUID(doc) == zzNewUID)
		zz.Assert("object-never-ownerless", len(zzOwners(doc)) > 0)
	}
}

func zzTypedRef(name string) *xpv1.TypedReference {
	return &xpv1.TypedReference{APIVersion: "apiextensions.k8s.io/v1", Kind: zzCRDKind, Name: name}
}
