//go:build verif

//gosym:package github.com/crossplane/crossplane/internal/controller/pkg/revision
//gosym:file zz_c16_deactivate_verif.go

package revision

import (
	"context"

	corev1 "k8s.io/api/core/v1"
	extv1 "k8s.io/apiextensions-apiserver/pkg/apis/apiextensions/v1"
	metav1 "k8s.io/apimachinery/pkg/apis/meta/v1"
	"k8s.io/apimachinery/pkg/runtime"
	"k8s.io/apimachinery/pkg/types"
	"k8s.io/utils/ptr"
	"sigs.k8s.io/controller-runtime/pkg/reconcile"

	"github.com/crossplane/crossplane-runtime/pkg/feature"

	pkgmetav1 "github.com/crossplane/crossplane/apis/pkg/meta/v1"
	v1 "github.com/crossplane/crossplane/apis/pkg/v1"
	"github.com/crossplane/crossplane/apis/pkg/v1beta1"
	"github.com/crossplane/crossplane/internal/dag"
	"github.com/crossplane/crossplane/internal/xpkg"
	zz "github.com/crossplane/crossplane/internal/zzverif"
	"github.com/crossplane/crossplane/internal/zzverif/kube"
)

// HarnessC16Deactivate: one reconcile of a revision that was active and has
// been switched to Inactive, with the real establisher and dependency
// manager and an API failure (error or conflict) at any call. The reconcile
// settles - no error, no requeue, Healthy - only if the revision no longer
// controls any of its objects; whatever happens it stays their owner and
// nothing is deleted.
//
//gosym:harness
//gosym:cover settled retried fault-hit conflict-hit
func HarnessC16Deactivate() {
	s := kube.New()
	s.Register(&v1.ProviderRevision{}, &v1.ProviderRevisionList{}, "pkg.crossplane.io", "ProviderRevision")
	s.Register(&v1beta1.Lock{}, &v1beta1.LockList{}, "pkg.crossplane.io", "Lock")
	s.Register(&extv1.CustomResourceDefinition{}, &extv1.CustomResourceDefinitionList{}, zzCRDGroup, zzCRDKind)

	pr := zzRevision("rev-old", zzOldUID)
	pr.Finalizers = []string{finalizer}
	pr.SetSource("xpkg.example.org/org/pkg:v1.0.0")
	pr.SetDesiredState(v1.PackageRevisionInactive)
	pr.SetConditions(v1.Healthy())
	const n = 2
	for i := 0; i < n; i++ {
		pr.Status.ObjectRefs = append(pr.Status.ObjectRefs, *zzTypedRef(zzCRDNames[i]))
		ex := zzCRD(zzCRDNames[i])
		ex.SetOwnerReferences([]metav1.OwnerReference{
			{APIVersion: v1.SchemeGroupVersion.String(), Kind: v1.ProviderRevisionKind, Name: "rev-old", UID: zzOldUID, Controller: ptr.To(true)},
			{APIVersion: v1.SchemeGroupVersion.String(), Kind: v1.ProviderKind, Name: zzPkg, UID: zzPkgUID, Controller: ptr.To(false)},
		})
		s.Put(ex)
	}
	s.Put(pr)
	if zz.Bool("lock.listsRevision") {
		lock := &v1beta1.Lock{ObjectMeta: metav1.ObjectMeta{Name: lockName}}
		lock.Packages = []v1beta1.LockPackage{{Name: "rev-old", Type: ptr.To(v1beta1.ProviderPackageType), Source: "xpkg.example.org/org/pkg", Version: "v1.0.0"}}
		s.Put(lock)
	}

	s.FaultAt = zz.Choose("fault.at", 10) - 1
	s.FaultKind = 1 + zz.Choose("fault.kind", 3) // error without effect, error after effect, conflict
	r := NewReconciler(&zzMgr15{c: s},
		WithNewPackageRevisionFn(func() v1.PackageRevision { return &v1.ProviderRevision{} }),
		WithCache(zzCache{}),
		WithVersioner(zzVersioner{in: true}),
		WithEstablisher(NewAPIEstablisher(s, "crossplane-system", 10)),
		WithDependencyManager(NewPackageDependencyManager(s, dag.NewMapDag, v1.ProviderGroupVersionKind)),
		WithConfigStore(zzCfg{}),
		WithFeatureFlags(&feature.Flags{}),
	)
	res, err := r.Reconcile(context.Background(), reconcile.Request{NamespacedName: types.NamespacedName{Name: "rev-old"}})
	if s.Faulted {
		zz.Cover("fault-hit")
		if s.FaultKind == kube.FaultConflict {
			zz.Cover("conflict-hit")
		}
	}

	controls := 0
	for i := 0; i < n; i++ {
		doc := s.Doc(zzCRDGroup, zzCRDKind, "", zzCRDNames[i])
		zz.Assert("deactivation-deletes-nothing", doc != nil)
		if doc == nil {
			continue
		}
		owner := false
		for _, o := range zzOwners(doc) {
			if o.uid == zzOldUID {
				owner = true
				if o.controller {
					controls++
				}
			}
		}
		zz.Assert("deactivated-revision-keeps-ownership", owner)
	}
	after := &v1.ProviderRevision{}
	s.Peek("", "rev-old", after)
	settled := err == nil && !res.Requeue && res.RequeueAfter == 0 && after.GetCondition(v1.TypeHealthy).Status == corev1.ConditionTrue
	if settled {
		zz.Cover("settled")
		zz.Assert("inactive-revision-settles-only-after-giving-up-control", controls == 0)
	} else {
		zz.Cover("retried")
	}
	zz.Observe("settled", settled)
}

// HarnessC16UnknownState: a revision whose desired state is neither Active
// nor Inactive (the field is a free string: hand-edited, empty, wrongly
// cased). Such a revision is not active: a reconcile creates none of its
// package's objects and makes it the controller of none.
//
//gosym:harness
//gosym:cover objects-absent objects-uncontrolled
func HarnessC16UnknownState() {
	s := kube.New()
	s.Register(&v1.ProviderRevision{}, &v1.ProviderRevisionList{}, "pkg.crossplane.io", "ProviderRevision")
	s.Register(&v1beta1.Lock{}, &v1beta1.LockList{}, "pkg.crossplane.io", "Lock")
	s.Register(&extv1.CustomResourceDefinition{}, &extv1.CustomResourceDefinitionList{}, zzCRDGroup, zzCRDKind)
	pr := zzRevision("rev-old", zzOldUID)
	pr.Finalizers = []string{finalizer}
	pr.SetSource("xpkg.example.org/org/pkg:v1.0.0")
	state := zz.Str("revision.desiredState")
	zz.Assume(state != string(v1.PackageRevisionActive))
	zz.Assume(state != string(v1.PackageRevisionInactive))
	pr.SetDesiredState(v1.PackageRevisionDesiredState(state))
	const n = 2
	exist := zz.Bool("objects.exist")
	if exist {
		zz.Cover("objects-uncontrolled")
		for i := 0; i < n; i++ {
			s.Put(zzCRD(zzCRDNames[i]))
		}
	} else {
		zz.Cover("objects-absent")
	}
	s.Put(pr)
	pkg := zzMakePackage([]runtime.Object{&pkgmetav1.Provider{ObjectMeta: metav1.ObjectMeta{Name: "m"}}},
		[]runtime.Object{zzCRD(zzCRDNames[0]), zzCRD(zzCRDNames[1])})
	r := NewReconciler(&zzMgr15{c: s},
		WithNewPackageRevisionFn(func() v1.PackageRevision { return &v1.ProviderRevision{} }),
		WithCache(zzCache{}),
		WithParser(zzParser{pkg: pkg}),
		WithLinter(xpkg.NewProviderLinter()),
		WithVersioner(zzVersioner{in: true}),
		WithEstablisher(NewAPIEstablisher(s, "crossplane-system", 10)),
		WithDependencyManager(zzLock{}),
		WithConfigStore(zzCfg{}),
		WithFeatureFlags(&feature.Flags{}),
	)
	_, _ = r.Reconcile(context.Background(), reconcile.Request{NamespacedName: types.NamespacedName{Name: "rev-old"}})
	for _, c := range s.Writes(false) {
		if c.Kind == zzCRDKind {
			zz.Assert("only-an-active-revision-creates-objects", c.Verb != kube.VerbCreate)
		}
	}
	for i := 0; i < n; i++ {
		doc := s.Doc(zzCRDGroup, zzCRDKind, "", zzCRDNames[i])
		if doc == nil {
			continue
		}
		zz.Assert("only-an-active-revision-becomes-controller", kube.ControllerUID(doc) != zzOldUID)
	}
}
