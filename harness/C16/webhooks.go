//go:build verif

//gosym:package github.com/crossplane/crossplane/internal/controller/pkg/revision
//gosym:file zz_c16_webhooks_verif.go

package revision

import (
	"context"
	"reflect"

	admv1 "k8s.io/api/admissionregistration/v1"
	corev1 "k8s.io/api/core/v1"
	extv1 "k8s.io/apiextensions-apiserver/pkg/apis/apiextensions/v1"
	metav1 "k8s.io/apimachinery/pkg/apis/meta/v1"
	"k8s.io/apimachinery/pkg/runtime"
	"k8s.io/apimachinery/pkg/types"
	"k8s.io/utils/ptr"
	"sigs.k8s.io/controller-runtime/pkg/reconcile"

	"github.com/crossplane/crossplane-runtime/pkg/feature"

	pkgmetav1 "github.com/crossplane/crossplane/apis/pkg/meta/v1"
	v1 "github.com/crossplane/crossplane/apis/pkg/v1"
	"github.com/crossplane/crossplane/apis/pkg/v1beta1"
	"github.com/crossplane/crossplane/internal/xpkg"
	zz "github.com/crossplane/crossplane/internal/zzverif"
	"github.com/crossplane/crossplane/internal/zzverif/kube"
)

const (
	zzWHGroup   = "admissionregistration.k8s.io"
	zzWHKind    = "ValidatingWebhookConfiguration"
	zzWHStatic  = "validating-webhook-configuration" // the name controller-tools generates
	zzWHRenamed = "crossplane-provider-" + zzPkg
)

// HarnessC16Webhooks: a package with a CRD (with or without webhook
// conversion) and a validating webhook configuration, which an active
// revision with a TLS server secret installs under a name derived from the
// package. All-or-nothing also covers the ways this can fail (the secret
// missing or without a certificate, webhook conversion without a
// certificate, the derived name taken by another owner's object), and an
// object of another owner under the generated static name is never touched.
//
//gosym:harness
//gosym:cover establish-error establish-ok renamed derived-name-taken no-certificate conversion
func HarnessC16Webhooks() {
	s := kube.New()
	s.Register(&extv1.CustomResourceDefinition{}, &extv1.CustomResourceDefinitionList{}, zzCRDGroup, zzCRDKind)
	s.Register(&admv1.ValidatingWebhookConfiguration{}, &admv1.ValidatingWebhookConfigurationList{}, zzWHGroup, zzWHKind)
	s.Register(&corev1.Secret{}, &corev1.SecretList{}, "", "Secret")

	crd := zzCRD(zzCRDNames[0])
	conversion := zz.Bool("crd.webhookConversion")
	if conversion {
		zz.Cover("conversion")
		crd.Spec.Conversion = &extv1.CustomResourceConversion{Strategy: extv1.WebhookConverter}
	}
	wh := &admv1.ValidatingWebhookConfiguration{
		TypeMeta:   metav1.TypeMeta{APIVersion: "admissionregistration.k8s.io/v1", Kind: zzWHKind},
		ObjectMeta: metav1.ObjectMeta{Name: zzWHStatic},
		Webhooks:   []admv1.ValidatingWebhook{{Name: "v.example.org", ClientConfig: admv1.WebhookClientConfig{Service: &admv1.ServiceReference{Name: "from-the-package", Namespace: "x"}}}},
	}
	objs := []runtime.Object{crd, wh}

	// the revision's TLS server secret
	parent := zzRevision("rev-new", zzNewUID)
	secret := zz.Choose("tlsSecret", 4) // not named, named but missing, without tls.crt, with tls.crt
	if secret > 0 {
		parent.SetTLSServerSecretName(ptr.To("tls-server"))
	}
	if secret >= 2 {
		sec := &corev1.Secret{ObjectMeta: metav1.ObjectMeta{Name: "tls-server", Namespace: "crossplane-system"}}
		if secret == 3 {
			sec.Data = map[string][]byte{"tls.crt": []byte("CERT")}
		}
		s.Put(sec)
	}
	haveCert := secret == 3

	// what is in the cluster already
	foreign := zz.Str("foreign.uid")
	zz.Assume(foreign != zzNewUID)
	zz.Assume(foreign != zzPkgUID)
	zz.Assume(foreign != "")
	other := []metav1.OwnerReference{{APIVersion: "other/v1", Kind: "Other", Name: "other", UID: types.UID(foreign), Controller: ptr.To(true)}}
	derived := zz.Choose("derivedName.state", 3) // absent, ours, another owner's
	if derived > 0 {
		ex := &admv1.ValidatingWebhookConfiguration{TypeMeta: wh.TypeMeta, ObjectMeta: metav1.ObjectMeta{Name: zzWHRenamed}}
		if derived == 1 {
			ex.OwnerReferences = []metav1.OwnerReference{{APIVersion: "pkg.crossplane.io/v1", Kind: "ProviderRevision", Name: "rev-new", UID: zzNewUID, Controller: ptr.To(true)}}
		} else {
			ex.OwnerReferences = other
		}
		s.Put(ex)
	}
	// another provider's configuration under the generated static name
	static := zz.Bool("staticName.takenByAnotherOwner")
	var staticBefore map[string]any
	if static {
		ex := &admv1.ValidatingWebhookConfiguration{TypeMeta: wh.TypeMeta, ObjectMeta: metav1.ObjectMeta{Name: zzWHStatic, OwnerReferences: other}}
		s.Put(ex)
		staticBefore = runtime.DeepCopyJSON(s.Doc(zzWHGroup, zzWHKind, "", zzWHStatic))
	}

	control := zz.Bool("control")
	e := NewAPIEstablisher(s, "crossplane-system", 10)
	_, err := e.Establish(context.Background(), objs, parent, control)
	real := s.Writes(false)
	if derived == 2 && haveCert && control {
		zz.Cover("derived-name-taken")
		zz.Assert("conflict-over-the-derived-name-surfaces", err != nil)
	}

	if static && (haveCert || !control) {
		// with a certificate the configuration is installed under the derived
		// name: the static one belongs to somebody else and stays as it is
		zz.Assert("another-owners-object-under-the-static-name-untouched", reflect.DeepEqual(staticBefore, s.Doc(zzWHGroup, zzWHKind, "", zzWHStatic)) || !control)
	}
	if err != nil {
		zz.Cover("establish-error")
		zz.Assert("failed-establish-writes-nothing", len(real) == 0)
		return
	}
	zz.Cover("establish-ok")
	if !control {
		for _, c := range real {
			zz.Assert("inactive-revision-never-creates", c.Verb != kube.VerbCreate)
		}
		return
	}
	// an active revision got this far:
	zz.Assert("named-secret-must-exist-and-hold-a-certificate", secret == 0 || secret == 3)
	if !haveCert {
		zz.Cover("no-certificate")
		zz.Assert("webhook-conversion-needs-a-certificate", !conversion)
		return
	}
	zz.Cover("renamed")
	zz.Assert("derived-name-of-another-owner-never-taken-over", derived != 2)
	got := &admv1.ValidatingWebhookConfiguration{}
	zz.Assert("configuration-installed-under-the-derived-name", s.Peek("", zzWHRenamed, got))
	zz.Assert("configuration-controlled-by-the-revision", kube.ControllerUID(s.Doc(zzWHGroup, zzWHKind, "", zzWHRenamed)) == zzNewUID)
	if len(got.Webhooks) == 1 {
		cc := got.Webhooks[0].ClientConfig
		zz.Assert("webhook-carries-the-certificate", string(cc.CABundle) == "CERT")
		zz.Assert("webhook-points-at-the-packages-service", cc.Service != nil && cc.Service.Name == zzPkg && cc.Service.Namespace == "crossplane-system")
	} else {
		zz.Assert("webhook-kept", false)
	}
	if conversion {
		gc := &extv1.CustomResourceDefinition{}
		zz.Assert("crd-installed", s.Peek("", zzCRDNames[0], gc))
		ok := gc.Spec.Conversion != nil && gc.Spec.Conversion.Webhook != nil && gc.Spec.Conversion.Webhook.ClientConfig != nil
		zz.Assert("conversion-webhook-configured", ok)
		if ok {
			zz.Assert("conversion-webhook-carries-the-certificate", string(gc.Spec.Conversion.Webhook.ClientConfig.CABundle) == "CERT")
		}
	}
	zz.Observe("writes", len(real))
}

// HarnessC16StatusLost: a revision that was active - it controls its CRD and
// the webhook configuration it installed under the package-derived name - has
// been switched to Inactive, and its status.objectRefs are gone (restored
// from a backup without status). The reconciler re-reads the package to find
// its objects. Once its reconciles settle, the revision controls none of
// them any more.
//
//gosym:harness
//gosym:cover settled webhook-renamed
func HarnessC16StatusLost() {
	s := kube.New()
	s.Register(&v1.ProviderRevision{}, &v1.ProviderRevisionList{}, "pkg.crossplane.io", "ProviderRevision")
	s.Register(&v1beta1.Lock{}, &v1beta1.LockList{}, "pkg.crossplane.io", "Lock")
	s.Register(&extv1.CustomResourceDefinition{}, &extv1.CustomResourceDefinitionList{}, zzCRDGroup, zzCRDKind)
	s.Register(&admv1.ValidatingWebhookConfiguration{}, &admv1.ValidatingWebhookConfigurationList{}, zzWHGroup, zzWHKind)
	s.Register(&corev1.Secret{}, &corev1.SecretList{}, "", "Secret")

	pr := zzRevision("rev-old", zzOldUID)
	pr.Finalizers = []string{finalizer}
	pr.SetSource("xpkg.example.org/org/pkg:v1.0.0")
	pr.SetDesiredState(v1.PackageRevisionInactive)
	pr.SetTLSServerSecretName(ptr.To("tls-server"))
	s.Put(pr)
	s.Put(&corev1.Secret{ObjectMeta: metav1.ObjectMeta{Name: "tls-server", Namespace: "crossplane-system"}, Data: map[string][]byte{"tls.crt": []byte("CERT")}})
	owners := []metav1.OwnerReference{
		{APIVersion: v1.SchemeGroupVersion.String(), Kind: v1.ProviderRevisionKind, Name: "rev-old", UID: zzOldUID, Controller: ptr.To(true)},
		{APIVersion: v1.SchemeGroupVersion.String(), Kind: v1.ProviderKind, Name: zzPkg, UID: zzPkgUID, Controller: ptr.To(false)},
	}
	crd := zzCRD(zzCRDNames[0])
	crd.SetOwnerReferences(owners)
	s.Put(crd)
	hasWebhook := zz.Bool("package.hasWebhookConfiguration")
	objs := []runtime.Object{zzCRD(zzCRDNames[0])}
	if hasWebhook {
		zz.Cover("webhook-renamed")
		// installed by the revision while it was active: under the derived name
		s.Put(&admv1.ValidatingWebhookConfiguration{
			TypeMeta:   metav1.TypeMeta{APIVersion: "admissionregistration.k8s.io/v1", Kind: zzWHKind},
			ObjectMeta: metav1.ObjectMeta{Name: zzWHRenamed, OwnerReferences: owners},
		})
		objs = append(objs, &admv1.ValidatingWebhookConfiguration{
			TypeMeta:   metav1.TypeMeta{APIVersion: "admissionregistration.k8s.io/v1", Kind: zzWHKind},
			ObjectMeta: metav1.ObjectMeta{Name: zzWHStatic},
			Webhooks:   []admv1.ValidatingWebhook{{Name: "v.example.org"}},
		})
	}
	pkg := zzMakePackage([]runtime.Object{&pkgmetav1.Provider{ObjectMeta: metav1.ObjectMeta{Name: "m"}}}, objs)

	r := NewReconciler(&zzMgr15{c: s},
		WithNewPackageRevisionFn(func() v1.PackageRevision { return &v1.ProviderRevision{} }),
		WithCache(zzCache{}),
		WithParser(zzParser{pkg: pkg}),
		WithLinter(xpkg.NewProviderLinter()),
		WithVersioner(zzVersioner{in: true}),
		WithEstablisher(NewAPIEstablisher(s, "crossplane-system", 10)),
		WithDependencyManager(zzLock{}),
		WithConfigStore(zzCfg{}),
		WithFeatureFlags(&feature.Flags{}),
	)
	req := reconcile.Request{NamespacedName: types.NamespacedName{Name: "rev-old"}}
	settled := false
	for k := 0; k < 3 && !settled; k++ {
		res, err := r.Reconcile(context.Background(), req)
		after := &v1.ProviderRevision{}
		s.Peek("", "rev-old", after)
		settled = k > 0 && err == nil && !res.Requeue && res.RequeueAfter == 0 && after.GetCondition(v1.TypeHealthy).Status == corev1.ConditionTrue
	}
	zz.Assert("reconciles-settle", settled)
	zz.Cover("settled")
	zz.Assert("inactive-revision-no-longer-controls-its-crd", kube.ControllerUID(s.Doc(zzCRDGroup, zzCRDKind, "", zzCRDNames[0])) != zzOldUID)
	if hasWebhook {
		zz.Assert("inactive-revision-no-longer-controls-its-webhook-configuration", kube.ControllerUID(s.Doc(zzWHGroup, zzWHKind, "", zzWHRenamed)) != zzOldUID)
	}
}
