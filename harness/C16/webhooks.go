//go:build verif

//gosym:package github.com/crossplane/crossplane/internal/controller/pkg/revision
//gosym:file zz_c16_webhooks_verif.go

package revision

import (
	"context"
	"reflect"

	admv1 "k8s.io/api/admissionregistration/v1"
	corev1 "k8s.io/api/core/v1"
	extv1 "k8s.io/apiextensions-apiserver/pkg/apis/apiextensions/v1"
	metav1 "k8s.io/apimachinery/pkg/apis/meta/v1"
	"k8s.io/apimachinery/pkg/runtime"
	"k8s.io/apimachinery/pkg/types"
	"k8s.io/utils/ptr"

	zz "github.com/crossplane/crossplane/internal/zzverif"
	"github.com/crossplane/crossplane/internal/zzverif/kube"
)

const (
	zzWHGroup   = "admissionregistration.k8s.io"
	zzWHKind    = "ValidatingWebhookConfiguration"
	zzWHStatic  = "validating-webhook-configuration" // the name controller-tools generates
	zzWHRenamed = "crossplane-provider-" + zzPkg
)

// HarnessC16Webhooks: a package with a CRD (with or without webhook
// conversion) and a validating webhook configuration, which an active
// revision with a TLS server secret installs under a name derived from the
// package. All-or-nothing also covers the ways this can fail (the secret
// missing or without a certificate, webhook conversion without a
// certificate, the derived name taken by another owner's object), and an
// object of another owner under the generated static name is never touched.
//
//gosym:harness
//gosym:cover establish-error establish-ok renamed derived-name-taken no-certificate conversion
func HarnessC16Webhooks() {
	s := kube.New()
	s.Register(&extv1.CustomResourceDefinition{}, &extv1.CustomResourceDefinitionList{}, zzCRDGroup, zzCRDKind)
	s.Register(&admv1.ValidatingWebhookConfiguration{}, &admv1.ValidatingWebhookConfigurationList{}, zzWHGroup, zzWHKind)
	s.Register(&corev1.Secret{}, &corev1.SecretList{}, "", "Secret")

	crd := zzCRD(zzCRDNames[0])
	conversion := zz.Bool("crd.webhookConversion")
	if conversion {
		zz.Cover("conversion")
		crd.Spec.Conversion = &extv1.CustomResourceConversion{Strategy: extv1.WebhookConverter}
	}
	wh := &admv1.ValidatingWebhookConfiguration{
		TypeMeta:   metav1.TypeMeta{APIVersion: "admissionregistration.k8s.io/v1", Kind: zzWHKind},
		ObjectMeta: metav1.ObjectMeta{Name: zzWHStatic},
		Webhooks:   []admv1.ValidatingWebhook{{Name: "v.example.org", ClientConfig: admv1.WebhookClientConfig{Service: &admv1.ServiceReference{Name: "from-the-package", Namespace: "x"}}}},
	}
	objs := []runtime.Object{crd, wh}

	// the revision's TLS server secret
	parent := zzRevision("rev-new", zzNewUID)
	secret := zz.Choose("tlsSecret", 4) // not named, named but missing, without tls.crt, with tls.crt
	if secret > 0 {
		parent.SetTLSServerSecretName(ptr.To("tls-server"))
	}
	if secret >= 2 {
		sec := &corev1.Secret{ObjectMeta: metav1.ObjectMeta{Name: "tls-server", Namespace: "crossplane-system"}}
		if secret == 3 {
			sec.Data = map[string][]byte{"tls.crt": []byte("CERT")}
		}
		s.Put(sec)
	}
	haveCert := secret == 3

	// what is in the cluster already
	foreign := zz.Str("foreign.uid")
	zz.Assume(foreign != zzNewUID)
	zz.Assume(foreign != zzPkgUID)
	zz.Assume(foreign != "")
	other := []metav1.OwnerReference{{APIVersion: "other/v1", Kind: "Other", Name: "other", UID: types.UID(foreign), Controller: ptr.To(true)}}
	derived := zz.Choose("derivedName.state", 3) // absent, ours, another owner's
	if derived > 0 {
		ex := &admv1.ValidatingWebhookConfiguration{TypeMeta: wh.TypeMeta, ObjectMeta: metav1.ObjectMeta{Name: zzWHRenamed}}
		if derived == 1 {
			ex.OwnerReferences = []metav1.OwnerReference{{APIVersion: "pkg.crossplane.io/v1", Kind: "ProviderRevision", Name: "rev-new", UID: zzNewUID, Controller: ptr.To(true)}}
		} else {
			ex.OwnerReferences = other
		}
		s.Put(ex)
	}
	// another provider's configuration under the generated static name
	static := zz.Bool("staticName.takenByAnotherOwner")
	var staticBefore map[string]any
	if static {
		ex := &admv1.ValidatingWebhookConfiguration{TypeMeta: wh.TypeMeta, ObjectMeta: metav1.ObjectMeta{Name: zzWHStatic, OwnerReferences: other}}
		s.Put(ex)
		staticBefore = runtime.DeepCopyJSON(s.Doc(zzWHGroup, zzWHKind, "", zzWHStatic))
	}

	control := zz.Bool("control")
	e := NewAPIEstablisher(s, "crossplane-system", 10)
	_, err := e.Establish(context.Background(), objs, parent, control)
	real := s.Writes(false)
	if derived == 2 && haveCert && control {
		zz.Cover("derived-name-taken")
		zz.Assert("conflict-over-the-derived-name-surfaces", err != nil)
	}

	if static && (haveCert || !control) {
		// with a certificate the configuration is installed under the derived
		// name: the static one belongs to somebody else and stays as it is
		zz.Assert("another-owners-object-under-the-static-name-untouched", reflect.DeepEqual(staticBefore, s.Doc(zzWHGroup, zzWHKind, "", zzWHStatic)) || !control)
	}
	if err != nil {
		zz.Cover("establish-error")
		zz.Assert("failed-establish-writes-nothing", len(real) == 0)
		return
	}
	zz.Cover("establish-ok")
	if !control {
		for _, c := range real {
			zz.Assert("inactive-revision-never-creates", c.Verb != kube.VerbCreate)
		}
		return
	}
	// an active revision got this far:
	zz.Assert("named-secret-must-exist-and-hold-a-certificate", secret == 0 || secret == 3)
	if !haveCert {
		zz.Cover("no-certificate")
		zz.Assert("webhook-conversion-needs-a-certificate", !conversion)
		return
	}
	zz.Cover("renamed")
	zz.Assert("derived-name-of-another-owner-never-taken-over", derived != 2)
	got := &admv1.ValidatingWebhookConfiguration{}
	zz.Assert("configuration-installed-under-the-derived-name", s.Peek("", zzWHRenamed, got))
	zz.Assert("configuration-controlled-by-the-revision", kube.ControllerUID(s.Doc(zzWHGroup, zzWHKind, "", zzWHRenamed)) == zzNewUID)
	if len(got.Webhooks) == 1 {
		cc := got.Webhooks[0].ClientConfig
		zz.Assert("webhook-carries-the-certificate", string(cc.CABundle) == "CERT")
		zz.Assert("webhook-points-at-the-packages-service", cc.Service != nil && cc.Service.Name == zzPkg && cc.Service.Namespace == "crossplane-system")
	} else {
		zz.Assert("webhook-kept", false)
	}
	if conversion {
		gc := &extv1.CustomResourceDefinition{}
		zz.Assert("crd-installed", s.Peek("", zzCRDNames[0], gc))
		ok := gc.Spec.Conversion != nil && gc.Spec.Conversion.Webhook != nil && gc.Spec.Conversion.Webhook.ClientConfig != nil
		zz.Assert("conversion-webhook-configured", ok)
		if ok {
			zz.Assert("conversion-webhook-carries-the-certificate", string(gc.Spec.Conversion.Webhook.ClientConfig.CABundle) == "CERT")
		}
	}
	zz.Observe("writes", len(real))
}
