//go:build verif

//gosym:package github.com/crossplane/crossplane/internal/controller/apiextensions/composite
//gosym:file zz_c10_patches_verif.go

package composite

import (
	"reflect"

	"k8s.io/apimachinery/pkg/runtime"
	"k8s.io/apimachinery/pkg/runtime/schema"
	"k8s.io/utils/ptr"

	"github.com/crossplane/crossplane-runtime/pkg/fieldpath"
	"github.com/crossplane/crossplane-runtime/pkg/resource/unstructured/composed"
	"github.com/crossplane/crossplane-runtime/pkg/resource/unstructured/composite"

	v1 "github.com/crossplane/crossplane/apis/apiextensions/v1"
	zz "github.com/crossplane/crossplane/internal/zzverif"
)

func zzPatchPolicy(name string) *v1.PatchPolicy {
	switch zz.Choose(name, 4) {
	case 1:
		return &v1.PatchPolicy{}
	case 2:
		return &v1.PatchPolicy{FromFieldPath: ptr.To(v1.FromFieldPathPolicyOptional)}
	case 3:
		return &v1.PatchPolicy{FromFieldPath: ptr.To(v1.FromFieldPathPolicyRequired)}
	}
	return nil
}

func zzRequired(p *v1.PatchPolicy) bool {
	return p != nil && p.FromFieldPath != nil && *p.FromFieldPath == v1.FromFieldPathPolicyRequired
}

// HarnessC10Patches: a patch reads but never modifies its source object; an
// optional patch whose source path is missing is a no-op; a required one is
// an error; the same inputs give the same output; nothing panics.
//
//gosym:harness panics
//gosym:cover optional-missing-noop required-missing-error patched combine-patched patch-error
func HarnessC10Patches() {
	xr := composite.New(composite.WithGroupVersionKind(schema.GroupVersionKind{Group: "example.org", Version: "v1", Kind: "XR"}))
	xr.SetName("xr")
	spec := map[string]any{"nested": map[string]any{"list": []any{"a", "b"}}}
	hasRegion := zz.Bool("xr.spec.region.present")
	if hasRegion {
		spec["region"] = zz.Str("xr.spec.region")
	}
	hasSize := zz.Bool("xr.spec.size.present")
	if hasSize {
		spec["size"] = zz.Int64("xr.spec.size")
	}
	xr.Object["spec"] = spec

	mkCD := func() *composed.Unstructured {
		cd := composed.New()
		cd.SetAPIVersion("example.org/v1")
		cd.SetKind("Composed")
		cd.SetName("cd")
		cd.Object["spec"] = map[string]any{"forProvider": map[string]any{"existing": "keep"}}
		cd.Object["status"] = map[string]any{"atProvider": map[string]any{"id": zz.Str("cd.status.id")}}
		return cd
	}
	cd := mkCD()

	p := v1.Patch{}
	p.Type = []v1.PatchType{v1.PatchTypeFromCompositeFieldPath, v1.PatchTypeToCompositeFieldPath, v1.PatchTypeCombineFromComposite,
		v1.PatchTypeCombineToComposite, v1.PatchTypePatchSet, "bogus"}[zz.Choose("patch.type", 6)]
	toComposite := p.Type == v1.PatchTypeToCompositeFieldPath || p.Type == v1.PatchTypeCombineToComposite
	combine := p.Type == v1.PatchTypeCombineFromComposite || p.Type == v1.PatchTypeCombineToComposite

	// source paths: present or missing on the source object
	srcPaths := []string{"spec.region", "spec.size", "spec.missing", "spec.nested.list[1]", "spec.nested.list[7]"}
	if toComposite {
		srcPaths = []string{"status.atProvider.id", "spec.forProvider.existing", "status.missing", "spec.forProvider.existing", "status.atProvider.absent"}
	}
	present := func(i int) bool {
		if toComposite {
			return i == 0 || i == 1 || i == 3
		}
		switch i {
		case 0:
			return hasRegion
		case 1:
			return hasSize
		case 3:
			return true
		}
		return false
	}
	from := 0
	if zz.Bool("patch.from.set") {
		from = zz.Choose("patch.from", len(srcPaths))
		p.FromFieldPath = ptr.To(srcPaths[from])
	}
	toPaths := []string{"spec.forProvider.region", "metadata.labels[region]", "spec.forProvider.list[0]"}
	if toComposite {
		toPaths = []string{"status.region", "metadata.annotations[id]", "status.list[0]"}
	}
	if zz.Bool("patch.to.set") {
		p.ToFieldPath = ptr.To(toPaths[zz.Choose("patch.to", len(toPaths))])
	}
	p.Policy = zzPatchPolicy("patch.policy")
	allPresent := present(from)
	if combine && zz.Bool("combine.set") {
		v2 := zz.Choose("combine.var2", len(srcPaths))
		p.Combine = &v1.Combine{
			Variables: []v1.CombineVariable{{FromFieldPath: srcPaths[from]}, {FromFieldPath: srcPaths[v2]}},
			Strategy:  v1.CombineStrategyString,
		}
		if zz.Bool("combine.string.set") {
			p.Combine.String = &v1.StringCombine{Format: "%v-%v"}
		}
		allPresent = present(from) && present(v2)
	}

	var src, dst runtime.Object = xr, cd
	if toComposite {
		src, dst = cd, xr
	}
	srcBefore := src.DeepCopyObject()
	dstBefore := dst.DeepCopyObject()

	err := Apply(p, xr, cd)

	// patches read but never modify their source object
	zz.Assert("patch-never-modifies-its-source", reflect.DeepEqual(srcBefore, src))

	configured := p.FromFieldPath != nil
	if combine {
		configured = p.Combine != nil && p.ToFieldPath != nil
	}
	applicable := p.Type != v1.PatchTypePatchSet && p.Type != "bogus" && configured
	if err != nil {
		zz.Cover("patch-error")
		zz.Assert("failed-patch-leaves-destination-unchanged", reflect.DeepEqual(dstBefore, dst))
	}
	if applicable && !allPresent {
		if zzRequired(p.Policy) {
			zz.Cover("required-missing-error")
			zz.Assert("required-patch-with-missing-source-is-an-error", err != nil)
		} else {
			zz.Cover("optional-missing-noop")
			zz.Assert("optional-patch-with-missing-source-is-no-error", err == nil)
			zz.Assert("optional-patch-with-missing-source-is-a-noop", reflect.DeepEqual(dstBefore, dst))
		}
		return
	}
	if err != nil || !applicable {
		return
	}
	// the patched value arrived
	to := srcPaths[from]
	if p.ToFieldPath != nil {
		to = *p.ToFieldPath
	}
	dm, _ := runtime.DefaultUnstructuredConverter.ToUnstructured(dst)
	sm, _ := runtime.DefaultUnstructuredConverter.ToUnstructured(src)
	got, gerr := fieldpath.Pave(dm).GetValue(to)
	zz.Assert("destination-path-set", gerr == nil)
	if !combine {
		want, _ := fieldpath.Pave(sm).GetValue(srcPaths[from])
		zz.Cover("patched")
		zz.Assert("destination-holds-source-value", reflect.DeepEqual(got, want))
	} else {
		zz.Cover("combine-patched")
		_, isStr := got.(string)
		zz.Assert("combine-yields-a-string", isStr)
	}

	// same inputs, same output
	var dst2 runtime.Object
	if toComposite {
		dst2 = dstBefore.DeepCopyObject()
		err2 := Apply(p, dst2.(*composite.Unstructured), cd)
		zz.Assert("patch-deterministic", err2 == nil && reflect.DeepEqual(dst2, dst))
	} else {
		dst2 = dstBefore.DeepCopyObject()
		err2 := Apply(p, xr, dst2.(*composed.Unstructured))
		zz.Assert("patch-deterministic", err2 == nil && reflect.DeepEqual(dst2, dst))
	}
}
