//go:build verif

//gosym:package github.com/crossplane/crossplane/internal/controller/apiextensions/composite
//gosym:file zz_c10_isolation_verif.go

package composite

import (
	"context"
	"reflect"

	"k8s.io/apimachinery/pkg/runtime"

	v1 "github.com/crossplane/crossplane/apis/apiextensions/v1"
	zz "github.com/crossplane/crossplane/internal/zzverif"
	"github.com/crossplane/crossplane/internal/zzverif/kube"
)

// HarnessC10Isolation: in one reconcile of the patch-and-transform composer
// a composed resource whose template cannot be rendered (a Required patch
// whose source field is missing, at any position among the templates) is not
// created or updated and is reported unsynced, while every other template's
// resource is still rendered with its patched value, applied and reported
// synced.
//
//gosym:harness
//gosym:cover one-fails-others-applied all-render failed-existing-untouched failed-new-not-created
func HarnessC10Isolation() {
	const n = 3
	s := kube.New()
	pre := zzSetupComposedN(s, n, n, "", false)
	renders := make([]bool, n)
	allRender := true
	for i := range renders {
		renders[i] = zz.Bool("template" + string(rune('0'+i)) + ".renders")
		zzSetXRSource(s, i, renders[i])
		allRender = allRender && renders[i]
	}
	policy := v1.FromFieldPathPolicyRequired
	req := CompositionRequest{Revision: zzPTRevision([]bool{true, true, true}, func(i int) []v1.Patch {
		from, to := "spec.src"+string(rune('0'+i)), "spec.patched"
		return []v1.Patch{{Type: v1.PatchTypeFromCompositeFieldPath, FromFieldPath: &from, ToFieldPath: &to, Policy: &v1.PatchPolicy{FromFieldPath: &policy}}}
	})}
	before := make([]map[string]any, n)
	for i, p := range pre {
		if p.exists {
			before[i] = runtime.DeepCopyJSON(s.Doc(zzCDGroup, zzCDKind, "", p.name))
		}
	}

	res, err := NewPTComposer(s, s).Compose(context.Background(), zzReadXR(s), req)
	zz.Assert("unrenderable-template-is-not-a-compose-error", err == nil)
	if err != nil {
		return
	}
	zz.Assert("one-result-per-template", len(res.Composed) == n)
	if len(res.Composed) != n {
		return
	}
	if allRender {
		zz.Cover("all-render")
	}
	for i, p := range pre {
		var cur *zzCD
		for _, cd := range zzStoredComposed(s) {
			if cd.resName == zzResNames[i] && cd.controller == zzXRUIDc {
				c := cd
				cur = &c
			}
		}
		ours := p.exists && p.referenced && p.owner == zzOwnOurs
		if renders[i] {
			if !allRender {
				zz.Cover("one-fails-others-applied")
			}
			zz.Assert("renderable-resource-reported-synced", res.Composed[i].Synced)
			zz.Assert("renderable-resource-exists", cur != nil)
			if cur != nil {
				doc := s.Doc(zzCDGroup, zzCDKind, "", cur.name)
				spec, _ := doc["spec"].(map[string]any)
				zz.Assert("renderable-resource-carries-its-patched-value", spec["patched"] == any("value"))
			}
			continue
		}
		zz.Assert("unrenderable-resource-reported-unsynced-and-unready", !res.Composed[i].Synced && !res.Composed[i].Ready)
		if ours {
			zz.Cover("failed-existing-untouched")
			zz.Assert("unrenderable-existing-resource-not-updated", reflect.DeepEqual(before[i], s.Doc(zzCDGroup, zzCDKind, "", p.name)))
		} else {
			zz.Cover("failed-new-not-created")
			zz.Assert("unrenderable-new-resource-not-created", cur == nil)
		}
	}
	zz.Observe("composed", len(zzStoredComposed(s)))
}
