//go:build verif

//gosym:package github.com/crossplane/crossplane/internal/controller/apiextensions/composite
//gosym:file zz_c10_mergeopts_verif.go

package composite

import (
	"context"
	"reflect"

	"k8s.io/apimachinery/pkg/runtime"
	"k8s.io/utils/ptr"

	xpv1 "github.com/crossplane/crossplane-runtime/apis/common/v1"
	"github.com/crossplane/crossplane-runtime/pkg/resource/unstructured/composed"

	v1 "github.com/crossplane/crossplane/apis/apiextensions/v1"
	zz "github.com/crossplane/crossplane/internal/zzverif"
)

// HarnessC10MergeOptions: the apply-time options a patch's merge policy
// becomes. Applied to the existing composed resource and the newly rendered
// one, they compute the field at the patch's target path from both - existing
// list entries first and kept when appending, existing map values kept when
// asked to - and leave the existing resource exactly as it was.
//
//gosym:harness
//gosym:cover append-slice keep-map-values replace
func HarnessC10MergeOptions() {
	current := composed.New()
	current.SetAPIVersion("example.org/v1")
	current.SetKind("Composed")
	current.SetName("cd")
	current.Object["spec"] = map[string]any{
		"list": []any{"a", "b"},
		"map":  map[string]any{"k1": "cur1", "k2": "cur2"},
	}
	desired := composed.New()
	desired.SetAPIVersion("example.org/v1")
	desired.SetKind("Composed")
	desired.SetName("cd")
	dl := [][]any{{"c"}, {"b", "c"}, {}}[zz.Choose("desired.list", 3)]
	desired.Object["spec"] = map[string]any{
		"list": dl,
		"map":  map[string]any{"k2": "des2", "k3": "des3"},
	}
	before := runtime.DeepCopyJSON(current.Object)

	mo := &xpv1.MergeOptions{}
	switch zz.Choose("appendSlice", 3) {
	case 1:
		mo.AppendSlice = ptr.To(false)
	case 2:
		mo.AppendSlice = ptr.To(true)
	}
	switch zz.Choose("keepMapValues", 3) {
	case 1:
		mo.KeepMapValues = ptr.To(false)
	case 2:
		mo.KeepMapValues = ptr.To(true)
	}
	if zz.Bool("mergeOptions.nil") {
		mo = nil
	}
	path := []string{"spec.list", "spec.map"}[zz.Choose("toFieldPath", 2)]
	opts := mergeOptions([]v1.Patch{{ToFieldPath: ptr.To(path), Policy: &v1.PatchPolicy{MergeOptions: mo}}})
	zz.Assert("one-option-per-patch-with-a-policy", len(opts) == 1)
	for _, o := range opts {
		zz.Assert("merge-option-no-error", o(context.Background(), current, desired) == nil)
	}
	zz.Assert("existing-resource-not-modified", reflect.DeepEqual(before, current.Object))

	spec, _ := desired.Object["spec"].(map[string]any)
	if path == "spec.list" {
		got, _ := spec["list"].([]any)
		if mo.IsAppendSlice() {
			zz.Cover("append-slice")
			// existing entries first, then the new ones that are not there yet
			want := []any{"a", "b"}
			for _, e := range dl {
				if e != any("a") && e != any("b") {
					want = append(want, e)
				}
			}
			zz.Assert("appended-to-the-existing-list", reflect.DeepEqual(got, want))
		} else if mo == nil || mo.KeepMapValues == nil || !*mo.KeepMapValues {
			zz.Cover("replace")
			if len(dl) > 0 {
				zz.Assert("list-replaced", reflect.DeepEqual(got, dl))
			}
		} else {
			// keeping existing values applies to a non-empty existing list too
			zz.Assert("existing-list-kept", reflect.DeepEqual(got, []any{"a", "b"}))
		}
		return
	}
	got, _ := spec["map"].(map[string]any)
	keep := mo != nil && mo.KeepMapValues != nil && *mo.KeepMapValues
	zz.Assert("new-map-key-present", got["k3"] == any("des3"))
	if mo == nil {
		// no options: the rendered value replaces the field
		zz.Assert("without-options-the-field-is-replaced", got["k1"] == nil && got["k2"] == any("des2"))
		return
	}
	zz.Assert("existing-map-key-kept", got["k1"] == any("cur1"))
	if keep {
		zz.Cover("keep-map-values")
		zz.Assert("existing-map-value-kept", got["k2"] == any("cur2"))
	} else {
		zz.Assert("existing-map-value-overridden", got["k2"] == any("des2"))
	}
}
