//go:build verif

//gosym:package github.com/crossplane/crossplane/internal/controller/apiextensions/composite
//gosym:file zz_c10_mergeopts_verif.go

package composite

import (
	"context"
	"reflect"

	metav1 "k8s.io/apimachinery/pkg/apis/meta/v1"
	"k8s.io/apimachinery/pkg/runtime"
	"k8s.io/apimachinery/pkg/runtime/schema"
	"k8s.io/utils/ptr"

	xpv1 "github.com/crossplane/crossplane-runtime/apis/common/v1"
	"github.com/crossplane/crossplane-runtime/pkg/resource/unstructured/composed"
	"github.com/crossplane/crossplane-runtime/pkg/resource/unstructured/composite"

	v1 "github.com/crossplane/crossplane/apis/apiextensions/v1"
	"github.com/crossplane/crossplane/internal/xcrd"
	zz "github.com/crossplane/crossplane/internal/zzverif"
)

// HarnessC10MergeOptions: the apply-time options a patch's merge policy
// becomes. Applied to the existing composed resource and the newly rendered
// one, they compute the field at the patch's target path from both - existing
// list entries first and kept when appending, existing map values kept when
// asked to - and leave the existing resource exactly as it was.
//
//gosym:harness
//gosym:cover append-slice keep-map-values replace
func HarnessC10MergeOptions() {
	current := composed.New()
	current.SetAPIVersion("example.org/v1")
	current.SetKind("Composed")
	current.SetName("cd")
	current.Object["spec"] = map[string]any{
		"list": []any{"a", "b"},
		"map":  map[string]any{"k1": "cur1", "k2": "cur2"},
	}
	desired := composed.New()
	desired.SetAPIVersion("example.org/v1")
	desired.SetKind("Composed")
	desired.SetName("cd")
	dl := [][]any{{"c"}, {"b", "c"}, {}}[zz.Choose("desired.list", 3)]
	desired.Object["spec"] = map[string]any{
		"list": dl,
		"map":  map[string]any{"k2": "des2", "k3": "des3"},
	}
	before := runtime.DeepCopyJSON(current.Object)

	mo := &xpv1.MergeOptions{}
	switch zz.Choose("appendSlice", 3) {
	case 1:
		mo.AppendSlice = ptr.To(false)
	case 2:
		mo.AppendSlice = ptr.To(true)
	}
	switch zz.Choose("keepMapValues", 3) {
	case 1:
		mo.KeepMapValues = ptr.To(false)
	case 2:
		mo.KeepMapValues = ptr.To(true)
	}
	if zz.Bool("mergeOptions.nil") {
		mo = nil
	}
	path := []string{"spec.list", "spec.map"}[zz.Choose("toFieldPath", 2)]
	opts := mergeOptions([]v1.Patch{{ToFieldPath: ptr.To(path), Policy: &v1.PatchPolicy{MergeOptions: mo}}})
	zz.Assert("one-option-per-patch-with-a-policy", len(opts) == 1)
	for _, o := range opts {
		zz.Assert("merge-option-no-error", o(context.Background(), current, desired) == nil)
	}
	zz.Assert("existing-resource-not-modified", reflect.DeepEqual(before, current.Object))

	spec, _ := desired.Object["spec"].(map[string]any)
	if path == "spec.list" {
		got, _ := spec["list"].([]any)
		if mo.IsAppendSlice() {
			zz.Cover("append-slice")
			// existing entries first, then the new ones that are not there yet
			want := []any{"a", "b"}
			for _, e := range dl {
				if e != any("a") && e != any("b") {
					want = append(want, e)
				}
			}
			zz.Assert("appended-to-the-existing-list", reflect.DeepEqual(got, want))
		} else if mo == nil || mo.KeepMapValues == nil || !*mo.KeepMapValues {
			zz.Cover("replace")
			if len(dl) > 0 {
				zz.Assert("list-replaced", reflect.DeepEqual(got, dl))
			}
		} else {
			// keeping existing values applies to a non-empty existing list too
			zz.Assert("existing-list-kept", reflect.DeepEqual(got, []any{"a", "b"}))
		}
		return
	}
	got, _ := spec["map"].(map[string]any)
	keep := mo != nil && mo.KeepMapValues != nil && *mo.KeepMapValues
	zz.Assert("new-map-key-present", got["k3"] == any("des3"))
	if mo == nil {
		// no options: the rendered value replaces the field
		zz.Assert("without-options-the-field-is-replaced", got["k1"] == nil && got["k2"] == any("des2"))
		return
	}
	zz.Assert("existing-map-key-kept", got["k1"] == any("cur1"))
	if keep {
		zz.Cover("keep-map-values")
		zz.Assert("existing-map-value-kept", got["k2"] == any("cur2"))
	} else {
		zz.Assert("existing-map-value-overridden", got["k2"] == any("des2"))
	}
}

// HarnessC10TransformSource: a patch whose source value is an array or a map
// (held by reference inside the unstructured source object) and that passes it
// through a transform leaves the source object exactly as it was, in both
// patch directions.
//
//gosym:harness panics
//gosym:cover join to-composite from-composite
func HarnessC10TransformSource() {
	xr := composite.New(composite.WithGroupVersionKind(schema.GroupVersionKind{Group: "example.org", Version: "v1", Kind: "XR"}))
	xr.SetName("xr")
	xr.Object["spec"] = map[string]any{"ports": []any{int64(80), "b", true}, "tags": map[string]any{"k": int64(1)}}
	cd := composed.New()
	cd.SetAPIVersion("example.org/v1")
	cd.SetKind("Composed")
	cd.SetName("cd")
	cd.Object["status"] = map[string]any{"ports": []any{int64(443), "c"}, "tags": map[string]any{"k": int64(2)}}

	toComposite := zz.Bool("patch.toComposite")
	p := v1.Patch{Type: v1.PatchTypeFromCompositeFieldPath}
	from, to := "spec.ports", "spec.forProvider.joined"
	if toComposite {
		zz.Cover("to-composite")
		p.Type = v1.PatchTypeToCompositeFieldPath
		from, to = "status.ports", "status.joined"
	} else {
		zz.Cover("from-composite")
	}
	if zz.Bool("source.isMap") {
		from = from[:len(from)-len("ports")] + "tags"
	}
	p.FromFieldPath, p.ToFieldPath = ptr.To(from), ptr.To(to)
	switch zz.Choose("transform", 3) {
	case 1:
		zz.Cover("join")
		p.Transforms = []v1.Transform{{Type: v1.TransformTypeString, String: &v1.StringTransform{Type: v1.StringTransformTypeJoin, Join: &v1.StringTransformJoin{Separator: ","}}}}
	case 2:
		p.Transforms = []v1.Transform{{Type: v1.TransformTypeString, String: &v1.StringTransform{Type: v1.StringTransformTypeFormat, Format: ptr.To("%v")}}}
	}
	var src runtime.Object = xr
	if toComposite {
		src = cd
	}
	before := src.DeepCopyObject()
	err := Apply(p, xr, cd)
	zz.Assert("patch-never-modifies-its-source", reflect.DeepEqual(before, src))
	zz.Observe("err", err != nil)
}

// HarnessC10Metadata: the metadata of a composed resource is rendered only
// for an XR that carries a non-empty name-prefix label (absent or empty is an
// error, so the resource is neither named nor applied); the rendered resource
// gets that prefix, the XR's labels and the XR as its controller, and a
// resource that another owner controls is refused.
//
//gosym:harness
//gosym:cover rendered no-prefix foreign-controller
func HarnessC10Metadata() {
	xr := composite.New(composite.WithGroupVersionKind(schema.GroupVersionKind{Group: "example.org", Version: "v1", Kind: "XR"}))
	xr.SetName("xr")
	xr.SetUID("uid-xr")
	prefix := zz.Str("xr.namePrefixLabel")
	switch zz.Choose("xr.namePrefixLabel.state", 3) { // absent, present (any value, the empty one included), present with other labels
	case 1:
		xr.SetLabels(map[string]string{xcrd.LabelKeyNamePrefixForComposed: prefix})
	case 2:
		xr.SetLabels(map[string]string{xcrd.LabelKeyNamePrefixForComposed: prefix, xcrd.LabelKeyClaimName: "cm", xcrd.LabelKeyClaimNamespace: "team"})
	}
	cd := composed.New()
	cd.SetAPIVersion("example.org/v1")
	cd.SetKind("Composed")
	foreign := zz.Bool("composed.controlledByAnotherOwner")
	if foreign {
		cd.SetOwnerReferences([]metav1.OwnerReference{{APIVersion: "example.org/v1", Kind: "Other", Name: "other", UID: "uid-other", Controller: ptr.To(true)}})
	}
	err := RenderComposedResourceMetadata(cd, xr, "res-a")
	has := xr.GetLabels()[xcrd.LabelKeyNamePrefixForComposed]
	if has == "" {
		zz.Cover("no-prefix")
		zz.Assert("no-name-prefix-means-no-metadata", err != nil)
		zz.Assert("no-generate-name-without-a-prefix", cd.GetGenerateName() == "")
		return
	}
	if foreign {
		zz.Cover("foreign-controller")
		zz.Assert("resource-of-another-controller-refused", err != nil)
		return
	}
	zz.Cover("rendered")
	zz.Assert("render-no-error", err == nil)
	zz.Assert("generate-name-is-the-prefix", cd.GetGenerateName() == has+"-")
	zz.Assert("resource-name-annotation-set", GetCompositionResourceName(cd) == "res-a")
	zz.Assert("prefix-label-copied", cd.GetLabels()[xcrd.LabelKeyNamePrefixForComposed] == has)
	c := metav1.GetControllerOf(cd)
	zz.Assert("controlled-by-the-xr", c != nil && c.UID == "uid-xr")
}
