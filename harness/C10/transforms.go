//go:build verif

//gosym:package github.com/crossplane/crossplane/internal/controller/apiextensions/composite
//gosym:file zz_c10_transforms_verif.go

package composite

import (
	extv1 "k8s.io/apiextensions-apiserver/pkg/apis/apiextensions/v1"
	"k8s.io/utils/ptr"

	v1 "github.com/crossplane/crossplane/apis/apiextensions/v1"
	zz "github.com/crossplane/crossplane/internal/zzverif"
)

// zzInput returns an arbitrary JSON value of one of the dynamic types a
// field path can yield.
func zzInput(name string) any { return zzInputC(name, false) }

// zzInputC is zzInput with integers taken from a small concrete list when
// concreteInts is set (used where the code converts them to float64, which
// the engine does not model symbolically).
func zzInputC(name string, concreteInts bool) any {
	switch zz.Choose(name+".kind", 8) {
	case 0:
		return nil
	case 1:
		if concreteInts {
			return zz.Choose(name+".boolc", 2) == 1
		}
		return zz.Bool(name + ".bool")
	case 2:
		if concreteInts {
			return []int64{0, 1, -7, 1 << 53}[zz.Choose(name+".int64c", 4)]
		}
		return zz.Int64(name + ".int64")
	case 3:
		if concreteInts {
			return []int{0, 1, -7}[zz.Choose(name+".intc", 3)]
		}
		return zz.Int(name + ".int")
	case 4:
		return []float64{0, 2.5, -1e300}[zz.Choose(name+".float", 3)]
	case 5:
		return []string{"", "abc", "true", "42", "2.5", "1Gi", "aGk="}[zz.Choose(name+".string", 7)]
	case 6:
		return []any{"a", int64(1), nil}
	default:
		return map[string]any{"k": "v"}
	}
}

func zzOptInt64(name string) *int64 {
	if zz.Bool(name + ".set") {
		return ptr.To(zz.Int64(name))
	}
	return nil
}

// HarnessC10Math: math transforms are total and clamp as documented.
//
//gosym:harness panics
//gosym:cover clamped passthrough math-error
func HarnessC10Math() {
	mt := []v1.MathTransformType{v1.MathTransformTypeMultiply, v1.MathTransformTypeClampMin, v1.MathTransformTypeClampMax, "", "bogus"}[zz.Choose("math.type", 5)]
	m := &v1.MathTransform{Type: mt, Multiply: zzOptInt64("multiply"), ClampMin: zzOptInt64("clampMin"), ClampMax: zzOptInt64("clampMax")}
	t := v1.Transform{Type: v1.TransformTypeMath}
	if zz.Bool("math.present") {
		t.Math = m
	}
	in := zzInput("in")
	if _, isFloat := in.(float64); isFloat {
		// float64(*Multiply), and the comparison of a float with float64(bound),
		// are floating-point kernels: concrete operands only (HarnessC10ClampFloat
		// covers clamping floats over concrete lists)
		if m.Multiply != nil {
			m.Multiply = ptr.To(int64(3))
		}
		if m.ClampMin != nil {
			m.ClampMin = ptr.To(int64(1))
		}
		if m.ClampMax != nil {
			m.ClampMax = ptr.To(int64(1))
		}
	}
	out, err := Resolve(t, in)
	if err != nil {
		zz.Cover("math-error")
		return
	}
	n, isInt64 := in.(int64)
	if !isInt64 {
		return
	}
	switch mt {
	case v1.MathTransformTypeClampMin:
		o, ok := out.(int64)
		zz.Assert("clamp-min-returns-int64", ok)
		zz.Assert("clamp-min-lower-bound", o >= *m.ClampMin)
		zz.Assert("clamp-min-identity-or-bound", zz.Or(o == n, o == *m.ClampMin))
		if o != n {
			zz.Cover("clamped")
		} else {
			zz.Cover("passthrough")
		}
	case v1.MathTransformTypeClampMax:
		o, ok := out.(int64)
		zz.Assert("clamp-max-returns-int64", ok)
		zz.Assert("clamp-max-upper-bound", o <= *m.ClampMax)
		zz.Assert("clamp-max-identity-or-bound", zz.Or(o == n, o == *m.ClampMax))
	case v1.MathTransformTypeMultiply, "":
		_, ok := out.(int64)
		zz.Assert("multiply-returns-int64", ok)
	}
	// same inputs, same output
	out2, err2 := Resolve(t, in)
	zz.Assert("math-deterministic", zz.And(err2 == nil, out2 == out))
}

// HarnessC10String: string transforms never panic, whatever is configured
// or missing, including regexp groups that are negative or out of range.
//
//gosym:harness panics
//gosym:cover string-ok string-error regexp-group
func HarnessC10String() {
	st := []v1.StringTransformType{v1.StringTransformTypeFormat, v1.StringTransformTypeConvert, v1.StringTransformTypeTrimPrefix,
		v1.StringTransformTypeTrimSuffix, v1.StringTransformTypeRegexp, v1.StringTransformTypeJoin, "", "bogus"}[zz.Choose("string.type", 8)]
	s := &v1.StringTransform{Type: st}
	// the configuration that belongs to the chosen type is present or missing
	if zz.Bool("config.set") {
		switch st {
		case v1.StringTransformTypeFormat, "":
			s.Format = ptr.To([]string{"%s-suffix", "%d", "%!", "plain", "%5.2f"}[zz.Choose("format", 5)])
		case v1.StringTransformTypeConvert:
			s.Convert = ptr.To([]v1.StringConversionType{v1.StringConversionTypeToUpper, v1.StringConversionTypeToLower, v1.StringConversionTypeToJSON,
				v1.StringConversionTypeToBase64, v1.StringConversionTypeFromBase64, v1.StringConversionTypeToSHA256, v1.StringConversionTypeToAdler32, "bogus"}[zz.Choose("convert", 8)])
		case v1.StringTransformTypeTrimPrefix, v1.StringTransformTypeTrimSuffix:
			s.Trim = ptr.To([]string{"", "a", "abc"}[zz.Choose("trim", 3)])
		case v1.StringTransformTypeRegexp:
			r := &v1.StringTransformRegexp{Match: []string{"^a(b+)c$", "(", "(a)|(b)", "2"}[zz.Choose("regexp.match", 4)]}
			if zz.Bool("regexp.group.set") {
				r.Group = ptr.To(zz.Int("regexp.group"))
				zz.Cover("regexp-group")
			}
			s.Regexp = r
		case v1.StringTransformTypeJoin:
			s.Join = &v1.StringTransformJoin{Separator: ","}
		}
	}
	t := v1.Transform{Type: v1.TransformTypeString}
	if zz.Bool("string.present") {
		t.String = s
	}
	// string transforms render their input as text: concrete inputs only
	_, err := Resolve(t, zzInputC("in", true))
	if err != nil {
		zz.Cover("string-error")
	} else {
		zz.Cover("string-ok")
	}
}

// HarnessC10Convert: convert transforms are total; documented conversions
// between bool, int64 and string round-trip.
//
//gosym:harness panics
//gosym:cover convert-ok convert-error roundtrip
func HarnessC10Convert() {
	types := []v1.TransformIOType{v1.TransformIOTypeString, v1.TransformIOTypeBool, v1.TransformIOTypeInt, v1.TransformIOTypeInt64,
		v1.TransformIOTypeFloat64, v1.TransformIOTypeObject, v1.TransformIOTypeArray, "bogus"}
	to := types[zz.Choose("convert.to", len(types))]
	c := &v1.ConvertTransform{ToType: to}
	if zz.Bool("convert.format.set") {
		c.Format = ptr.To([]v1.ConvertTransformFormat{v1.ConvertTransformFormatNone, v1.ConvertTransformFormatQuantity, v1.ConvertTransformFormatJSON, "bogus"}[zz.Choose("convert.format", 4)])
	}
	t := v1.Transform{Type: v1.TransformTypeConvert}
	if zz.Bool("convert.present") {
		t.Convert = c
	}
	in := zzInputC("in", to == v1.TransformIOTypeFloat64)
	out, err := Resolve(t, in)
	if err != nil {
		zz.Cover("convert-error")
		return
	}
	zz.Cover("convert-ok")
	// bool -> int64 -> bool preserves the value
	if b, ok := in.(bool); ok && to == v1.TransformIOTypeInt64 {
		back, err := Resolve(v1.Transform{Type: v1.TransformTypeConvert, Convert: &v1.ConvertTransform{ToType: v1.TransformIOTypeBool}}, out)
		zz.Assert("bool-int64-bool-no-error", err == nil)
		if err == nil {
			bb, isBool := back.(bool)
			zz.Assert("bool-int64-bool-roundtrip", zz.And(isBool, bb == b))
			zz.Cover("roundtrip")
		}
	}
	// identity conversions return the input
	if _, ok := in.(int64); ok && (to == v1.TransformIOTypeInt64 || to == v1.TransformIOTypeInt) {
		zz.Assert("int64-identity", out == in)
	}
	if _, ok := in.(bool); ok && to == v1.TransformIOTypeBool {
		zz.Assert("bool-identity", out == in)
	}
}

// HarnessC10MapMatch: map and match transforms are total and select the
// configured result for a matching key / literal.
//
//gosym:harness panics
//gosym:cover map-hit map-miss match-literal match-fallback
func HarnessC10MapMatch() {
	key := zz.Str("key")
	in := any(key)
	if zz.Bool("in.other") {
		in = zzInput("in")
	}
	if zz.Bool("use.map") {
		t := v1.Transform{Type: v1.TransformTypeMap}
		if zz.Bool("map.present") {
			t.Map = &v1.MapTransform{Pairs: map[string]extv1.JSON{
				"us":    {Raw: []byte(`"us-east-1"`)},
				"eu":    {Raw: []byte(`{"region":"eu-west-1"}`)},
				"weird": {Raw: []byte(`{not json`)},
			}}
		}
		out, err := Resolve(t, in)
		if s, ok := in.(string); ok && t.Map != nil && err == nil {
			zz.Cover("map-hit")
			zz.Assert("map-hit-is-a-key", zz.Or(s == "us", s == "eu"))
			if s == "us" {
				zz.Assert("map-us", out == any("us-east-1"))
			}
		}
		if err != nil {
			zz.Cover("map-miss")
		}
		return
	}
	lit := zz.Str("literal")
	m := &v1.MatchTransform{Patterns: []v1.MatchTransformPattern{
		{Type: v1.MatchTransformPatternTypeLiteral, Literal: &lit, Result: extv1.JSON{Raw: []byte(`"hit"`)}},
	}}
	if zz.Bool("pattern.nil-literal") {
		m.Patterns[0].Literal = nil
	}
	if zz.Bool("pattern.regexp") {
		m.Patterns = append(m.Patterns, v1.MatchTransformPattern{Type: v1.MatchTransformPatternTypeRegexp, Result: extv1.JSON{Raw: []byte(`"re"`)}})
		if zz.Bool("pattern.regexp.set") {
			m.Patterns[1].Regexp = ptr.To([]string{"^x", "("}[zz.Choose("pattern.regexp.re", 2)])
		}
	}
	switch zz.Choose("fallback", 3) {
	case 1:
		m.FallbackTo = v1.MatchFallbackToTypeInput
	case 2:
		m.FallbackValue = extv1.JSON{Raw: []byte(`"fb"`)}
	}
	t := v1.Transform{Type: v1.TransformTypeMatch}
	if zz.Bool("match.present") {
		t.Match = m
	}
	if _, isStr := in.(string); isStr && len(m.Patterns) > 1 {
		// regexps only run on concrete subjects
		in = "xyz"
		key = "xyz"
	}
	out, err := Resolve(t, in)
	if err == nil && t.Match != nil {
		if s, ok := in.(string); ok && m.Patterns[0].Literal != nil {
			if s == lit {
				zz.Cover("match-literal")
				zz.Assert("match-literal-result", out == any("hit"))
			} else if len(m.Patterns) == 1 && m.FallbackTo == v1.MatchFallbackToTypeInput {
				zz.Cover("match-fallback")
				zz.Assert("match-fallback-to-input", out == in)
			}
		}
	}
}

// HarnessC10Base64: the ToBase64 and FromBase64 string conversions are
// inverses of each other, also for text whose standard encoding uses the two
// characters in which the base64 alphabets differ ('+', '/') and for every
// padding length.
//
//gosym:harness panics
//gosym:cover roundtrip plus-or-slash padded
func HarnessC10Base64() {
	texts := []string{"", "a", "ab", "abc", "subjects?_d", "~~~", "\xfb\xff\xbe", ">>>?", "hello world", "\x00\x10\x83"}
	in := texts[zz.Choose("text", len(texts))]
	enc, err := Resolve(v1.Transform{Type: v1.TransformTypeString, String: &v1.StringTransform{Type: v1.StringTransformTypeConvert, Convert: ptr.To(v1.StringConversionTypeToBase64)}}, in)
	zz.Assert("to-base64-no-error", err == nil)
	if err != nil {
		return
	}
	es, _ := enc.(string)
	for i := 0; i < len(es); i++ {
		if es[i] == '+' || es[i] == '/' {
			zz.Cover("plus-or-slash")
		}
		if es[i] == '=' {
			zz.Cover("padded")
		}
	}
	dec, err := Resolve(v1.Transform{Type: v1.TransformTypeString, String: &v1.StringTransform{Type: v1.StringTransformTypeConvert, Convert: ptr.To(v1.StringConversionTypeFromBase64)}}, enc)
	zz.Assert("from-base64-of-to-base64-no-error", err == nil)
	if err == nil {
		zz.Cover("roundtrip")
		zz.Assert("base64-roundtrip-preserves-the-value", dec == any(in))
	}
}

// HarnessC10ClampFloat: clamping a floating-point input. Floats are outside
// the solver's reach, so input and bound come from small concrete lists
// (around the bound, fractional, huge); the result, as a number, is never
// above clampMax / below clampMin, and is the input or the bound.
//
//gosym:harness panics
//gosym:cover clamped passthrough
func HarnessC10ClampFloat() {
	in := []float64{5.5, -5.5, 5, 4.9, -4.9, 1e300, -1e300}[zz.Choose("in.float", 7)]
	bound := []int64{5, -5, 6, -6, 0}[zz.Choose("bound", 5)]
	max := zz.Bool("clamp.max")
	m := &v1.MathTransform{Type: v1.MathTransformTypeClampMin, ClampMin: ptr.To(bound)}
	if max {
		m = &v1.MathTransform{Type: v1.MathTransformTypeClampMax, ClampMax: ptr.To(bound)}
	}
	out, err := Resolve(v1.Transform{Type: v1.TransformTypeMath, Math: m}, in)
	zz.Assert("clamp-of-a-float-no-error", err == nil)
	if err != nil {
		return
	}
	var o float64
	switch v := out.(type) {
	case float64:
		o = v
		zz.Cover("passthrough")
		zz.Assert("clamp-identity-or-bound", v == in)
	case int64:
		o = float64(v)
		zz.Cover("clamped")
		zz.Assert("clamp-identity-or-bound", v == bound)
	default:
		zz.Assert("clamp-returns-a-number", false)
		return
	}
	if max {
		zz.Assert("clamp-max-upper-bound", o <= float64(bound))
	} else {
		zz.Assert("clamp-min-lower-bound", o >= float64(bound))
	}
}

// HarnessC10FloatString: the documented convert round trip float64 -> string
// -> float64 preserves the value. Floats are outside the solver's reach, so
// the inputs come from a concrete list chosen around the precision limits of
// narrower formats (2^24+1, values needing 17 significant digits, the largest
// and smallest magnitudes).
//
//gosym:harness panics
//gosym:cover roundtrip
func HarnessC10FloatString() {
	in := []float64{0, 1.5, 0.1, -2.5, 16777217, 3.141592653589793, 1.0000000001, 9007199254740993, 1e300, -1e300, 5e-324, 123456789.125}[zz.Choose("in.float", 12)]
	out, err := Resolve(v1.Transform{Type: v1.TransformTypeConvert, Convert: &v1.ConvertTransform{ToType: v1.TransformIOTypeString}}, in)
	zz.Assert("float64-to-string-no-error", err == nil)
	if err != nil {
		return
	}
	_, isStr := out.(string)
	zz.Assert("float64-to-string-is-a-string", isStr)
	back, err := Resolve(v1.Transform{Type: v1.TransformTypeConvert, Convert: &v1.ConvertTransform{ToType: v1.TransformIOTypeFloat64}}, out)
	zz.Assert("string-to-float64-no-error", err == nil)
	if err != nil {
		return
	}
	f, isFloat := back.(float64)
	zz.Cover("roundtrip")
	zz.Assert("float64-string-float64-roundtrip", isFloat && f == in)
}
