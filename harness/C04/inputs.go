//go:build verif

//gosym:package github.com/crossplane/crossplane/internal/controller/apiextensions/composite
//gosym:file zz_c04_inputs_verif.go

package composite

import (
	"context"

	corev1 "k8s.io/api/core/v1"
	metav1 "k8s.io/apimachinery/pkg/apis/meta/v1"
	"k8s.io/apimachinery/pkg/runtime"

	xpv1 "github.com/crossplane/crossplane-runtime/apis/common/v1"

	v1 "github.com/crossplane/crossplane/apis/apiextensions/v1"
	zz "github.com/crossplane/crossplane/internal/zzverif"
	"github.com/crossplane/crossplane/internal/zzverif/kube"
)

// HarnessC04Inputs: each pipeline step is sent its own input and exactly the
// credentials its step declares with a Secret source, read from the secret
// it names - not those of any other step.
//
//gosym:harness
//gosym:cover own-credentials no-credentials own-input no-input same-name-other-secret
func HarnessC04Inputs() {
	nSteps := zz.Bound(3, 3)
	s := kube.New()
	s.Register(&corev1.Secret{}, &corev1.SecretList{}, "", "Secret")
	zzSetupComposedN(s, 1, 0, "", false)
	secrets := []string{"sec-a", "sec-b"}
	for _, n := range secrets {
		s.Put(&corev1.Secret{ObjectMeta: metav1.ObjectMeta{Namespace: "creds", Name: n}, Data: map[string][]byte{"token": []byte("token-of-" + n)}})
	}
	credNames := []string{"cred-x", "cred-y"}

	type want struct {
		name, data string
	}
	runner := &zzRunner{}
	rev := zzRevision(nSteps)
	wants := make([][]want, nSteps)
	hasInput := make([]bool, nSteps)
	for i := 0; i < nSteps; i++ {
		nm := "step" + string(rune('0'+i))
		runner.steps = append(runner.steps, zzStep{desired: []bool{true}})
		hasInput[i] = zz.Bool(nm + ".hasInput")
		if hasInput[i] {
			rev.Spec.Pipeline[i].Input = &runtime.RawExtension{Raw: []byte(`{"apiVersion":"fn.example.org/v1","kind":"Input","for":"` + nm + `"}`)}
		}
		// each of the two credential names: not declared, declared with
		// source None, or declared from one of the two secrets
		for k, cn := range credNames {
			opts := 4
			if k == 1 {
				opts = zz.Bound(2, 4)
			}
			c := zz.Choose(nm+"."+cn, opts)
			if opts == 2 && c == 1 {
				c = 3 // quick tier: the second name is either not declared or read from secret B
			}
			switch c {
			case 0:
			case 1:
				rev.Spec.Pipeline[i].Credentials = append(rev.Spec.Pipeline[i].Credentials, v1.FunctionCredentials{Name: cn, Source: v1.FunctionCredentialsSourceNone})
			default:
				sec := secrets[c-2]
				rev.Spec.Pipeline[i].Credentials = append(rev.Spec.Pipeline[i].Credentials, v1.FunctionCredentials{Name: cn, Source: v1.FunctionCredentialsSourceSecret,
					SecretRef: &xpv1.SecretReference{Namespace: "creds", Name: sec}})
				wants[i] = append(wants[i], want{cn, "token-of-" + sec})
				if k == 0 && i > 0 {
					for _, w := range wants[i-1] {
						if w.name == cn && w.data != "token-of-"+sec {
							zz.Cover("same-name-other-secret")
						}
					}
				}
			}
		}
	}

	c := NewFunctionComposer(s, s, NewFetchingFunctionRunner(runner, NewExistingExtraResourcesFetcher(s)))
	_, err := c.Compose(context.Background(), zzReadXR(s), CompositionRequest{Revision: rev})
	zz.Assert("compose-no-error", err == nil)
	if err != nil {
		return
	}
	zz.Assert("every-step-called-once", len(runner.calls) == nSteps)
	for _, call := range runner.calls {
		w := wants[call.step]
		zz.Assert("step-sent-exactly-its-declared-credentials", len(call.credNames) == len(w))
		for _, x := range w {
			found := false
			for k, cn := range call.credNames {
				if cn == x.name {
					found = true
					zz.Assert("credential-read-from-the-steps-own-secret", call.credData[k] == x.data)
				}
			}
			zz.Assert("declared-credential-sent", found)
		}
		if len(w) > 0 {
			zz.Cover("own-credentials")
		} else {
			zz.Cover("no-credentials")
		}
		if hasInput[call.step] {
			zz.Cover("own-input")
			zz.Assert("step-sent-its-own-input", call.input != nil && call.input.GetFields()["for"].GetStringValue() == "step"+string(rune('0'+call.step)))
		} else {
			zz.Cover("no-input")
			zz.Assert("step-without-input-sent-none", call.input == nil)
		}
	}
	zz.Observe("calls", len(runner.calls))
}
