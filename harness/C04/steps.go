//go:build verif

//gosym:package github.com/crossplane/crossplane/internal/controller/apiextensions/composite
//gosym:file zz_c04_steps_verif.go

package composite

import (
	"context"
	"reflect"

	kunstructured "k8s.io/apimachinery/pkg/apis/meta/v1/unstructured"

	zz "github.com/crossplane/crossplane/internal/zzverif"
	"github.com/crossplane/crossplane/internal/zzverif/kube"
)

// HarnessC04Steps: every pipeline step is called under the name it
// references, sees the same observed state (the XR and exactly the existing
// composed resources of this XR), the desired state and context returned by
// the previous step, and - between rounds of one step - exactly the extra
// resources matching the latest requirements; the final desired state is
// the last step's output; results are surfaced in order, none dropped.
//
//gosym:harness
//gosym:cover extra-found extra-missing multi-round results-surfaced selected-by-label several-matched kind-ending-in-list
func HarnessC04Steps() {
	n := zz.Bound(2, 2)
	nSteps := zz.Bound(2, 3)
	s := kube.New()
	foreign := zz.Str("foreign.uid")
	zz.Assume(foreign != zzXRUIDc)
	zz.Assume(foreign != "")
	pre := zzSetupComposedN(s, n, 1, foreign, true)

	// the first step selects its extra resources by name, or by a label (the
	// label variant keeps the other step behaviours fixed: the dimensions are
	// independent and their product is large)
	byLabel := zz.Bool("step0.selectsByLabel")
	// the kind of the extra resources: any kind name is possible, also one
	// that ends in "List" (AccessList, AllowList ...)
	zzExtraKind = "Extra"
	if byLabel && zz.Bool("extra.kindEndsInList") {
		zz.Cover("kind-ending-in-list")
		zzExtraKind = "AccessList"
	}

	// cluster content the selectors may match: "extra-a" exists or not
	extraAExists := zz.Bool("cluster.extra-a")
	if extraAExists {
		e := &kunstructured.Unstructured{}
		e.SetAPIVersion("example.org/v1")
		e.SetKind(zzExtraKind)
		e.SetName("extra-a")
		e.SetLabels(map[string]string{"round": "extra-a"})
		s.Put(e)
	}
	// a second object carrying the same label as extra-a (selection by labels
	// may match several objects)
	extraCExists := byLabel && zz.Bool("cluster.extra-c")
	if extraCExists {
		e := &kunstructured.Unstructured{}
		e.SetAPIVersion("example.org/v1")
		e.SetKind(zzExtraKind)
		e.SetName("extra-c")
		e.SetLabels(map[string]string{"round": "extra-a"})
		s.Put(e)
	}
	extraBName := zz.Str("cluster.extra-b.name") // an object with a solver-chosen name
	zz.Assume(extraBName != "")
	zz.Assume(extraBName != "extra-a")
	zz.Assume(extraBName != "extra-c")
	eb := &kunstructured.Unstructured{}
	eb.SetAPIVersion("example.org/v1")
	eb.SetKind(zzExtraKind)
	eb.SetName(extraBName)
	eb.SetLabels(map[string]string{"round": extraBName})
	s.Put(eb)

	runner := &zzRunner{}
	for i := 0; i < nSteps; i++ {
		nm := "step" + string(rune('0'+i))
		st := zzStep{desired: make([]bool, n), ctxValue: "ctx-" + nm}
		for j := range st.desired {
			// the last step's output is solver-chosen; earlier steps desire everything
			st.desired[j] = true
			if i == nSteps-1 && !byLabel {
				st.desired[j] = zz.Bool(nm + ".desired" + string(rune('0'+j)))
			}
		}
		results := 0
		if !byLabel {
			results = zz.Choose(nm+".results", 3)
		}
		switch results {
		case 1:
			st.warning = true
		case 2:
			st.warning, st.normal = true, true
		}
		if i == 0 {
			// requirements: round 0 asks for a solver-chosen name, round 1 for
			// another, then stable
			st.reqNames = []string{zz.Str(nm + ".req0"), zz.Str(nm + ".req1"), "extra-a"}
			// the requirement's own name may change from round to round too
			if !byLabel && zz.Bool(nm+".keysChange") {
				st.reqKeys = []string{"first", "second", "second"}
			}
			// the selector matches by name, or by the label "round"
			st.reqByLabel = byLabel
		}
		runner.steps = append(runner.steps, st)
	}

	c := NewFunctionComposer(s, s, NewFetchingFunctionRunner(runner, NewExistingExtraResourcesFetcher(s)))
	rev := zzRevision(nSteps)
	res, err := c.Compose(context.Background(), zzReadXR(s), CompositionRequest{Revision: rev})
	zz.Assert("compose-no-error", err == nil)
	if err != nil {
		return
	}

	// calls arrive in pipeline order, under the referenced function's name
	last := -1
	for _, call := range runner.calls {
		zz.Assert("steps-called-in-pipeline-order", call.step >= last)
		last = call.step
		zz.Assert("step-called-by-its-function-name", call.name == rev.Spec.Pipeline[call.step].FunctionRef.Name)
	}
	zz.Assert("every-step-called", last == nSteps-1)

	// the observed state is the same for all steps: the XR and exactly the
	// existing composed resources controlled by (or adoptable by) this XR
	first := runner.calls[0]
	for _, call := range runner.calls {
		zz.Assert("same-observed-state-for-every-step", call.observed == first.observed)
	}
	obs := first.observed.GetResources()
	for i, p := range pre {
		_, in := obs[zzResNames[i]]
		zz.Assert("observed-is-exactly-the-xrs-composed-resources", in == (p.exists && p.referenced && p.owner != zzOwnForeign))
	}
	zz.Assert("observed-xr-present", first.observed.GetComposite().GetResource() != nil)
	md, _ := first.observed.GetComposite().GetResource().AsMap()["metadata"].(map[string]any)
	zz.Assert("observed-xr-is-this-xr", md["name"] == any(zzXRName))

	// desired and context are threaded from step to step
	var prev *zzCall
	for k := range runner.calls {
		call := &runner.calls[k]
		if call.nth == 0 {
			if call.step == 0 {
				zz.Assert("first-step-starts-from-empty-desired", len(call.desired.GetResources()) == 0)
				zz.Assert("first-step-starts-from-empty-context", len(call.context.GetFields()) == 0)
			} else {
				zz.Assert("step-receives-previous-steps-desired-state", call.desired == prev.rsp.GetDesired())
				zz.Assert("step-receives-previous-steps-context", call.context == prev.rsp.GetContext())
			}
		} else {
			zz.Cover("multi-round")
			// same step, next round: context of the previous response, the
			// desired state the step was first called with (the previous
			// step's output, not its own earlier answer), and exactly the extra
			// resources the previous response required
			zz.Assert("round-receives-previous-rounds-context", call.context == prev.rsp.GetContext())
			zz.Assert("every-round-receives-the-previous-steps-desired-state", call.desired == prev.desired)
			want := prev.rsp.GetRequirements().GetExtraResources()
			zz.Assert("round-supplied-exactly-the-required-keys", len(call.extraKeys) == len(want))
			for x, key := range call.extraKeys {
				sel, ok := want[key]
				zz.Assert("round-supplied-only-required-keys", ok)
				if !ok {
					continue
				}
				if sel.GetMatchLabels() != nil {
					// by labels: exactly the objects that carry the label value
					zz.Cover("selected-by-label")
					wantLabel := sel.GetMatchLabels().GetLabels()["round"]
					matching := 0
					if wantLabel == "extra-a" && extraAExists {
						matching++
					}
					if wantLabel == "extra-a" && extraCExists {
						matching++
					}
					if wantLabel == extraBName {
						matching++
					}
					zz.Assert("label-selection-supplies-exactly-the-matching-resources", call.extraCounts[x] == matching)
					if matching == 2 {
						zz.Cover("several-matched")
					}
					continue
				}
				wantName := sel.GetMatchName()
				exists := (wantName == "extra-a" && extraAExists) || wantName == extraBName || (wantName == "extra-c" && extraCExists)
				if exists {
					zz.Cover("extra-found")
					zz.Assert("existing-extra-resource-supplied", call.extraCounts[x] == 1 && call.extraNames[x] == wantName)
				} else {
					zz.Cover("extra-missing")
					zz.Assert("missing-extra-resource-supplied-as-absent", call.extraCounts[x] == 0)
				}
			}
		}
		prev = call
	}

	// the final desired state is the last step's output
	final := runner.steps[nSteps-1].desired
	for i := 0; i < n; i++ {
		found := false
		for _, cr := range res.Composed {
			if string(cr.ResourceName) == zzResNames[i] {
				found = true
			}
		}
		zz.Assert("final-desired-state-is-last-steps-output", found == final[i])
	}

	// results are surfaced in pipeline order, none dropped
	wantEvents := 0
	for _, st := range runner.steps {
		if st.warning {
			wantEvents++
		}
		if st.normal {
			wantEvents++
		}
	}
	zz.Assert("no-result-dropped", len(res.Events) == wantEvents)
	if wantEvents > 0 {
		zz.Cover("results-surfaced")
	}
	_ = byLabel
	k := 0
	for i, st := range runner.steps {
		for _, sev := range []bool{st.warning, st.normal} {
			if sev && k < len(res.Events) {
				zz.Assert("results-in-pipeline-order", res.Events[k].Detail == "Pipeline step \"step"+string(rune('0'+i))+"\"")
				k++
			}
		}
	}
	_ = reflect.DeepEqual
	zz.Observe("calls", len(runner.calls), len(res.Events))
}
