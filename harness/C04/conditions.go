//go:build verif

//gosym:package github.com/crossplane/crossplane/internal/controller/apiextensions/composite
//gosym:file zz_c04_conditions_verif.go

package composite

import (
	"context"

	fnv1 "github.com/crossplane/crossplane/apis/apiextensions/fn/proto/v1"
	zz "github.com/crossplane/crossplane/internal/zzverif"
	"github.com/crossplane/crossplane/internal/zzverif/kube"
)

// HarnessC04Conditions: the conditions and results the pipeline's steps
// return are surfaced in pipeline order and none is dropped, whichever steps
// return a condition, a result, both or neither.
//
//gosym:harness
//gosym:cover condition-without-result condition-and-result result-only
func HarnessC04Conditions() {
	nSteps := zz.Bound(3, 4)
	s := kube.New()
	zzSetupComposedN(s, 1, 0, "", false)
	runner := &zzRunner{}
	hasCond := make([]bool, nSteps)
	hasRes := make([]bool, nSteps)
	for i := 0; i < nSteps; i++ {
		nm := "step" + string(rune('0'+i))
		st := zzStep{desired: []bool{true}}
		switch zz.Choose(nm+".returns", 4) {
		case 1:
			hasCond[i] = true
			zz.Cover("condition-without-result")
		case 2:
			hasCond[i], hasRes[i] = true, true
			zz.Cover("condition-and-result")
		case 3:
			hasRes[i] = true
			zz.Cover("result-only")
		}
		if hasCond[i] {
			st.conds = []*fnv1.Condition{{Type: "From" + nm, Status: fnv1.Status_STATUS_CONDITION_TRUE, Reason: "Because"}}
		}
		st.normal = hasRes[i]
		runner.steps = append(runner.steps, st)
	}
	c := NewFunctionComposer(s, s, NewFetchingFunctionRunner(runner, NewExistingExtraResourcesFetcher(s)))
	res, err := c.Compose(context.Background(), zzReadXR(s), CompositionRequest{Revision: zzRevision(nSteps)})
	zz.Assert("compose-no-error", err == nil)
	if err != nil {
		return
	}
	k, e := 0, 0
	for i := 0; i < nSteps; i++ {
		if hasCond[i] {
			zz.Assert("no-condition-dropped", k < len(res.Conditions))
			if k < len(res.Conditions) {
				zz.Assert("conditions-in-pipeline-order", string(res.Conditions[k].Condition.Type) == "Fromstep"+string(rune('0'+i)))
			}
			k++
		}
		if hasRes[i] {
			zz.Assert("no-result-dropped", e < len(res.Events))
			if e < len(res.Events) {
				zz.Assert("results-in-pipeline-order", res.Events[e].Detail == "Pipeline step \"step"+string(rune('0'+i))+"\"")
			}
			e++
		}
	}
	zz.Assert("no-condition-invented", len(res.Conditions) == k)
	zz.Assert("no-result-invented", len(res.Events) == e)
}

// HarnessC04Context: the context is threaded from step to step exactly as
// returned - also when a step in the middle of the pipeline answers without
// any context: the step after it then receives none, not an older one.
//
//gosym:harness
//gosym:cover step-without-context context-passed-on
func HarnessC04Context() {
	s := kube.New()
	zzSetupComposedN(s, 1, 0, "", false)
	runner := &zzRunner{}
	for i := 0; i < 3; i++ {
		nm := "step" + string(rune('0'+i))
		st := zzStep{desired: []bool{true}, ctxValue: "ctx-" + nm}
		if zz.Bool(nm + ".returnsNoContext") {
			st.ctxValue, st.noContext = "", true
		}
		runner.steps = append(runner.steps, st)
	}
	c := NewFunctionComposer(s, s, runner)
	_, err := c.Compose(context.Background(), zzReadXR(s), CompositionRequest{Revision: zzRevision(3)})
	zz.Assert("compose-no-error", err == nil)
	if err != nil || len(runner.calls) != 3 {
		zz.Assert("every-step-called-once", err != nil)
		return
	}
	zz.Assert("first-step-starts-from-empty-context", len(runner.calls[0].context.GetFields()) == 0)
	for k := 1; k < 3; k++ {
		prev := runner.calls[k-1].rsp.GetContext()
		got := runner.calls[k].context
		if prev == nil {
			zz.Cover("step-without-context")
			zz.Assert("step-after-one-without-context-receives-none", len(got.GetFields()) == 0)
		} else {
			zz.Cover("context-passed-on")
			zz.Assert("step-receives-previous-steps-context", got == prev)
		}
	}
}

// HarnessC04ObservedNamespaced: what a step is sent as observed state when
// the XR's composed resources live in a namespace (the reference carries it),
// next to a cluster-scoped one: every existing composed resource of this XR
// is in it, under its composition resource name.
//
//gosym:harness
//gosym:cover namespaced cluster-scoped
func HarnessC04ObservedNamespaced() {
	s := kube.New()
	a := zzComposedObject(zzXRName+"-a", zzResNames[0], zzOwnOurs, "")
	ns := ""
	if zz.Bool("res0.namespaced") {
		zz.Cover("namespaced")
		ns = "team-a"
		a.SetNamespace(ns)
	} else {
		zz.Cover("cluster-scoped")
	}
	s.Put(a)
	b := zzComposedObject(zzXRName+"-b", zzResNames[1], zzOwnOurs, "")
	s.Put(b)
	xr := zzNewXRObject()
	refA := map[string]any{"apiVersion": "example.org/v1", "kind": zzCDKind, "name": zzXRName + "-a"}
	if ns != "" {
		refA["namespace"] = ns
	}
	xr.Object["spec"] = map[string]any{"resourceRefs": []any{refA,
		map[string]any{"apiVersion": "example.org/v1", "kind": zzCDKind, "name": zzXRName + "-b"}}}
	s.Put(xr)
	runner := &zzRunner{steps: []zzStep{{desired: []bool{true, true}, namespaces: []string{ns, ""}}}}
	c := NewFunctionComposer(s, s, runner)
	_, err := c.Compose(context.Background(), zzReadXR(s), CompositionRequest{Revision: zzRevision(1)})
	zz.Assert("compose-no-error", err == nil)
	zz.Assert("step-was-called", len(runner.calls) >= 1)
	if len(runner.calls) == 0 {
		return
	}
	obs := runner.calls[0].observed.GetResources()
	_, okA := obs[zzResNames[0]]
	_, okB := obs[zzResNames[1]]
	zz.Assert("every-existing-composed-resource-is-in-the-observed-state", okA && okB)
}
