//go:build verif

//gosym:package github.com/crossplane/crossplane/internal/controller/apiextensions/composite
//gosym:file zz_c04_conditions_verif.go

package composite

import (
	"context"

	fnv1 "github.com/crossplane/crossplane/apis/apiextensions/fn/proto/v1"
	zz "github.com/crossplane/crossplane/internal/zzverif"
	"github.com/crossplane/crossplane/internal/zzverif/kube"
)

// HarnessC04Conditions: the conditions and results the pipeline's steps
// return are surfaced in pipeline order and none is dropped, whichever steps
// return a condition, a result, both or neither.
//
//gosym:harness
//gosym:cover condition-without-result condition-and-result result-only
func HarnessC04Conditions() {
	nSteps := zz.Bound(3, 4)
	s := kube.New()
	zzSetupComposedN(s, 1, 0, "", false)
	runner := &zzRunner{}
	hasCond := make([]bool, nSteps)
	hasRes := make([]bool, nSteps)
	for i := 0; i < nSteps; i++ {
		nm := "step" + string(rune('0'+i))
		st := zzStep{desired: []bool{true}}
		switch zz.Choose(nm+".returns", 4) {
		case 1:
			hasCond[i] = true
			zz.Cover("condition-without-result")
		case 2:
			hasCond[i], hasRes[i] = true, true
			zz.Cover("condition-and-result")
		case 3:
			hasRes[i] = true
			zz.Cover("result-only")
		}
		if hasCond[i] {
			st.conds = []*fnv1.Condition{{Type: "From" + nm, Status: fnv1.Status_STATUS_CONDITION_TRUE, Reason: "Because"}}
		}
		st.normal = hasRes[i]
		runner.steps = append(runner.steps, st)
	}
	c := NewFunctionComposer(s, s, NewFetchingFunctionRunner(runner, NewExistingExtraResourcesFetcher(s)))
	res, err := c.Compose(context.Background(), zzReadXR(s), CompositionRequest{Revision: zzRevision(nSteps)})
	zz.Assert("compose-no-error", err == nil)
	if err != nil {
		return
	}
	k, e := 0, 0
	for i := 0; i < nSteps; i++ {
		if hasCond[i] {
			zz.Assert("no-condition-dropped", k < len(res.Conditions))
			if k < len(res.Conditions) {
				zz.Assert("conditions-in-pipeline-order", string(res.Conditions[k].Condition.Type) == "Fromstep"+string(rune('0'+i)))
			}
			k++
		}
		if hasRes[i] {
			zz.Assert("no-result-dropped", e < len(res.Events))
			if e < len(res.Events) {
				zz.Assert("results-in-pipeline-order", res.Events[e].Detail == "Pipeline step \"step"+string(rune('0'+i))+"\"")
			}
			e++
		}
	}
	zz.Assert("no-condition-invented", len(res.Conditions) == k)
	zz.Assert("no-result-invented", len(res.Events) == e)
}
