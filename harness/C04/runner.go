//go:build verif

//gosym:package github.com/crossplane/crossplane/internal/xfn
//gosym:file zz_c04_runner_verif.go

package xfn

import (
	"context"

	"google.golang.org/grpc"
	"google.golang.org/grpc/connectivity"
	metav1 "k8s.io/apimachinery/pkg/apis/meta/v1"

	fnv1 "github.com/crossplane/crossplane/apis/apiextensions/fn/proto/v1"
	pkgv1 "github.com/crossplane/crossplane/apis/pkg/v1"
	zz "github.com/crossplane/crossplane/internal/zzverif"
	"github.com/crossplane/crossplane/internal/zzverif/kube"
)

// zzCall is one request as seen on the wire side of the gRPC client: the
// interceptor ends the call before any network I/O.
type zzCall struct {
	function, pkg, target string
	closed                bool
}

type zzIntercept struct{ calls []zzCall }

func (z *zzIntercept) CreateInterceptor(name, pkg string) grpc.UnaryClientInterceptor {
	return func(_ context.Context, _ string, _, _ any, cc *grpc.ClientConn, _ grpc.UnaryInvoker, _ ...grpc.CallOption) error {
		z.calls = append(z.calls, zzCall{function: name, pkg: pkg, target: cc.Target(), closed: cc.GetState() == connectivity.Shutdown})
		return nil
	}
}

var zzEndpoints = []string{"dns:///fn-a.crossplane-system:9443", "dns:///fn-b.crossplane-system:9443", ""}

// HarnessC04Runner: a pipeline step that names function "f" is sent to the
// endpoint of f's active revision - whatever other revisions and functions
// exist, whatever connection to f is cached from an earlier call - and a
// connection to an endpoint that is no longer f's is closed, never used.
//
//gosym:harness
//gosym:cover sent no-active-revision endpoint-moved cached-connection-reused collector-closed
func HarnessC04Runner() {
	s := kube.New()
	s.Register(&pkgv1.FunctionRevision{}, &pkgv1.FunctionRevisionList{}, "pkg.crossplane.io", "FunctionRevision")
	s.Register(&pkgv1.Function{}, &pkgv1.FunctionList{}, "pkg.crossplane.io", "Function")

	type rev struct {
		fn       string
		active   bool
		endpoint string
	}
	n := zz.Choose("revisions", 3) + 1
	var revs []rev
	objs := make([]*pkgv1.FunctionRevision, 0, n)
	for i := 0; i < n; i++ {
		nm := "rev" + string(rune('0'+i))
		rv := rev{fn: []string{"f", "g"}[zz.Choose(nm+".function", 2)], active: zz.Bool(nm + ".active"), endpoint: zzEndpoints[zz.Choose(nm+".endpoint", 3)]}
		// at most one active revision per function (the package manager's invariant)
		for _, o := range revs {
			zz.Assume(!(o.fn == rv.fn && o.active && rv.active))
		}
		revs = append(revs, rv)
		fr := &pkgv1.FunctionRevision{ObjectMeta: metav1.ObjectMeta{Name: rv.fn + "-" + nm, Labels: map[string]string{pkgv1.LabelParentPackage: rv.fn}}}
		fr.Spec.Package = "xpkg.example.org/" + rv.fn + ":" + nm
		fr.Spec.DesiredState = pkgv1.PackageRevisionInactive
		if rv.active {
			fr.Spec.DesiredState = pkgv1.PackageRevisionActive
		}
		fr.Status.Endpoint = rv.endpoint
		s.Put(fr)
		objs = append(objs, fr)
	}
	active := func(fn string) *rev {
		for i := range revs {
			if revs[i].fn == fn && revs[i].active {
				return &revs[i]
			}
		}
		return nil
	}

	ic := &zzIntercept{}
	r := NewPackagedFunctionRunner(s, WithInterceptorCreators(ic))
	req := &fnv1.RunFunctionRequest{}

	// first call
	_, err := r.RunFunction(context.Background(), "f", req)
	a := active("f")
	if a == nil || a.endpoint == "" {
		zz.Cover("no-active-revision")
		zz.Assert("no-active-revision-with-an-endpoint-means-error", err != nil)
		zz.Assert("nothing-sent-without-an-active-revision", len(ic.calls) == 0)
		return
	}
	zz.Assert("run-no-error", err == nil)
	zz.Assert("sent-exactly-once", len(ic.calls) == 1)
	if len(ic.calls) != 1 {
		return
	}
	zz.Cover("sent")
	zz.Assert("sent-to-the-active-revisions-endpoint", ic.calls[0].target == a.endpoint)
	zz.Assert("sent-for-the-named-function", ic.calls[0].function == "f")
	first := r.conns["f"]

	// the function is upgraded: another revision becomes the active one
	// (possibly at another endpoint), or nothing changes
	switch zz.Choose("then", 3) {
	case 1:
		for i := range revs {
			if revs[i].fn == "f" {
				revs[i].active = !revs[i].active
				objs[i].Spec.DesiredState = pkgv1.PackageRevisionInactive
				if revs[i].active {
					objs[i].Spec.DesiredState = pkgv1.PackageRevisionActive
				}
				s.Put(objs[i])
			}
		}
		nAct := 0
		for _, v := range revs {
			if v.fn == "f" && v.active {
				nAct++
			}
		}
		zz.Assume(nAct <= 1)
	case 2:
		// the Function is uninstalled and the collector runs
		for i := range revs {
			if revs[i].fn == "f" {
				revs[i].active = false
				objs[i].Spec.DesiredState = pkgv1.PackageRevisionInactive
				s.Put(objs[i])
			}
		}
		closed, gerr := r.GarbageCollectConnectionsNow(context.Background())
		zz.Assert("collector-no-error", gerr == nil)
		zz.Cover("collector-closed")
		zz.Assert("collector-closes-connection-of-uninstalled-function", closed == 1 && first.GetState() == connectivity.Shutdown)
		zz.Assert("collector-forgets-the-connection", r.conns["f"] == nil)
	}
	_, err = r.RunFunction(context.Background(), "f", req)
	b := active("f")
	if b == nil || b.endpoint == "" {
		zz.Assert("no-active-revision-with-an-endpoint-means-error", err != nil)
		zz.Assert("nothing-sent-without-an-active-revision", len(ic.calls) == 1)
		return
	}
	zz.Assert("second-run-no-error", err == nil)
	zz.Assert("second-sent-exactly-once", len(ic.calls) == 2)
	if len(ic.calls) != 2 {
		return
	}
	zz.Assert("sent-to-the-active-revisions-endpoint", ic.calls[1].target == b.endpoint)
	zz.Assert("never-sent-on-a-closed-connection", !ic.calls[1].closed)
	if b.endpoint != a.endpoint {
		zz.Cover("endpoint-moved")
		zz.Assert("stale-connection-closed", first.GetState() == connectivity.Shutdown)
	} else if r.conns["f"] == first {
		zz.Cover("cached-connection-reused")
		zz.Assert("live-connection-not-closed", first.GetState() != connectivity.Shutdown)
	}
	zz.Observe("calls", len(ic.calls))
}
