//go:build verif

//gosym:package github.com/crossplane/crossplane/internal/xcrd
//gosym:file zz_c11_crd_verif.go

package xcrd

import (
	"encoding/json"
	"reflect"

	extv1 "k8s.io/apiextensions-apiserver/pkg/apis/apiextensions/v1"
	metav1 "k8s.io/apimachinery/pkg/apis/meta/v1"
	"k8s.io/apimachinery/pkg/runtime"
	"k8s.io/utils/ptr"

	xpv1 "github.com/crossplane/crossplane-runtime/apis/common/v1"

	v1 "github.com/crossplane/crossplane/apis/apiextensions/v1"
	zz "github.com/crossplane/crossplane/internal/zzverif"
)

const zzXRDUID = "uid-xrd"

// The machinery fields, written out independently of the prop tables.
var (
	zzXRSpecMachinery    = []string{"compositionRef", "compositionSelector", "compositionRevisionRef", "compositionRevisionSelector", "compositionUpdatePolicy", "claimRef", "resourceRefs", "publishConnectionDetailsTo", "writeConnectionSecretToRef"}
	zzClaimSpecMachinery = []string{"compositionRef", "compositionSelector", "compositionRevisionRef", "compositionRevisionSelector", "compositionUpdatePolicy", "compositeDeletePolicy", "resourceRef", "publishConnectionDetailsTo", "writeConnectionSecretToRef"}
	zzStatusMachinery    = []string{"conditions", "connectionDetails", "claimConditionTypes"}
)

func zzIsOneOf(k string, set []string) bool {
	r := false
	for _, m := range set {
		r = zz.Or(r, k == m)
	}
	return r
}

func zzSchema(k0, k1, s0, req string, maxLen int64, hasMaxLen bool) runtime.RawExtension {
	name := map[string]any{"type": "string"}
	if hasMaxLen {
		name["maxLength"] = maxLen
	}
	tree := map[string]any{
		"type":        "object",
		"description": "author description",
		"properties": map[string]any{
			"metadata": map[string]any{"type": "object", "properties": map[string]any{"name": name}},
			"spec": map[string]any{
				"type":     "object",
				"required": []any{req},
				"properties": map[string]any{
					k0: map[string]any{"type": "string", "description": "author-0"},
					k1: map[string]any{"type": "integer", "description": "author-1"},
				},
				"x-kubernetes-validations": []any{map[string]any{"rule": "self.size > 0", "message": "author rule"}},
				"oneOf":                    []any{map[string]any{"required": []any{"alpha"}}, map[string]any{"required": []any{"beta"}}},
			},
			"status": map[string]any{
				"type":                     "object",
				"description":              "author status description",
				"required":                 []any{"phase"},
				"properties":               map[string]any{s0: map[string]any{"type": "string", "description": "author-status"}},
				"x-kubernetes-validations": []any{map[string]any{"rule": "has(self.phase)", "message": "author status rule"}},
			},
		},
	}
	raw, err := json.Marshal(tree)
	if err != nil {
		panic(err)
	}
	return runtime.RawExtension{Raw: raw}
}

// HarnessC11CRDs: the CRDs derived from an XRD.
//
//gosym:harness
//gosym:cover shadow-attempt plain-author-key two-versions claim-name-collision name-length-capped default-policy
func HarnessC11CRDs() {
	// one author property with a symbolic name (it may be named like any
	// machinery field), one with a plain name
	k0, k1, s0 := zz.Str("spec.key0"), "size", zz.Str("status.key0")
	zz.Assume(k0 != k1)
	req := "size"
	hasMaxLen := zz.Bool("name.maxLength.set")
	maxLen := zz.Int64("name.maxLength")
	zz.Assume(maxLen >= 1)
	zz.Assume(maxLen < 1<<20)

	xrd := &v1.CompositeResourceDefinition{ObjectMeta: metav1.ObjectMeta{Name: "xthings.example.org", UID: zzXRDUID}}
	xrd.Spec.Group = "example.org"
	xrd.Spec.Names = extv1.CustomResourceDefinitionNames{Kind: "XThing", ListKind: "XThingList", Plural: "xthings", Singular: "xthing"}
	nVersions := 1 + zz.Choose("versions", 2)
	refIdx := zz.Choose("referenceable", nVersions)
	for i := 0; i < nVersions; i++ {
		xrd.Spec.Versions = append(xrd.Spec.Versions, v1.CompositeResourceDefinitionVersion{
			Name:          []string{"v1", "v2"}[i],
			// (the referenceable version need not be served: the CRD's storage
			// version is the referenceable one either way)
			Served:        zz.Bool("served" + string(rune('0'+i))),
			Referenceable: i == refIdx,
			Schema:        &v1.CompositeResourceValidation{OpenAPIV3Schema: zzSchema(k0, k1, s0, req, maxLen, hasMaxLen)},
		})
	}
	if nVersions == 2 {
		zz.Cover("two-versions")
	}
	// the XRD may set defaults for the two policy fields, and labels for its CRDs
	extras := zz.Choose("xrd.extras", 3) // none, default policies, CRD labels and annotations
	defUpdate, defDelete := extras == 1, extras == 1
	if defUpdate {
		xrd.Spec.DefaultCompositionUpdatePolicy = ptr.To(xpv1.UpdateManual)
	}
	if defDelete {
		xrd.Spec.DefaultCompositeDeletePolicy = ptr.To(xpv1.CompositeDeleteForeground)
	}
	crdLabels := extras == 2
	if crdLabels {
		xrd.Spec.Metadata = &v1.CompositeResourceDefinitionSpecMetadata{Labels: map[string]string{"team": "a"}, Annotations: map[string]string{"note": "n"}}
	}
	// claim names: symbolic, may collide with the composite's names
	hasClaim := zz.Bool("claim.names")
	ck := []string{"Thing", "XThing"}[zz.Choose("claim.kind", 2)]
	cp := []string{"things", "xthings"}[zz.Choose("claim.plural", 2)]
	if hasClaim {
		xrd.Spec.ClaimNames = &extv1.CustomResourceDefinitionNames{Kind: ck, Plural: cp}
	}

	check := func(crd *extv1.CustomResourceDefinition, machinery []string, std map[string]extv1.JSONSchemaProps, scope extv1.ResourceScope, what string) {
		zz.Assert(what+"-scope", crd.Spec.Scope == scope)
		if crdLabels {
			zz.Assert(what+"-carries-the-xrds-crd-labels", crd.GetLabels()["team"] == "a" && crd.GetAnnotations()["note"] == "n")
		}
		zz.Assert(what+"-group", crd.Spec.Group == "example.org")
		ors := crd.GetOwnerReferences()
		zz.Assert(what+"-controlled-by-xrd", len(ors) == 1 && ors[0].UID == zzXRDUID && ors[0].Controller != nil && *ors[0].Controller)
		zz.Assert(what+"-carries-every-version", len(crd.Spec.Versions) == nVersions)
		storage := 0
		for i, ver := range crd.Spec.Versions {
			zz.Assert(what+"-version-name", ver.Name == xrd.Spec.Versions[i].Name)
			zz.Assert(what+"-version-served", ver.Served == xrd.Spec.Versions[i].Served)
			zz.Assert(what+"-storage-is-referenceable", ver.Storage == (i == refIdx))
			if ver.Storage {
				storage++
			}
			zz.Assert(what+"-status-subresource", ver.Subresources != nil && ver.Subresources.Status != nil)
			spec := ver.Schema.OpenAPIV3Schema.Properties["spec"]
			// machinery always present with its standard schema, whatever the author wrote
			for _, m := range machinery {
				got, ok := spec.Properties[m]
				zz.Assert(what+"-machinery-field-present", ok)
				// the XRD may set the default of the two policy fields; nothing else
				if (m == "compositionUpdatePolicy" && defUpdate && what == "composite") || (m == "compositeDeletePolicy" && defDelete && what == "claim") {
					zz.Cover("default-policy")
					zz.Assert(what+"-policy-default-is-the-xrds", got.Default != nil && (string(got.Default.Raw) == `"Manual"` || string(got.Default.Raw) == `"Foreground"`))
					got.Default = nil
					want := std[m]
					want.Default = nil
					zz.Assert(what+"-machinery-field-has-standard-schema", reflect.DeepEqual(got, want))
					continue
				}
				zz.Assert(what+"-machinery-field-has-standard-schema", reflect.DeepEqual(got, std[m]))
			}
			for _, ak := range []struct {
				key, typ string
			}{{k0, "string"}, {k1, "integer"}} {
				if zzIsOneOf(ak.key, machinery) {
					zz.Cover("shadow-attempt")
				} else {
					zz.Cover("plain-author-key")
					got, ok := spec.Properties[ak.key]
					zz.Assert(what+"-author-property-carried", ok && got.Type == ak.typ)
				}
			}
			hasReq := false
			for _, r := range spec.Required {
				hasReq = zz.Or(hasReq, r == req)
			}
			zz.Assert(what+"-author-required-list-carried", hasReq)
			zz.Assert(what+"-author-validation-rules-carried", len(spec.XValidations) >= 1 && spec.XValidations[len(spec.XValidations)-1].Rule == "self.size > 0")
			zz.Assert(what+"-author-oneof-carried", len(spec.OneOf) == 2)
			// status
			status := ver.Schema.OpenAPIV3Schema.Properties["status"]
			for _, m := range zzStatusMachinery {
				got, ok := status.Properties[m]
				zz.Assert(what+"-status-machinery-present", ok)
				zz.Assert(what+"-status-machinery-has-standard-schema", reflect.DeepEqual(got, CompositeResourceStatusProps()[m]))
			}
			if !zzIsOneOf(s0, zzStatusMachinery) {
				got, ok := status.Properties[s0]
				zz.Assert(what+"-author-status-property-carried", ok && got.Type == "string")
			}
			zz.Assert(what+"-author-status-required-list-carried", len(status.Required) == 1 && status.Required[0] == "phase")
			zz.Assert(what+"-author-status-validation-rules-carried", len(status.XValidations) >= 1 && status.XValidations[len(status.XValidations)-1].Rule == "has(self.phase)")
			// metadata.name length limit
			ml := ver.Schema.OpenAPIV3Schema.Properties["metadata"].Properties["name"].MaxLength
			zz.Assert(what+"-name-maxlength-set", ml != nil)
			if ml != nil {
				if hasMaxLen && maxLen < 63 {
					zz.Cover("name-length-capped")
					zz.Assert(what+"-name-maxlength-is-min-of-author-and-63", *ml == maxLen)
				} else {
					zz.Assert(what+"-name-maxlength-is-min-of-author-and-63", *ml == 63)
				}
			}
		}
		zz.Assert(what+"-exactly-one-storage-version", storage == 1)
	}

	xr, err := ForCompositeResource(xrd)
	zz.Assert("composite-crd-no-error", err == nil)
	if err == nil {
		check(xr, zzXRSpecMachinery, CompositeResourceSpecProps(), extv1.ClusterScoped, "composite")
	}

	if hasClaim {
		cl, cerr := ForCompositeResourceClaim(xrd)
		collides := zz.Or(ck == "XThing", cp == "xthings")
		if cerr != nil {
			zz.Cover("claim-name-collision")
			zz.Assert("claim-rejected-only-on-name-collision", collides)
		} else {
			zz.Assert("colliding-claim-names-rejected", zz.Not(collides))
			check(cl, zzClaimSpecMachinery, CompositeResourceClaimSpecProps(), extv1.NamespaceScoped, "claim")
		}
	}

}

// HarnessC11Update: group and kind/plural names cannot change once set.
//
//gosym:harness
//gosym:cover changed unchanged
func HarnessC11Update() {
	xrd := &v1.CompositeResourceDefinition{ObjectMeta: metav1.ObjectMeta{Name: "xthings.example.org", UID: zzXRDUID}}
	xrd.Spec.Group = "example.org"
	xrd.Spec.Names = extv1.CustomResourceDefinitionNames{Kind: "XThing", ListKind: "XThingList", Plural: "xthings", Singular: "xthing"}
	xrd.Spec.ClaimNames = &extv1.CustomResourceDefinitionNames{Kind: "Thing", Plural: "things"}
	xrd.Spec.Versions = []v1.CompositeResourceDefinitionVersion{{Name: "v1", Served: true, Referenceable: true,
		Schema: &v1.CompositeResourceValidation{OpenAPIV3Schema: zzSchema("a", "size", "s", "size", 10, false)}}}
	old := xrd.DeepCopy()
	upd := xrd.DeepCopy()
	ng, nk, np := zz.Str("update.group"), zz.Str("update.kind"), zz.Str("update.plural")
	nck, ncp := zz.Str("update.claim.kind"), zz.Str("update.claim.plural")
	upd.Spec.Group, upd.Spec.Names.Kind, upd.Spec.Names.Plural = ng, nk, np
	upd.Spec.ClaimNames.Kind, upd.Spec.ClaimNames.Plural = nck, ncp
	_, errs := upd.ValidateUpdate(old)
	changed := zz.Or(ng != "example.org", nk != "XThing", np != "xthings", nck != "Thing", ncp != "things")
	immutableErr := false
	for _, e := range errs {
		if e.Detail == "field is immutable" {
			immutableErr = true
		}
	}
	if immutableErr {
		zz.Cover("changed")
	} else {
		zz.Cover("unchanged")
	}
	zz.Assert("changing-group-kind-or-plural-is-rejected", immutableErr == changed)
}
