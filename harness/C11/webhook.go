//go:build verif

//gosym:package github.com/crossplane/crossplane/internal/validation/apiextensions/v1/xrd
//gosym:file zz_c11_webhook_verif.go

package xrd

import (
	"context"

	extv1 "k8s.io/apiextensions-apiserver/pkg/apis/apiextensions/v1"
	metav1 "k8s.io/apimachinery/pkg/apis/meta/v1"
	"k8s.io/apimachinery/pkg/runtime"

	v1 "github.com/crossplane/crossplane/apis/apiextensions/v1"
	"github.com/crossplane/crossplane/internal/xcrd"
	zz "github.com/crossplane/crossplane/internal/zzverif"
	"github.com/crossplane/crossplane/internal/zzverif/kube"
)

// HarnessC11Webhook: the XRD validating webhook - the place where the
// immutability of group and kind / plural names is enforced - rejects every
// update that changes one of them, in whatever state the XRD is (live, being
// deleted with its finalizer pending, with or without claim names), and
// admits an update that changes none of them. Its dry-run writes never
// change the cluster.
//
//gosym:harness
//gosym:cover rejected admitted deleting claimless
func HarnessC11Webhook() {
	s := kube.New()
	s.Register(&extv1.CustomResourceDefinition{}, &extv1.CustomResourceDefinitionList{}, "apiextensions.k8s.io", "CustomResourceDefinition")

	old := &v1.CompositeResourceDefinition{ObjectMeta: metav1.ObjectMeta{Name: "xthings.example.org", UID: "uid-xrd"}}
	old.Spec.Group = "example.org"
	old.Spec.Names = extv1.CustomResourceDefinitionNames{Kind: "XThing", ListKind: "XThingList", Plural: "xthings", Singular: "xthing"}
	hasClaim := zz.Bool("xrd.offersClaim")
	if hasClaim {
		old.Spec.ClaimNames = &extv1.CustomResourceDefinitionNames{Kind: "Thing", Plural: "things"}
	} else {
		zz.Cover("claimless")
	}
	old.Spec.Versions = []v1.CompositeResourceDefinitionVersion{{Name: "v1", Served: true, Referenceable: true,
		Schema: &v1.CompositeResourceValidation{OpenAPIV3Schema: runtime.RawExtension{Raw: []byte(`{"type":"object","properties":{"spec":{"type":"object","properties":{"a":{"type":"string"}}}}}`)}}}}
	if zz.Bool("xrd.deleting") {
		now := metav1.Now()
		old.DeletionTimestamp = &now
		old.Finalizers = []string{"defined.apiextensions.crossplane.io"}
		zz.Cover("deleting")
	}
	// the CRDs the XRD defined exist already
	if crd, err := xcrd.ForCompositeResource(old); err == nil {
		s.Put(crd)
	}
	if hasClaim {
		if crd, err := xcrd.ForCompositeResourceClaim(old); err == nil {
			s.Put(crd)
		}
	}

	upd := old.DeepCopy()
	// which of the immutable names the update changes (to a fixed other value)
	changed := false
	if zz.Bool("update.group") {
		upd.Spec.Group = "other.example.org"
		changed = true
	}
	if zz.Bool("update.kind") {
		upd.Spec.Names.Kind = "XOther"
		changed = true
	}
	if zz.Bool("update.plural") {
		upd.Spec.Names.Plural = "xothers"
		changed = true
	}
	if hasClaim && zz.Bool("update.claim.kind") {
		upd.Spec.ClaimNames.Kind = "Other"
		changed = true
	}
	if hasClaim && zz.Bool("update.claim.plural") {
		upd.Spec.ClaimNames.Plural = "others"
		changed = true
	}
	// a mutable part changes too
	if zz.Bool("update.schema") {
		upd.Spec.Versions[0].Schema = &v1.CompositeResourceValidation{OpenAPIV3Schema: runtime.RawExtension{Raw: []byte(`{"type":"object","properties":{"spec":{"type":"object","properties":{"a":{"type":"string"},"b":{"type":"string"}}}}}`)}}
	}

	v := &validator{client: s}
	_, err := v.ValidateUpdate(context.Background(), old, upd)
	if err != nil {
		zz.Cover("rejected")
		zz.Assert("update-rejected-only-if-an-immutable-name-changed", changed)
	} else {
		zz.Cover("admitted")
		zz.Assert("changing-group-kind-or-plural-is-rejected", !changed)
	}
	for _, w := range s.Writes(false) {
		zz.Assert("webhook-dry-runs-change-nothing", !w.Effect)
	}
}

// HarnessC11WebhookCreate: the webhook refuses to admit a new XRD whose
// claim names collide with the composite's names - kind, plural, singular or
// list kind - and admits one whose claim names are its own.
//
//gosym:harness
//gosym:cover rejected admitted claimless
func HarnessC11WebhookCreate() {
	s := kube.New()
	s.Register(&extv1.CustomResourceDefinition{}, &extv1.CustomResourceDefinitionList{}, "apiextensions.k8s.io", "CustomResourceDefinition")

	xrd := &v1.CompositeResourceDefinition{ObjectMeta: metav1.ObjectMeta{Name: "xthings.example.org", UID: "uid-xrd"}}
	xrd.Spec.Group = "example.org"
	xrd.Spec.Names = extv1.CustomResourceDefinitionNames{Kind: "XThing", ListKind: "XThingList", Plural: "xthings", Singular: "xthing"}
	xrd.Spec.Versions = []v1.CompositeResourceDefinitionVersion{{Name: "v1", Served: true, Referenceable: true,
		Schema: &v1.CompositeResourceValidation{OpenAPIV3Schema: runtime.RawExtension{Raw: []byte(`{"type":"object","properties":{"spec":{"type":"object","properties":{"a":{"type":"string"}}}}}`)}}}}
	collides := false
	if zz.Bool("xrd.offersClaim") {
		cn := &extv1.CustomResourceDefinitionNames{Kind: "Thing", ListKind: "ThingList", Plural: "things", Singular: "thing"}
		switch zz.Choose("claim.collides.in", 5) {
		case 1:
			cn.Kind, collides = xrd.Spec.Names.Kind, true
		case 2:
			cn.Plural, collides = xrd.Spec.Names.Plural, true
		case 3:
			cn.Singular, collides = xrd.Spec.Names.Singular, true
		case 4:
			cn.ListKind, collides = xrd.Spec.Names.ListKind, true
		}
		xrd.Spec.ClaimNames = cn
	} else {
		zz.Cover("claimless")
	}

	v := &validator{client: s}
	_, err := v.ValidateCreate(context.Background(), xrd)
	if err != nil {
		zz.Cover("rejected")
		zz.Assert("create-rejected-only-for-colliding-claim-names", collides)
	} else {
		zz.Cover("admitted")
		zz.Assert("colliding-claim-names-are-rejected-on-create", !collides)
	}
	for _, w := range s.Writes(false) {
		zz.Assert("webhook-dry-runs-change-nothing", !w.Effect)
	}
}
