//go:build verif

//gosym:package github.com/crossplane/crossplane/internal/xcrd
//gosym:file zz_c11_claimnames_verif.go

package xcrd

import (
	extv1 "k8s.io/apiextensions-apiserver/pkg/apis/apiextensions/v1"
	metav1 "k8s.io/apimachinery/pkg/apis/meta/v1"
	"k8s.io/apimachinery/pkg/runtime"

	v1 "github.com/crossplane/crossplane/apis/apiextensions/v1"
	zz "github.com/crossplane/crossplane/internal/zzverif"
)

// HarnessC11ClaimNames: a claim CRD is derived exactly when none of the
// claim's names (kind, plural, and singular / list kind where given)
// collides with the composite's name of the same sort; every collision is
// rejected whichever optional names are left out.
//
//gosym:harness
//gosym:cover rejected accepted optional-names-omitted
func HarnessC11ClaimNames() {
	xrd := &v1.CompositeResourceDefinition{ObjectMeta: metav1.ObjectMeta{Name: "xthings.example.org", UID: zzXRDUID}}
	xrd.Spec.Group = "example.org"
	xrd.Spec.Names = extv1.CustomResourceDefinitionNames{Kind: "XThing", Plural: "xthings", Singular: "xthing", ListKind: "XThingList"}
	xrd.Spec.Versions = []v1.CompositeResourceDefinitionVersion{{Name: "v1", Served: true, Referenceable: true,
		Schema: &v1.CompositeResourceValidation{OpenAPIV3Schema: runtime.RawExtension{Raw: []byte(`{"type":"object","properties":{"spec":{"type":"object"}}}`)}}}}

	kind, plural := zz.Str("claim.kind"), zz.Str("claim.plural")
	singular, listKind := zz.Str("claim.singular"), zz.Str("claim.listKind")
	zz.Assume(kind != "")
	zz.Assume(plural != "")
	xrd.Spec.ClaimNames = &extv1.CustomResourceDefinitionNames{Kind: kind, Plural: plural, Singular: singular, ListKind: listKind}
	if singular == "" || listKind == "" {
		zz.Cover("optional-names-omitted")
	}

	collides := zz.Or(kind == "XThing", plural == "xthings", zz.And(singular != "", singular == "xthing"), zz.And(listKind != "", listKind == "XThingList"))
	_, err := ForCompositeResourceClaim(xrd)
	if err != nil {
		zz.Cover("rejected")
		zz.Assert("claim-rejected-only-on-a-name-collision", collides)
	} else {
		zz.Cover("accepted")
		zz.Assert("colliding-claim-names-are-rejected", zz.Not(collides))
	}
}
