//go:build verif

//gosym:package github.com/crossplane/crossplane/internal/controller/pkg/revision
//gosym:file zz_c17_resolve_verif.go

package revision

import (
	"context"

	metav1 "k8s.io/apimachinery/pkg/apis/meta/v1"
	"k8s.io/utils/ptr"

	pkgmetav1 "github.com/crossplane/crossplane/apis/pkg/meta/v1"
	v1 "github.com/crossplane/crossplane/apis/pkg/v1"
	"github.com/crossplane/crossplane/apis/pkg/v1beta1"
	"github.com/crossplane/crossplane/internal/dag"
	zz "github.com/crossplane/crossplane/internal/zzverif"
	"github.com/crossplane/crossplane/internal/zzverif/kube"
)

const zzDigest = "sha256:ecc25c121431dfc7058754427f97c034ecde26d4aafa0da16d258090e0443904"

var (
	zzVersions    = []string{"v1.0.0", "v1.5.0", "v2.0.0", zzDigest}
	zzConstraints = []string{">=v1.0.0", "<v2.0.0", ">=v1.5.0", zzDigest}
	// zzSatisfies[c][v]: does version v satisfy constraint c
	zzSatisfies = [][]bool{
		{true, true, true, false},
		{true, true, false, false},
		{false, true, true, false},
		{false, false, false, true},
	}
)

// HarnessC17Resolve: a revision reports its dependencies satisfied only if
// every direct and transitive dependency is in the lock and every direct
// dependency's installed version satisfies its constraint.
//
//gosym:harness
//gosym:cover satisfied missing-direct missing-transitive wrong-version digest-constraint self-is-a-dependency-already
func HarnessC17Resolve() {
	s := kube.New()
	s.Register(&v1beta1.Lock{}, &v1beta1.LockList{}, "pkg.crossplane.io", "Lock")

	// self = pkg-a depends on pkg-b (always) and optionally on pkg-c or a missing package
	cB := zz.Choose("self.dep.b.constraint", len(zzConstraints))
	// the dependency on pkg-b is declared in one of the four forms the
	// package metadata allows
	depB := pkgmetav1.Dependency{Version: zzConstraints[cB]}
	switch zz.Choose("self.dep.b.form", 4) {
	case 0:
		depB.Provider = ptr.To(zzSources[1])
	case 1:
		depB.Configuration = ptr.To(zzSources[1])
	case 2:
		depB.Function = ptr.To(zzSources[1])
	case 3:
		depB.APIVersion, depB.Kind, depB.Package = ptr.To("pkg.crossplane.io/v1"), ptr.To("Provider"), ptr.To(zzSources[1])
	}
	deps := []pkgmetav1.Dependency{depB}
	second := zz.Choose("self.dep2", 3) // none, pkg-c, missing
	cC := 0
	switch second {
	case 1:
		cC = zz.Choose("self.dep.c.constraint", len(zzConstraints))
		deps = append(deps, pkgmetav1.Dependency{Provider: ptr.To(zzSources[2]), Version: zzConstraints[cC]})
	case 2:
		deps = append(deps, pkgmetav1.Dependency{Provider: ptr.To(zzAbsent[0]), Version: ">=v0.0.0"})
	}
	meta := &pkgmetav1.Provider{ObjectMeta: metav1.ObjectMeta{Name: "pkg-a"}}
	meta.Spec.DependsOn = deps

	// the lock: pkg-b and pkg-c present or not, with solver-chosen versions;
	// pkg-b may itself depend on pkg-c or on a missing package
	lock := &v1beta1.Lock{ObjectMeta: metav1.ObjectMeta{Name: "lock"}}
	bIn := zz.Bool("lock.b")
	cIn := zz.Bool("lock.c")
	vB := zz.Choose("lock.b.version", len(zzVersions))
	vC := zz.Choose("lock.c.version", len(zzVersions))
	bDep := zz.Choose("lock.b.dep", 3) // none, pkg-c, missing
	if bIn {
		lp := v1beta1.LockPackage{Name: "pkg-b-rev", Type: ptr.To(v1beta1.ProviderPackageType), Source: zzSources[1], Version: zzVersions[vB]}
		switch bDep {
		case 1:
			lp.Dependencies = []v1beta1.Dependency{{Package: zzSources[2], Type: ptr.To(v1beta1.ProviderPackageType), Constraints: ">=v0.0.0"}}
		case 2:
			lp.Dependencies = []v1beta1.Dependency{{Package: zzAbsent[1], Type: ptr.To(v1beta1.ProviderPackageType), Constraints: ">=v0.0.0"}}
		}
		lock.Packages = append(lock.Packages, lp)
	}
	if cIn {
		lc := v1beta1.LockPackage{Name: "pkg-c-rev", Type: ptr.To(v1beta1.ProviderPackageType), Source: zzSources[2], Version: zzVersions[vC]}
		if zz.Bool("lock.c.dependsOnSelf") {
			// a package already in the lock depends on the revision being
			// resolved: the graph knows it as an implied node before its own
			// entry is added
			lc.Dependencies = []v1beta1.Dependency{{Package: zzSources[0], Type: ptr.To(v1beta1.ProviderPackageType), Constraints: ">=v0.0.0"}}
			zz.Cover("self-is-a-dependency-already")
		}
		lock.Packages = append(lock.Packages, lc)
	}
	selfState := zz.Choose("lock.self", 3) // absent, listed, listed under another source (image relocated)
	selfIn := selfState != 0
	if selfIn {
		self := v1beta1.LockPackage{Name: "pkg-a-rev", Type: ptr.To(v1beta1.ProviderPackageType), Source: zzSources[0], Version: "v1.0.0"}
		if selfState == 2 {
			self.Type = nil
			self.Source = "other.io/org/pkg-a"
		}
		for _, d := range deps {
			pkg := ""
			for _, p := range []*string{d.Provider, d.Configuration, d.Function, d.Package} {
				if p != nil {
					pkg = *p
				}
			}
			self.Dependencies = append(self.Dependencies, v1beta1.Dependency{Package: pkg, Type: ptr.To(v1beta1.ProviderPackageType), Constraints: d.Version})
		}
		lock.Packages = append(lock.Packages, self)
	}
	s.Put(lock)

	pr := &v1.ProviderRevision{ObjectMeta: metav1.ObjectMeta{Name: "pkg-a-rev"}}
	pr.Spec.Package = zzSources[0] + ":v1.0.0"
	pr.Spec.DesiredState = v1.PackageRevisionActive

	m := NewPackageDependencyManager(s, dag.NewMapDag, v1.ProviderGroupVersionKind)
	_, _, _, err := m.Resolve(context.Background(), meta, pr)

	directPresent := bIn && (second != 1 || cIn) && second != 2
	transitivePresent := !bIn || bDep == 0 || (bDep == 1 && cIn)
	versionsOK := (!bIn || zzSatisfies[cB][vB]) && (second != 1 || !cIn || zzSatisfies[cC][vC])
	if err == nil {
		zz.Cover("satisfied")
		zz.Assert("satisfied-only-if-direct-dependencies-present", directPresent)
		zz.Assert("satisfied-only-if-transitive-dependencies-present", transitivePresent)
		zz.Assert("satisfied-only-if-versions-satisfy-constraints", versionsOK)
		if cB == 3 {
			zz.Cover("digest-constraint")
		}
	} else {
		if !directPresent {
			zz.Cover("missing-direct")
		} else if !transitivePresent {
			zz.Cover("missing-transitive")
		} else if !versionsOK {
			zz.Cover("wrong-version")
		}
		zz.Note("unsatisfied-only-with-a-reason", !(directPresent && transitivePresent && versionsOK))
	}
	zz.Observe("resolved", err == nil)
}
