//go:build verif

//gosym:package github.com/crossplane/crossplane/internal/controller/pkg/revision
//gosym:file zz_c17_dag_verif.go

package revision

import (
	"github.com/crossplane/crossplane/apis/pkg/v1beta1"
	"github.com/crossplane/crossplane/internal/dag"
	zz "github.com/crossplane/crossplane/internal/zzverif"
)

var zzSources = []string{"reg.io/org/pkg-a", "reg.io/org/pkg-b", "reg.io/org/pkg-c", "reg.io/org/pkg-d"}
var zzAbsent = []string{"reg.io/org/missing-x", "reg.io/org/missing-y"}

// HarnessC17Dag: every directed graph on N lock packages with up to two
// dependencies each (edges to any package including itself, or to packages
// that are not in the lock). Sort fails exactly when a cycle exists and
// otherwise lists every node once with dependencies before dependents;
// TraceNode is the transitive closure; Init reports exactly the missing
// dependencies.
//
//gosym:harness
//gosym:cover cycle acyclic implied-node self-loop diamond
func HarnessC17Dag() { zzDag(dag.NewMapDag, false) }

// HarnessC17UpgradingDag: the same graphs through the DAG the resolver uses
// when dependency upgrades are enabled (all lock versions satisfy the
// constraints, so no upgrade is implied): cycles are detected there too.
//
//gosym:harness
//gosym:cover cycle acyclic implied-node self-loop diamond
func HarnessC17UpgradingDag() { zzDag(dag.NewUpgradingMapDag, true) }

func zzDag(newDag func() dag.DAG, upgrading bool) {
	n := zz.Bound(3, 4)
	targets := append(append([]string{}, zzSources[:n]...), zzAbsent...)
	adj := make([][]bool, n) // edges among lock packages
	missing := map[string]bool{}
	nodes := make([]dag.Node, 0, n)
	for i := 0; i < n; i++ {
		adj[i] = make([]bool, n)
		lp := &v1beta1.LockPackage{Name: "p" + string(rune('a'+i)), Source: zzSources[i], Version: "v1.0.0"}
		maxDeps := 2
		if n > 3 && i >= 2 {
			maxDeps = 1 // four packages: the last two have at most one dependency
		}
		nd := zz.Choose("pkg"+string(rune('0'+i))+".deps", maxDeps+1)
		for k := 0; k < nd; k++ {
			t := zz.Choose("pkg"+string(rune('0'+i))+".dep"+string(rune('0'+k)), len(targets))
			lp.Dependencies = append(lp.Dependencies, v1beta1.Dependency{Package: targets[t], Constraints: ">=v0.0.0"})
			if t < n {
				adj[i][t] = true
				if t == i {
					zz.Cover("self-loop")
				}
			} else {
				missing[targets[t]] = true
				zz.Cover("implied-node")
			}
		}
		nodes = append(nodes, lp)
	}
	// reference: transitive closure
	reach := make([][]bool, n)
	for i := range reach {
		reach[i] = append([]bool{}, adj[i]...)
	}
	for k := 0; k < n; k++ {
		for i := 0; i < n; i++ {
			for j := 0; j < n; j++ {
				reach[i][j] = reach[i][j] || (reach[i][k] && reach[k][j])
			}
		}
	}
	cyclic := false
	for i := 0; i < n; i++ {
		cyclic = cyclic || reach[i][i]
	}
	if n >= 3 && adj[0][1] && adj[0][2] && n > 3 && adj[1][3] && adj[2][3] {
		zz.Cover("diamond")
	} else if n == 3 && adj[0][1] && adj[0][2] && adj[1][2] {
		zz.Cover("diamond")
	}

	d := newDag()
	implied, err := d.Init(nodes)
	zz.Assert("init-no-error", err == nil)
	if err != nil {
		return
	}
	// implied nodes are exactly the dependencies absent from the lock
	for _, im := range implied {
		zz.Assert("implied-node-is-a-missing-dependency", missing[im.Identifier()])
	}
	for m := range missing {
		found := false
		for _, im := range implied {
			found = found || im.Identifier() == m
		}
		zz.Assert("missing-dependency-reported", found)
	}

	sorted, serr := d.Sort()
	if cyclic {
		zz.Cover("cycle")
		zz.Assert("cycle-always-detected", serr != nil)
	} else {
		zz.Cover("acyclic")
		zz.Assert("acyclic-graph-sorts", serr == nil)
		pos := map[string]int{}
		for k, s := range sorted {
			_, dup := pos[s]
			zz.Assert("sort-lists-each-node-once", !dup)
			pos[s] = k
		}
		zz.Assert("sort-lists-every-node", len(sorted) == n+len(missing))
		for i := 0; i < n; i++ {
			for j := 0; j < n; j++ {
				if adj[i][j] {
					zz.Assert("dependencies-sorted-before-dependents", pos[zzSources[j]] < pos[zzSources[i]])
				}
			}
		}
	}
	// TraceNode is the transitive closure
	for i := 0; i < n; i++ {
		tree, terr := d.TraceNode(zzSources[i])
		zz.Assert("trace-no-error", terr == nil)
		for j := 0; j < n; j++ {
			_, in := tree[zzSources[j]]
			zz.Assert("trace-is-transitive-closure", in == reach[i][j])
		}
	}
	zz.Observe("sorted", len(sorted), serr != nil)
}
