//go:build verif

//gosym:package github.com/crossplane/crossplane/internal/controller/pkg/resolver
//gosym:file zz_c17_versions_verif.go

package resolver

import (
	"context"
	"strconv"

	"github.com/google/go-containerregistry/pkg/name"
	conregv1 "github.com/google/go-containerregistry/pkg/v1"
	metav1 "k8s.io/apimachinery/pkg/apis/meta/v1"
	"k8s.io/apimachinery/pkg/types"
	"k8s.io/utils/ptr"
	"sigs.k8s.io/controller-runtime/pkg/reconcile"

	"github.com/crossplane/crossplane-runtime/pkg/feature"
	"github.com/crossplane/crossplane-runtime/pkg/logging"
	"github.com/crossplane/crossplane-runtime/pkg/resource"

	v1 "github.com/crossplane/crossplane/apis/pkg/v1"
	"github.com/crossplane/crossplane/apis/pkg/v1beta1"
	internaldag "github.com/crossplane/crossplane/internal/dag"
	"github.com/crossplane/crossplane/internal/features"
	zz "github.com/crossplane/crossplane/internal/zzverif"
	"github.com/crossplane/crossplane/internal/zzverif/kube"
)

const (
	zzDigest  = "sha256:ecc25c121431dfc7058754427f97c034ecde26d4aafa0da16d258090e0443904"
	zzDigest2 = "sha256:1111111111111111111111111111111111111111111111111111111111111111"
	zzParentA = "xpkg.io/org/pkg-a"
	zzParentC = "xpkg.io/org/pkg-c"
	zzDep     = "xpkg.io/org/pkg-b"
)

// zzVer is a version a.b.c with symbolic numbers and its tag "va.b.c".
type zzVer struct {
	n   [3]int64
	tag string
}

func zzVersion(name string) zzVer {
	var v zzVer
	for k, part := range []string{".major", ".minor", ".patch"} {
		v.n[k] = zz.Int64(name + part)
		zz.Assume(v.n[k] >= 0)
		zz.Assume(v.n[k] < 1<<40)
	}
	v.tag = "v" + strconv.FormatInt(v.n[0], 10) + "." + strconv.FormatInt(v.n[1], 10) + "." + strconv.FormatInt(v.n[2], 10)
	return v
}

func (v zzVer) ge(o [3]int64) bool {
	return zz.Or(v.n[0] > o[0], zz.And(v.n[0] == o[0], zz.Or(v.n[1] > o[1], zz.And(v.n[1] == o[1], v.n[2] >= o[2]))))
}
func (v zzVer) lt(o [3]int64) bool { return zz.Not(v.ge(o)) }
func (v zzVer) eq(o [3]int64) bool {
	return zz.And(v.n[0] == o[0], zz.And(v.n[1] == o[1], v.n[2] == o[2]))
}

// The constraints explored, with the documented meaning of each as the
// reference (versions here carry no prerelease).
type zzConstraint struct {
	text    string
	digest  bool
	invalid bool
	sat     func(v zzVer) bool
}

var zzConstraints = []zzConstraint{
	{text: ">=v1.2.3", sat: func(v zzVer) bool { return v.ge([3]int64{1, 2, 3}) }},
	{text: "<v2.0.0", sat: func(v zzVer) bool { return v.lt([3]int64{2, 0, 0}) }},
	{text: ">=v1.5.0, <v3.0.0", sat: func(v zzVer) bool { return zz.And(v.ge([3]int64{1, 5, 0}), v.lt([3]int64{3, 0, 0})) }},
	{text: "v1.2.3", sat: func(v zzVer) bool { return v.eq([3]int64{1, 2, 3}) }},
	{text: "^1.2.0", sat: func(v zzVer) bool { return zz.And(v.ge([3]int64{1, 2, 0}), v.lt([3]int64{2, 0, 0})) }},
	{text: "~1.2.0", sat: func(v zzVer) bool { return zz.And(v.ge([3]int64{1, 2, 0}), v.lt([3]int64{1, 3, 0})) }},
	{text: zzDigest, digest: true},
	{text: "not a constraint", invalid: true},
}

// the second parent's constraint is one of these
var zzSecond = []zzConstraint{zzConstraints[1], zzConstraints[2], zzConstraints[6], {text: zzDigest2, digest: true}}

type zzFetcher struct{ tags []string }

func (f *zzFetcher) Fetch(context.Context, name.Reference, ...string) (conregv1.Image, error) {
	return nil, nil
}
func (f *zzFetcher) Head(context.Context, name.Reference, ...string) (*conregv1.Descriptor, error) {
	return nil, nil
}
func (f *zzFetcher) Tags(context.Context, name.Reference, ...string) ([]string, error) {
	return f.tags, nil
}

type zzConfig struct{}

func (zzConfig) PullSecretFor(context.Context, string) (string, string, error) { return "", "", nil }
func (zzConfig) ImageVerificationConfigFor(context.Context, string) (string, *v1beta1.ImageVerification, error) {
	return "", nil, nil
}

func zzStore() *kube.Store {
	s := kube.New()
	s.Register(&v1beta1.Lock{}, &v1beta1.LockList{}, "pkg.crossplane.io", "Lock")
	s.Register(&v1.Provider{}, &v1.ProviderList{}, "pkg.crossplane.io", "Provider")
	s.Register(&v1.Configuration{}, &v1.ConfigurationList{}, "pkg.crossplane.io", "Configuration")
	s.Register(&v1.Function{}, &v1.FunctionList{}, "pkg.crossplane.io", "Function")
	return s
}

// zzReconciler wires the reconciler the way Setup does for the given options.
func zzReconciler(s *kube.Store, tags []string, upgrades, downgrades bool) *Reconciler {
	f := &feature.Flags{}
	r := &Reconciler{
		client:   s,
		lock:     resource.NewAPIFinalizer(s, finalizer),
		log:      logging.NewNopLogger(),
		newDag:   internaldag.NewMapDag,
		fetcher:  &zzFetcher{tags: tags},
		config:   zzConfig{},
		registry: "xpkg.io",
		features: f,
	}
	if upgrades {
		f.Enable(features.EnableAlphaDependencyVersionUpgrades)
		r.newDag = internaldag.NewUpgradingMapDag
		r.downgradesEnabled = downgrades
	}
	return r
}

func zzTags(n, junkPositions int) ([]zzVer, []string) {
	var vs []zzVer
	var tags []string
	junk := zz.Choose("junkTagAt", junkPositions+1) - 1 // a tag that is no semantic version, at one of the first positions, or none
	for i := 0; i < n; i++ {
		if junk == i {
			tags = append(tags, "latest")
		}
		v := zzVersion("tag" + string(rune('0'+i)))
		vs = append(vs, v)
		tags = append(tags, v.tag)
	}
	if junk == n {
		tags = append(tags, "latest")
	}
	return vs, tags
}

func zzInstalled(s *kube.Store) (string, bool) {
	p := &v1.Provider{}
	if err := s.Get(context.Background(), types.NamespacedName{Name: "org-pkg-b"}, p); err != nil {
		return "", false
	}
	return p.Spec.Package, true
}

// zzInstalledKinds reports which package kinds exist under the dependency's name.
func zzInstalledKinds(s *kube.Store) (provider, configuration, function bool) {
	return s.Exists("pkg.crossplane.io", "Provider", "", "org-pkg-b"), s.Exists("pkg.crossplane.io", "Configuration", "", "org-pkg-b"), s.Exists("pkg.crossplane.io", "Function", "", "org-pkg-b")
}

// HarnessC17Install: for a dependency that is not installed the resolver
// creates the package at the highest tag that satisfies the declared
// constraint (or at exactly the pinned digest), never at a tag that violates
// it, and creates nothing when no tag qualifies or the constraint is invalid.
//
//gosym:harness
//gosym:cover installed-highest nothing-qualifies digest-pinned invalid-constraint junk-tag-skipped
func HarnessC17Install() {
	s := zzStore()
	ci := zz.Choose("constraint", len(zzConstraints))
	c := zzConstraints[ci]
	vs, tags := zzTags(zz.Bound(3, 4), zz.Bound(4, 5))
	if len(tags) > len(vs) {
		zz.Cover("junk-tag-skipped")
	}
	upgrades := zz.Bool("upgradesEnabled")

	lock := &v1beta1.Lock{ObjectMeta: metav1.ObjectMeta{Name: lockName}}
	lock.Packages = []v1beta1.LockPackage{{
		Name: "pkg-a-rev", Type: ptr.To(v1beta1.ProviderPackageType), Source: zzParentA, Version: "v1.0.0",
		Dependencies: []v1beta1.Dependency{{Package: zzDep, Type: ptr.To(v1beta1.ProviderPackageType), Constraints: c.text}},
	}}
	s.Put(lock)

	r := zzReconciler(s, tags, upgrades, false)
	_, err := r.Reconcile(context.Background(), reconcile.Request{NamespacedName: types.NamespacedName{Name: lockName}})
	got, created := zzInstalled(s)

	switch {
	case c.digest:
		zz.Cover("digest-pinned")
		zz.Assert("digest-no-error", err == nil)
		zz.Assert("pinned-digest-installed-exactly", created && got == zzDep+"@"+zzDigest)
	case c.invalid:
		zz.Cover("invalid-constraint")
		zz.Assert("invalid-constraint-installs-nothing", !created)
		zz.Assert("invalid-constraint-is-an-error", err != nil)
	default:
		any := false
		for _, v := range vs {
			any = zz.Or(any, c.sat(v))
		}
		if !created {
			zz.Cover("nothing-qualifies")
			zz.Assert("installs-nothing-only-when-no-tag-qualifies", zz.Not(any))
			return
		}
		zz.Cover("installed-highest")
		isTag := false
		for i, v := range vs {
			chosen := got == zzDep+":"+v.tag
			isTag = zz.Or(isTag, chosen)
			zz.Assert("never-installs-a-violating-version", zz.Implies(chosen, c.sat(v)))
			for j, o := range vs {
				if j != i {
					zz.Assert("installs-the-highest-satisfying-tag", zz.Implies(zz.And(chosen, c.sat(o)), v.ge(o.n)))
				}
			}
		}
		zz.Assert("installed-version-is-one-of-the-tags", isTag)
	}
	zz.Observe("installed", created, got)
}

// HarnessC17InstallKind: a missing dependency is installed as a package of
// the kind its parent declares (provider, configuration or function), at the
// one tag that satisfies the constraint.
//
//gosym:harness
//gosym:cover provider configuration function
func HarnessC17InstallKind() {
	s := zzStore()
	kind := zz.Choose("dependency.type", 3)
	typ := []v1beta1.PackageType{v1beta1.ProviderPackageType, v1beta1.ConfigurationPackageType, v1beta1.FunctionPackageType}[kind]
	lock := &v1beta1.Lock{ObjectMeta: metav1.ObjectMeta{Name: lockName}}
	lock.Packages = []v1beta1.LockPackage{{
		Name: "pkg-a-rev", Type: ptr.To(v1beta1.ConfigurationPackageType), Source: zzParentA, Version: "v1.0.0",
		Dependencies: []v1beta1.Dependency{{Package: zzDep, Type: ptr.To(typ), Constraints: ">=v1.0.0"}},
	}}
	s.Put(lock)
	r := zzReconciler(s, []string{"v0.9.0", "v1.2.0"}, zz.Bool("upgradesEnabled"), false)
	_, err := r.Reconcile(context.Background(), reconcile.Request{NamespacedName: types.NamespacedName{Name: lockName}})
	zz.Assert("install-no-error", err == nil)
	p, c, f := zzInstalledKinds(s)
	zz.Cover([]string{"provider", "configuration", "function"}[kind])
	zz.Assert("dependency-installed-as-the-declared-kind", p == (kind == 0) && c == (kind == 1) && f == (kind == 2))
	var src string
	switch kind {
	case 0:
		o := &v1.Provider{}
		s.Peek("", "org-pkg-b", o)
		src = o.Spec.Package
	case 1:
		o := &v1.Configuration{}
		s.Peek("", "org-pkg-b", o)
		src = o.Spec.Package
	case 2:
		o := &v1.Function{}
		s.Peek("", "org-pkg-b", o)
		src = o.Spec.Package
	}
	zz.Assert("installed-at-the-satisfying-tag", src == zzDep+":v1.2.0")
}

// HarnessC17UpgradeNoVersion: with upgrades enabled, an installed dependency
// that is not referenced by a semantic version - pinned by digest, or at a tag
// like "latest" - while its parent asks for a version range. There is no
// "not older" for it; whatever the resolver decides, it decides it without
// panicking, and it never moves the package to a version outside the range.
//
//gosym:harness panics
//gosym:cover by-digest by-plain-tag
func HarnessC17UpgradeNoVersion() {
	s := zzStore()
	byDigest := zz.Bool("installed.byDigest")
	ref, ver := zzDep+":latest", "latest"
	if byDigest {
		zz.Cover("by-digest")
		ref, ver = zzDep+"@"+zzDigest, zzDigest
	} else {
		zz.Cover("by-plain-tag")
	}
	lock := &v1beta1.Lock{ObjectMeta: metav1.ObjectMeta{Name: lockName}}
	lock.Packages = []v1beta1.LockPackage{
		{Name: "parent0-rev", Type: ptr.To(v1beta1.ProviderPackageType), Source: zzParentA, Version: "v1.0.0",
			Dependencies: []v1beta1.Dependency{{Package: zzDep, Type: ptr.To(v1beta1.ProviderPackageType), Constraints: ">=v2.0.0"}}},
		{Name: "pkg-b-rev", Type: ptr.To(v1beta1.ProviderPackageType), Source: zzDep, Version: ver},
	}
	s.Put(lock)
	p := &v1.Provider{ObjectMeta: metav1.ObjectMeta{Name: "org-pkg-b"}}
	p.Spec.Package = ref
	s.Put(p)
	r := zzReconciler(s, []string{"v1.0.0", "v2.1.0"}, true, zz.Bool("downgradesEnabled"))
	_, err := r.Reconcile(context.Background(), reconcile.Request{NamespacedName: types.NamespacedName{Name: lockName}})
	got, exists := zzInstalled(s)
	zz.Assert("installed-package-still-exists", exists)
	zz.Assert("never-moves-to-a-violating-version", got == ref || got == zzDep+":v2.1.0")
	zz.Observe("outcome", err != nil, got)
}

// HarnessC17Upgrade: with upgrades enabled, an installed dependency whose
// version in the lock violates a parent's constraint is moved to the lowest
// tag that is not older than the installed version and satisfies every
// parent's constraint; failing that, with downgrades allowed, to the highest
// older tag that does; failing that it is left alone and the resolution
// fails. A dependency whose locked version satisfies its parents is not
// touched.
//
//gosym:harness
//gosym:cover upgraded downgraded stays-at-installed no-valid-version untouched two-parents digest-parents
func HarnessC17Upgrade() {
	s := zzStore()
	vs, tags := zzTags(zz.Bound(2, 3), zz.Bound(0, 1))
	downgrades := zz.Bool("downgradesEnabled")

	// one or two parents, each with its own constraint on the dependency
	nParents := 1 + zz.Choose("secondParent", 2)
	var cs []zzConstraint
	lock := &v1beta1.Lock{ObjectMeta: metav1.ObjectMeta{Name: lockName}}
	for k, src := range []string{zzParentA, zzParentC}[:nParents] {
		var c zzConstraint
		if k == 0 {
			c = zzConstraints[zz.Choose("parent0.constraint", len(zzConstraints)-1)] // all but the invalid one
		} else {
			c = zzSecond[zz.Choose("parent1.constraint", len(zzSecond))]
		}
		cs = append(cs, c)
		lock.Packages = append(lock.Packages, v1beta1.LockPackage{
			Name: "parent" + string(rune('0'+k)) + "-rev", Type: ptr.To(v1beta1.ProviderPackageType), Source: src, Version: "v1.0.0",
			Dependencies: []v1beta1.Dependency{{Package: zzDep, Type: ptr.To(v1beta1.ProviderPackageType), Constraints: c.text}},
		})
	}
	if nParents == 2 {
		zz.Cover("two-parents")
	}

	// the dependency as the lock knows it, and as it is installed: the
	// installed package may already be ahead of the lock (the lock follows
	// the active revision)
	locked := zzVersion("locked")
	installed := locked
	if zz.Bool("installedAheadOfLock") {
		installed = zzVersion("installed")
	}
	lock.Packages = append(lock.Packages, v1beta1.LockPackage{
		Name: "pkg-b-rev", Type: ptr.To(v1beta1.ProviderPackageType), Source: zzDep, Version: locked.tag,
	})
	s.Put(lock)
	p := &v1.Provider{ObjectMeta: metav1.ObjectMeta{Name: "org-pkg-b"}}
	p.Spec.Package = zzDep + ":" + installed.tag
	s.Put(p)
	before, _ := zzInstalled(s)

	r := zzReconciler(s, tags, true, downgrades)
	_, err := r.Reconcile(context.Background(), reconcile.Request{NamespacedName: types.NamespacedName{Name: lockName}})
	got, exists := zzInstalled(s)
	zz.Assert("installed-package-still-exists", exists)

	// reference
	digests := 0
	for _, c := range cs {
		if c.digest {
			digests++
		}
	}
	lockedOK := true
	for _, c := range cs {
		if c.digest {
			lockedOK = false // a release version never equals a digest
		} else {
			lockedOK = zz.And(lockedOK, c.sat(locked))
		}
	}
	if lockedOK {
		zz.Cover("untouched")
		zz.Assert("satisfied-dependency-not-touched", got == before)
		zz.Assert("satisfied-dependency-no-error", err == nil)
		return
	}
	if digests > 0 {
		zz.Cover("digest-parents")
		if digests == len(cs) && (len(cs) == 1 || cs[0].text == cs[1].text) {
			zz.Assert("all-parents-pin-the-digest-moves-to-it", err == nil && got == zzDep+"@"+zzDigest)
		} else {
			zz.Assert("conflicting-digest-parents-is-an-error", err != nil)
			zz.Assert("conflicting-digest-parents-leaves-the-package", got == before)
		}
		return
	}
	valid := func(v zzVer) bool {
		ok := true
		for _, c := range cs {
			ok = zz.And(ok, c.sat(v))
		}
		return ok
	}
	anyUp, anyDown := false, false
	for _, v := range vs {
		anyUp = zz.Or(anyUp, zz.And(valid(v), v.ge(installed.n)))
		anyDown = zz.Or(anyDown, zz.And(valid(v), v.lt(installed.n)))
	}
	if got == before {
		// either the installed version is itself the target, or nothing qualifies
		if err != nil {
			zz.Cover("no-valid-version")
			zz.Assert("fails-only-when-no-version-qualifies", zz.And(zz.Not(anyUp), zz.Or(zz.Not(downgrades), zz.Not(anyDown))))
			return
		}
		zz.Cover("stays-at-installed")
	}
	zz.Assert("moves-without-error", err == nil)
	isTag := false
	for i, v := range vs {
		chosen := got == zzDep+":"+v.tag
		isTag = zz.Or(isTag, chosen)
		zz.Assert("never-moves-to-a-violating-version", zz.Implies(chosen, valid(v)))
		// not older than the installed version, unless nothing newer qualifies and downgrades are allowed
		zz.Assert("moves-to-an-older-version-only-as-an-allowed-downgrade", zz.Implies(zz.And(chosen, v.lt(installed.n)), zz.And(downgrades, zz.Not(anyUp))))
		for j, o := range vs {
			if j == i {
				continue
			}
			// upgrade: the lowest not-older valid tag
			zz.Assert("upgrade-picks-the-lowest-not-older-version", zz.Implies(zz.And(chosen, zz.And(v.ge(installed.n), zz.And(valid(o), o.ge(installed.n)))), o.ge(v.n)))
			// downgrade: the highest older valid tag
			zz.Assert("downgrade-picks-the-highest-older-version", zz.Implies(zz.And(chosen, zz.And(v.lt(installed.n), valid(o))), v.ge(o.n)))
		}
	}
	zz.Assert("target-is-one-of-the-tags", isTag)
	zz.Observe("moved", got)
	for _, v := range vs {
		if got == zzDep+":"+v.tag {
			if v.lt(installed.n) {
				zz.Cover("downgraded")
			} else if got != before {
				zz.Cover("upgraded")
			}
			break
		}
	}
}

// HarnessC17UpgradeInvalidParent: with upgrades enabled, an installed
// dependency with two parents of which one declares a constraint that is
// neither a version range nor a digest. "Every parent's constraint" cannot be
// satisfied then: the dependency is not moved and the resolution does not
// report success, whatever the other parent's (valid) constraint says about
// the installed version.
//
//gosym:harness
//gosym:cover invalid-first invalid-second
func HarnessC17UpgradeInvalidParent() {
	s := zzStore()
	_, tags := zzTags(zz.Bound(2, 3), 0)
	valid := zzConstraints[zz.Choose("valid.constraint", 6)]
	bad := zzConstraints[len(zzConstraints)-1]
	cs := []zzConstraint{valid, bad}
	if zz.Bool("invalid.first") {
		zz.Cover("invalid-first")
		cs = []zzConstraint{bad, valid}
	} else {
		zz.Cover("invalid-second")
	}
	lock := &v1beta1.Lock{ObjectMeta: metav1.ObjectMeta{Name: lockName}}
	for k, src := range []string{zzParentA, zzParentC} {
		lock.Packages = append(lock.Packages, v1beta1.LockPackage{
			Name: "parent" + string(rune('0'+k)) + "-rev", Type: ptr.To(v1beta1.ProviderPackageType), Source: src, Version: "v1.0.0",
			Dependencies: []v1beta1.Dependency{{Package: zzDep, Type: ptr.To(v1beta1.ProviderPackageType), Constraints: cs[k].text}},
		})
	}
	locked := zzVersion("locked")
	lock.Packages = append(lock.Packages, v1beta1.LockPackage{
		Name: "pkg-b-rev", Type: ptr.To(v1beta1.ProviderPackageType), Source: zzDep, Version: locked.tag,
	})
	s.Put(lock)
	p := &v1.Provider{ObjectMeta: metav1.ObjectMeta{Name: "org-pkg-b"}}
	p.Spec.Package = zzDep + ":" + locked.tag
	s.Put(p)
	before, _ := zzInstalled(s)

	r := zzReconciler(s, tags, true, zz.Bool("downgradesEnabled"))
	_, err := r.Reconcile(context.Background(), reconcile.Request{NamespacedName: types.NamespacedName{Name: lockName}})
	got, exists := zzInstalled(s)
	zz.Assert("installed-package-still-exists", exists)
	zz.Assert("dependency-with-an-unparsable-parent-constraint-is-not-moved", got == before)
	stored := &v1beta1.Lock{}
	s.Peek("", lockName, stored)
	ok := stored.GetCondition(v1beta1.TypeResolved).Status == "True"
	zz.Assert("resolution-with-an-unparsable-parent-constraint-does-not-succeed", err != nil || !ok)
}
