//go:build verif

//gosym:package github.com/crossplane/crossplane/internal/controller/rbac/definition
//gosym:file zz_c18_xrdroles_verif.go

package definition

import (
	"context"
	"reflect"

	rbacv1 "k8s.io/api/rbac/v1"
	extv1 "k8s.io/apiextensions-apiserver/pkg/apis/apiextensions/v1"
	metav1 "k8s.io/apimachinery/pkg/apis/meta/v1"
	"k8s.io/apimachinery/pkg/runtime"
	"k8s.io/apimachinery/pkg/types"
	"k8s.io/utils/ptr"
	"sigs.k8s.io/controller-runtime/pkg/client"
	"sigs.k8s.io/controller-runtime/pkg/manager"
	"sigs.k8s.io/controller-runtime/pkg/reconcile"

	v1 "github.com/crossplane/crossplane/apis/apiextensions/v1"
	zz "github.com/crossplane/crossplane/internal/zzverif"
	"github.com/crossplane/crossplane/internal/zzverif/kube"
)

type zzMgr struct {
	manager.Manager
	c client.Client
}

func (m *zzMgr) GetClient() client.Client { return m.c }

const zzNameChars = "/*,: \t\n"

func zzXRDSym() (*v1.CompositeResourceDefinition, string, string, string, bool) {
	// API naming rules keep '/' and '*' out of groups and plural names
	group := zz.StrNo("xrd.group", zzNameChars)
	plural := zz.StrNo("xrd.plural", zzNameChars)
	claimPlural := zz.StrNo("xrd.claim.plural", zzNameChars)
	zz.Assume(group != "")
	zz.Assume(plural != "")
	zz.Assume(claimPlural != "")
	zz.Assume(claimPlural != plural)
	hasClaim := zz.Bool("xrd.offersClaim")
	d := &v1.CompositeResourceDefinition{ObjectMeta: metav1.ObjectMeta{Name: plural + "." + group, UID: "uid-xrd"}}
	d.Spec.Group = group
	d.Spec.Names = extv1.CustomResourceDefinitionNames{Kind: "XThing", Plural: plural}
	if hasClaim {
		d.Spec.ClaimNames = &extv1.CustomResourceDefinitionNames{Kind: "Thing", Plural: claimPlural}
	}
	return d, group, plural, claimPlural, hasClaim
}

func zzHas(l []string, s string) bool {
	for _, x := range l {
		if x == s {
			return true
		}
	}
	return false
}

// HarnessC18XRDRoles: the roles derived for an XRD grant access to exactly
// its composite and claim resources: every rule names the XRD's API group
// and only the plural names of its composite and (if offered) claim
// resources with the status and finalizers subresources; the view and
// browse roles grant no write verb; the claim appears only when the XRD
// offers one; every role is controlled by the XRD.
//
//gosym:harness
//gosym:cover with-claim without-claim
func HarnessC18XRDRoles() {
	d, group, plural, claimPlural, hasClaim := zzXRDSym()
	roles := RenderClusterRoles(d)
	zz.Assert("four-roles", len(roles) == 4)
	if hasClaim {
		zz.Cover("with-claim")
	} else {
		zz.Cover("without-claim")
	}
	names := map[string]bool{}
	for _, r := range roles {
		zz.Assert("role-names-distinct", !names[r.Name])
		names[r.Name] = true
		zz.Assert("role-controlled-by-the-xrd", len(r.OwnerReferences) == 1 && r.OwnerReferences[0].UID == "uid-xrd" && ptr.Deref(r.OwnerReferences[0].Controller, false))
		zz.Assert("role-aggregates-nothing-itself", r.AggregationRule == nil)
		readOnly := r.Labels[keyAggregateToView] == valTrue || r.Labels[keyAggregateToBrowse] == valTrue
		grantsXR, grantsClaim := false, false
		for _, rule := range r.Rules {
			zz.Assert("rule-names-only-the-xrd-group", len(rule.APIGroups) == 1 && rule.APIGroups[0] == group)
			zz.Assert("rule-has-no-non-resource-urls", len(rule.NonResourceURLs) == 0)
			for _, res := range rule.Resources {
				xr := res == plural || res == plural+"/status" || res == plural+"/finalizers"
				cl := res == claimPlural || res == claimPlural+"/status" || res == claimPlural+"/finalizers"
				zz.Assert("rule-names-only-the-xrd-resources", zz.Or(xr, zz.And(hasClaim, cl)))
				if res == plural {
					grantsXR = true
				}
				if res == claimPlural {
					grantsClaim = true
				}
			}
			if readOnly {
				for _, v := range rule.Verbs {
					zz.Assert("read-only-role-grants-no-write-verb", v == "get" || v == "list" || v == "watch")
				}
			}
		}
		zz.Assert("every-role-grants-the-composite-resource", grantsXR)
		if !hasClaim {
			zz.Assert("no-claim-access-without-claim-names", !grantsClaim)
		}
		if r.Labels[keyAggregateToSystem] == valTrue {
			zz.Assert("crossplane-can-reconcile-claims-it-offers", grantsClaim == hasClaim)
		}
	}
}

// HarnessC18XRDRolesReconcile: the XRD role reconciler writes exactly the
// rendered roles, leaves a role of the same name that another owner controls
// exactly as it was, and writes nothing for an XRD that is being deleted.
//
//gosym:harness
//gosym:cover applied foreign-role deleting role-up-to-date role-stale
func HarnessC18XRDRolesReconcile() {
	s := kube.New()
	s.Register(&v1.CompositeResourceDefinition{}, &v1.CompositeResourceDefinitionList{}, "apiextensions.crossplane.io", "CompositeResourceDefinition")
	s.Register(&rbacv1.ClusterRole{}, &rbacv1.ClusterRoleList{}, "rbac.authorization.k8s.io", "ClusterRole")

	d := &v1.CompositeResourceDefinition{ObjectMeta: metav1.ObjectMeta{Name: "xthings.example.org", UID: "uid-xrd"}}
	d.Spec.Group = "example.org"
	d.Spec.Names = extv1.CustomResourceDefinitionNames{Kind: "XThing", Plural: "xthings"}
	if zz.Bool("xrd.offersClaim") {
		d.Spec.ClaimNames = &extv1.CustomResourceDefinitionNames{Kind: "Thing", Plural: "things"}
	}
	deleting := zz.Bool("xrd.deleting")
	if deleting {
		now := metav1.Now()
		d.DeletionTimestamp = &now
		d.Finalizers = []string{"keep"}
	}
	s.Put(d)
	want := RenderClusterRoles(d)

	// one of the role names may already be taken by a role somebody else controls
	taken := zz.Choose("foreign.role", len(want)+1) - 1
	foreign := zz.Str("foreign.uid")
	zz.Assume(foreign != "uid-xrd")
	zz.Assume(foreign != "")
	var before map[string]any
	if taken >= 0 {
		zz.Cover("foreign-role")
		fr := &rbacv1.ClusterRole{ObjectMeta: metav1.ObjectMeta{Name: want[taken].Name}}
		fr.OwnerReferences = []metav1.OwnerReference{{APIVersion: "v1", Kind: "Other", Name: zz.Str("foreign.owner.name"), UID: types.UID(foreign), Controller: ptr.To(true)}}
		fr.Rules = []rbacv1.PolicyRule{{APIGroups: []string{"other.org"}, Resources: []string{"others"}, Verbs: []string{"get"}}}
		s.Put(fr)
		before = runtime.DeepCopyJSON(s.Doc("rbac.authorization.k8s.io", "ClusterRole", "", want[taken].Name))
	}
	s.FaultAt = zz.Choose("fault.at", 8) - 1
	s.FaultKind = 1 + zz.Choose("fault.kind", 2)
	if s.FaultAt < 0 && taken < 0 && !deleting {
		// the roles from an earlier reconcile: each absent, up to date, or
		// stale (ours, with rules the XRD no longer renders)
		for i := range want {
			switch zz.Choose("role"+string(rune('0'+i))+".pre", 3) {
			case 1:
				zz.Cover("role-up-to-date")
				s.Put(want[i].DeepCopy())
			case 2:
				zz.Cover("role-stale")
				st := want[i].DeepCopy()
				st.Rules = append(st.Rules, rbacv1.PolicyRule{APIGroups: []string{""}, Resources: []string{"secrets"}, Verbs: []string{"*"}})
				s.Put(st)
			}
		}
	}

	r := NewReconciler(&zzMgr{c: s})
	_, err := r.Reconcile(context.Background(), reconcile.Request{NamespacedName: types.NamespacedName{Name: d.Name}})

	if taken >= 0 {
		zz.Assert("foreign-role-left-exactly-as-it-was", reflect.DeepEqual(before, s.Doc("rbac.authorization.k8s.io", "ClusterRole", "", want[taken].Name)))
		if !deleting {
			// ... and the conflict is not swallowed
			zz.Assert("conflict-with-foreign-owner-surfaces", err != nil)
		}
	}
	if deleting {
		zz.Cover("deleting")
		zz.Assert("deleting-xrd-writes-no-role", s.Count("rbac.authorization.k8s.io", "ClusterRole") == map[bool]int{true: 1, false: 0}[taken >= 0])
		return
	}
	// every stored role we control is one of the rendered roles, with the rendered rules
	for _, w := range want {
		got := &rbacv1.ClusterRole{}
		if !s.Peek("", w.Name, got) {
			zz.Assert("missing-role-only-after-an-error", err != nil)
			continue
		}
		if err == nil && taken < 0 {
			// a reconcile that reports success has brought every role up to date
			zz.Assert("successful-reconcile-leaves-every-role-with-the-rendered-rules", reflect.DeepEqual(got.Rules, w.Rules))
		}
		if len(got.OwnerReferences) == 1 && got.OwnerReferences[0].UID == "uid-xrd" {
			zz.Cover("applied")
			zz.Assert("applied-role-has-the-rendered-rules", reflect.DeepEqual(got.Rules, w.Rules))
		}
	}
	zz.Assert("no-role-beyond-the-rendered-names", s.Count("rbac.authorization.k8s.io", "ClusterRole") <= len(want))
}
