//go:build verif

//gosym:package github.com/crossplane/crossplane/internal/controller/rbac/provider/roles
//gosym:file zz_c18_reconcile_verif.go

package roles

import (
	"context"
	"reflect"

	rbacv1 "k8s.io/api/rbac/v1"
	metav1 "k8s.io/apimachinery/pkg/apis/meta/v1"
	"k8s.io/apimachinery/pkg/runtime"
	"k8s.io/apimachinery/pkg/types"
	"k8s.io/utils/ptr"
	"sigs.k8s.io/controller-runtime/pkg/client"
	"sigs.k8s.io/controller-runtime/pkg/manager"
	"sigs.k8s.io/controller-runtime/pkg/reconcile"

	xpv1 "github.com/crossplane/crossplane-runtime/apis/common/v1"

	v1 "github.com/crossplane/crossplane/apis/pkg/v1"
	zz "github.com/crossplane/crossplane/internal/zzverif"
	"github.com/crossplane/crossplane/internal/zzverif/kube"
)

type zzMgr struct {
	manager.Manager
	c client.Client
}

func (m *zzMgr) GetClient() client.Client { return m.c }

const (
	zzPRName = "provider-x-rev1"
	zzPRUID  = "uid-pr"
	zzFamily = "family-x"
)

var zzPackages = []string{
	"xpkg.example.org/acme/provider-x:v1",
	"xpkg.example.org/acme/provider-y:v1",         // same registry, same org
	"xpkg.example.org/other/provider-y:v1",        // other org
	"registry.other.io/acme/provider-y:v1",        // other registry
	"xpkg.example.org/acme-corp/provider-y:v1",    // an org that has ours as a prefix
	"xpkg.example.org/acm/provider-y:v1",          // an org that is a prefix of ours
	"xpkg.example.org.evil.io/acme/provider-y:v1", // a registry that has ours as a prefix
}

func zzCRDRef(name string) xpv1.TypedReference {
	return xpv1.TypedReference{APIVersion: "apiextensions.k8s.io/v1", Kind: "CustomResourceDefinition", Name: name}
}

// HarnessC18Reconcile: the roles the RBAC manager writes for a provider
// revision. If any requested permission is not covered by the allow list no
// ClusterRole at all is written; otherwise the system role names only the
// revision's own CRDs, CRDs of same-family revisions from the same registry
// and organisation, finalizers in those groups, the fixed baseline and the
// requests. A role another owner controls is left untouched.
//
//gosym:harness
//gosym:cover rejected granted family-same-org family-other-org foreign-role allow-list-missing member-of-another-family
func HarnessC18Reconcile() {
	s := kube.New()
	s.Register(&v1.ProviderRevision{}, &v1.ProviderRevisionList{}, "pkg.crossplane.io", "ProviderRevision")
	s.Register(&rbacv1.ClusterRole{}, &rbacv1.ClusterRoleList{}, "rbac.authorization.k8s.io", "ClusterRole")

	// the revision under reconcile owns one CRD <plural>.<group>
	// (concrete names: RenderClusterRoles sorts resources by string order,
	// which the solver does not decide for symbolic concatenations in
	// reasonable time - the symbolic strings of this harness are the
	// request and the allow list)
	plural, group := "things", "example.org"
	pr := &v1.ProviderRevision{ObjectMeta: metav1.ObjectMeta{Name: zzPRName, UID: zzPRUID}}
	pr.Spec.Package = zzPackages[0]
	pr.Status.ObjectRefs = []xpv1.TypedReference{
		zzCRDRef(plural + "." + group),
		{APIVersion: "apps/v1", Kind: "Deployment", Name: "not.a.crd"},
		// objects that are not CRDs although their kind, or their group, says so
		{APIVersion: "example.net/v1", Kind: "CustomResourceDefinition", Name: "vaults.secrets.example.net"},
		{APIVersion: "apiextensions.k8s.io/v1", Kind: "ConversionReview", Name: "deployments.apps"},
	}
	inFamily := zz.Bool("own.inFamily")
	if inFamily {
		pr.Labels = map[string]string{v1.LabelProviderFamily: zzFamily}
	}
	// an extra permission request
	reqGroup, reqRes := zz.Str("request.group"), zz.Str("request.resource")
	hasReq := zz.Bool("request.present")
	if hasReq {
		pr.Status.PermissionRequests = []rbacv1.PolicyRule{{APIGroups: []string{reqGroup}, Resources: []string{reqRes}, Verbs: []string{"get"}}}
	}
	s.Put(pr)

	// another revision claiming to be in the same family
	mPkg := zz.Choose("member.package", len(zzPackages)-1) + 1
	member := &v1.ProviderRevision{ObjectMeta: metav1.ObjectMeta{Name: "provider-y-rev1", UID: "uid-member"}}
	member.Spec.Package = zzPackages[mPkg]
	member.Status.ObjectRefs = []xpv1.TypedReference{zzCRDRef("widgets.member.example.org")}
	memberFamily := zz.Choose("member.family", 3) // no family label, ours, another family
	memberInFamily := memberFamily == 1
	switch memberFamily {
	case 1:
		member.Labels = map[string]string{v1.LabelProviderFamily: zzFamily}
	case 2:
		member.Labels = map[string]string{v1.LabelProviderFamily: zzFamily + "-other"}
		zz.Cover("member-of-another-family")
	}
	s.Put(member)

	// the administrator's allow list
	allowGroup, allowRes := zz.Str("allow.group"), zz.Str("allow.resource")
	allow := &rbacv1.ClusterRole{ObjectMeta: metav1.ObjectMeta{Name: "allowed"}}
	allow.Rules = []rbacv1.PolicyRule{{APIGroups: []string{allowGroup}, Resources: []string{allowRes}, Verbs: []string{"*"}}}
	// the configured allow-list role may be missing (deleted, not yet created)
	allowExists := zz.Bool("allow.role.exists")
	if allowExists {
		s.Put(allow)
	}

	// the system role may pre-exist, controlled by someone else
	foreign := zz.Str("foreign.uid")
	zz.Assume(foreign != zzPRUID)
	zz.Assume(foreign != "")
	sysName := SystemClusterRoleName(zzPRName)
	preRole := zz.Choose("systemrole.pre", 3) // absent, ours, foreign
	if preRole != 0 {
		r := &rbacv1.ClusterRole{ObjectMeta: metav1.ObjectMeta{Name: sysName}}
		uid := zzPRUID
		if preRole == 2 {
			uid = foreign
		}
		r.OwnerReferences = []metav1.OwnerReference{{APIVersion: "pkg.crossplane.io/v1", Kind: "ProviderRevision", Name: "x", UID: types.UID(uid), Controller: ptr.To(true)}}
		r.Rules = []rbacv1.PolicyRule{{APIGroups: []string{"stale"}, Resources: []string{"stale"}, Verbs: []string{"get"}}}
		s.Put(r)
	}
	var roleBefore map[string]any
	if preRole == 2 {
		roleBefore = runtime.DeepCopyJSON(s.Doc("rbac.authorization.k8s.io", "ClusterRole", "", sysName))
	}

	r := NewReconciler(&zzMgr{c: s},
		WithPermissionRequestsValidator(NewClusterRoleBackedValidator(s, "allowed")),
		WithOrgDiffer(OrgDiffer{}))
	_, err := r.Reconcile(context.Background(), reconcile.Request{NamespacedName: types.NamespacedName{Name: zzPRName}})

	covered := !hasReq || zz.And(allowExists, zz.And(zz.Or(allowGroup == reqGroup, allowGroup == "*"), zz.Or(allowRes == reqRes, allowRes == "*")))
	if !allowExists && hasReq {
		zz.Cover("allow-list-missing")
	}
	roleWrites := 0
	for _, w := range s.Writes(false) {
		if w.Kind == "ClusterRole" {
			roleWrites++
		}
	}
	if !covered {
		zz.Cover("rejected")
		zz.Assert("uncovered-request-means-no-role-at-all", roleWrites == 0)
		return
	}
	if !allowExists {
		// nothing is requested, yet the validator cannot read its allow list:
		// whether that is an error is not the property's business
		return
	}
	if preRole == 2 {
		zz.Cover("foreign-role")
		zz.Assert("foreign-role-conflict-surfaces", err != nil)
		zz.Assert("foreign-role-left-untouched", reflect.DeepEqual(roleBefore, s.Doc("rbac.authorization.k8s.io", "ClusterRole", "", sysName)))
		return
	}
	if err != nil {
		zz.Observe("err", err.Error())
	}
	zz.Assert("reconcile-no-error", err == nil)
	zz.Cover("granted")
	sys := &rbacv1.ClusterRole{}
	zz.Assert("system-role-exists", s.Peek("", sysName, sys))
	zz.Assert("system-role-controlled-by-revision", kube.ControllerUID(s.Doc("rbac.authorization.k8s.io", "ClusterRole", "", sysName)) == zzPRUID)

	sameOrg := mPkg == 1
	memberCounts := inFamily && memberInFamily && sameOrg
	if inFamily && memberInFamily {
		if sameOrg {
			zz.Cover("family-same-org")
		} else {
			zz.Cover("family-other-org")
		}
	}
	for _, rule := range sys.Rules {
		for _, g := range rule.APIGroups {
			isOwn := g == group
			isMember := g == "member.example.org"
			isBaseline := g == "" || g == "coordination.k8s.io"
			isRequest := hasReq && g == reqGroup
			zz.Assert("system-role-names-only-allowed-groups", zz.Or(isOwn, zz.And(isMember, memberCounts), isBaseline, isRequest))
			if isMember && !isRequest && !isOwn {
				zz.Assert("nothing-from-a-family-member-of-another-org", memberCounts)
			}
		}
		for _, g := range rule.APIGroups {
			if g == group || g == "member.example.org" || g == "" || g == "coordination.k8s.io" {
				continue
			}
			// only the request can have brought this group in: it is granted as it
			// was put to the allow list, with the requested verbs and no others
			zz.Assert("request-granted-with-the-requested-verbs-only", len(rule.Verbs) == 1 && rule.Verbs[0] == "get")
		}
		for _, g := range rule.APIGroups {
			if g != group {
				continue
			}
			for _, res := range rule.Resources {
				if hasReq && g == reqGroup && res == reqRes {
					continue
				}
				zz.Assert("own-group-rules-name-only-own-resources", zz.Or(res == plural, res == plural+"/status", res == "*/finalizers",
					zz.And(g == "", zz.Or(res == "secrets", res == "configmaps", res == "events", res == "leases")),
					zz.And(g == "coordination.k8s.io", zz.Or(res == "secrets", res == "configmaps", res == "events", res == "leases"))))
			}
		}
	}
	if memberCounts {
		found := false
		for _, rule := range sys.Rules {
			for _, g := range rule.APIGroups {
				if g == "member.example.org" {
					found = true
				}
			}
		}
		zz.Note("same-org-family-member-resources-granted", found)
	}
	zz.Observe("rules", len(sys.Rules))
}
