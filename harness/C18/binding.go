//go:build verif

//gosym:package github.com/crossplane/crossplane/internal/controller/rbac/provider/binding
//gosym:file zz_c18_binding_verif.go

package binding

import (
	"context"
	"reflect"

	appsv1 "k8s.io/api/apps/v1"
	rbacv1 "k8s.io/api/rbac/v1"
	metav1 "k8s.io/apimachinery/pkg/apis/meta/v1"
	"k8s.io/apimachinery/pkg/runtime"
	"k8s.io/apimachinery/pkg/types"
	"k8s.io/utils/ptr"
	"sigs.k8s.io/controller-runtime/pkg/client"
	"sigs.k8s.io/controller-runtime/pkg/manager"
	"sigs.k8s.io/controller-runtime/pkg/reconcile"

	v1 "github.com/crossplane/crossplane/apis/pkg/v1"
	"github.com/crossplane/crossplane/internal/controller/rbac/provider/roles"
	zz "github.com/crossplane/crossplane/internal/zzverif"
	"github.com/crossplane/crossplane/internal/zzverif/kube"
)

type zzMgr struct {
	manager.Manager
	c client.Client
}

func (m *zzMgr) GetClient() client.Client { return m.c }

// HarnessC18Binding: the binding a provider revision gets refers to that
// revision's own system role and names only service accounts of deployments
// the revision itself owns; a binding of that name controlled by another
// owner is left exactly as it was.
//
//gosym:harness
//gosym:cover bound foreign-binding foreign-deployment-ignored no-deployment
func HarnessC18Binding() {
	s := kube.New()
	s.Register(&v1.ProviderRevision{}, &v1.ProviderRevisionList{}, "pkg.crossplane.io", "ProviderRevision")
	s.Register(&appsv1.Deployment{}, &appsv1.DeploymentList{}, "apps", "Deployment")
	s.Register(&rbacv1.ClusterRoleBinding{}, &rbacv1.ClusterRoleBindingList{}, "rbac.authorization.k8s.io", "ClusterRoleBinding")

	pr := &v1.ProviderRevision{ObjectMeta: metav1.ObjectMeta{Name: "provider-x-rev1", UID: "uid-pr"}}
	s.Put(pr)
	foreign := zz.Str("foreign.uid")
	zz.Assume(foreign != "uid-pr")
	zz.Assume(foreign != "")

	const n = 2
	owner := make([]int, n) // ours, foreign, nobody
	sa := make([]string, n)
	ours := 0
	for i := 0; i < n; i++ {
		id := string(rune('0' + i))
		owner[i] = zz.Choose("deployment"+id+".owner", 3)
		sa[i] = zz.Str("deployment" + id + ".serviceAccount")
		d := &appsv1.Deployment{ObjectMeta: metav1.ObjectMeta{Namespace: "crossplane-system", Name: "dep" + id}}
		d.Spec.Template.Spec.ServiceAccountName = sa[i]
		switch owner[i] {
		case 0:
			ours++
			d.OwnerReferences = []metav1.OwnerReference{{APIVersion: "pkg.crossplane.io/v1", Kind: "ProviderRevision", Name: pr.Name, UID: "uid-pr", Controller: ptr.To(true)}}
		case 1:
			// another revision, possibly of the same name
			zz.Cover("foreign-deployment-ignored")
			d.OwnerReferences = []metav1.OwnerReference{{APIVersion: "pkg.crossplane.io/v1", Kind: "ProviderRevision", Name: zz.Str("foreign.owner.name"), UID: types.UID(foreign), Controller: ptr.To(true)}}
		}
		s.Put(d)
	}
	if ours == 0 {
		zz.Cover("no-deployment")
	}

	name := roles.SystemClusterRoleName(pr.GetName())
	existing := zz.Choose("binding", 3) // absent, ours, controlled by another owner
	var before map[string]any
	if existing > 0 {
		rb := &rbacv1.ClusterRoleBinding{ObjectMeta: metav1.ObjectMeta{Name: name}}
		rb.RoleRef = rbacv1.RoleRef{APIGroup: rbacv1.GroupName, Kind: "ClusterRole", Name: "something-else"}
		rb.Subjects = []rbacv1.Subject{{Kind: rbacv1.ServiceAccountKind, Namespace: "other", Name: "other"}}
		uid := types.UID("uid-pr")
		if existing == 2 {
			uid = types.UID(foreign)
			zz.Cover("foreign-binding")
		}
		rb.OwnerReferences = []metav1.OwnerReference{{APIVersion: "pkg.crossplane.io/v1", Kind: "ProviderRevision", Name: pr.Name, UID: uid, Controller: ptr.To(true)}}
		s.Put(rb)
		before = runtime.DeepCopyJSON(s.Doc("rbac.authorization.k8s.io", "ClusterRoleBinding", "", name))
	}

	s.FaultAt = zz.Choose("fault.at", 5) - 1
	s.FaultKind = 1 + zz.Choose("fault.kind", 2)
	r := NewReconciler(&zzMgr{c: s})
	_, err := r.Reconcile(context.Background(), reconcile.Request{NamespacedName: types.NamespacedName{Name: pr.Name}})

	if existing == 2 {
		zz.Assert("foreign-binding-left-exactly-as-it-was", reflect.DeepEqual(before, s.Doc("rbac.authorization.k8s.io", "ClusterRoleBinding", "", name)))
		return
	}
	got := &rbacv1.ClusterRoleBinding{}
	if !s.Peek("", name, got) {
		zz.Assert("no-binding-only-after-an-error", err != nil)
		return
	}
	if existing == 1 && reflect.DeepEqual(before, s.Doc("rbac.authorization.k8s.io", "ClusterRoleBinding", "", name)) {
		// not rewritten (an error before the write)
		zz.Assert("stale-binding-only-after-an-error", err != nil)
		return
	}
	zz.Cover("bound")
	zz.Assert("binding-refers-to-the-revisions-own-system-role", got.RoleRef.Kind == "ClusterRole" && got.RoleRef.Name == name && got.RoleRef.APIGroup == rbacv1.GroupName)
	zz.Assert("binding-controlled-by-the-revision", len(got.OwnerReferences) == 1 && got.OwnerReferences[0].UID == "uid-pr")
	zz.Assert("one-subject-per-owned-deployment", len(got.Subjects) == ours)
	for _, sub := range got.Subjects {
		okSub := false
		for i := 0; i < n; i++ {
			if owner[i] == 0 {
				okSub = zz.Or(okSub, zz.And(sub.Name == sa[i], sub.Namespace == "crossplane-system"))
			}
		}
		zz.Assert("subject-is-a-service-account-of-an-owned-deployment", zz.And(okSub, sub.Kind == rbacv1.ServiceAccountKind))
	}
}
