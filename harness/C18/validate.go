//go:build verif

//gosym:package github.com/crossplane/crossplane/internal/controller/rbac/provider/roles
//gosym:file zz_c18_validate_verif.go

package roles

import (
	"context"

	rbacv1 "k8s.io/api/rbac/v1"
	"sigs.k8s.io/controller-runtime/pkg/client"

	zz "github.com/crossplane/crossplane/internal/zzverif"
)

// zzRoleGetter is the environment: an API server that holds exactly one
// ClusterRole, the administrator's allow list.
type zzRoleGetter struct {
	client.Client
	rules []rbacv1.PolicyRule
}

func (g *zzRoleGetter) Get(_ context.Context, _ client.ObjectKey, obj client.Object, _ ...client.GetOption) error {
	obj.(*rbacv1.ClusterRole).Rules = g.rules
	return nil
}

func zzStrList(name string, max int) []string {
	n := zz.Choose(name+".len", max+1)
	out := make([]string, 0, n)
	for i := 0; i < n; i++ {
		out = append(out, zz.Str(name+"."+string(rune('a'+i))))
	}
	return out
}

func zzPolicyRule(name string, max int, urls bool) rbacv1.PolicyRule {
	r := rbacv1.PolicyRule{
		Verbs: zzStrList(name+".verbs", max),
	}
	if urls && zz.Bool(name+".isURL") {
		r.NonResourceURLs = zzStrList(name+".urls", max)
		return r
	}
	r.APIGroups = zzStrList(name+".groups", max)
	r.Resources = zzStrList(name+".resources", max)
	r.ResourceNames = zzStrList(name+".names", max)
	return r
}

// zzIn reports whether x, or the wildcard, is an element of l.
func zzIn(x string, l []string) bool {
	c := false
	for _, e := range l {
		c = zz.Or(c, e == x, e == "*")
	}
	return c
}

// zzCovered is the reference semantics of RBAC rule coverage (after
// k8s.io/kubernetes rbac validation.Covers, with Crossplane's convention
// that no resource names means all names): a single granular request is
// covered if some single allow-list rule contains its group, resource, name
// and verb (or wildcards), or its URL and verb.
func zzCovered(allow []rbacv1.PolicyRule, group, resource, name, url, verb string, isURL bool) bool {
	c := false
	for _, a := range allow {
		if isURL {
			c = zz.Or(c, zz.And(zzIn(url, a.NonResourceURLs), zzIn(verb, a.Verbs)))
			continue
		}
		names := zz.Or(len(a.ResourceNames) == 0, zzIn(name, a.ResourceNames))
		c = zz.Or(c, zz.And(zzIn(group, a.APIGroups), zzIn(resource, a.Resources), names, zzIn(verb, a.Verbs)))
	}
	return c
}

// zzShapedRule builds a PolicyRule whose list lengths are chosen by the
// solver within [lo,hi] for the focus dimension and within [1,1] (names:
// [0,1]) elsewhere; every element is an unconstrained symbolic string.
func zzShapedRule(name string, focus, lo, hi int, isURL bool) rbacv1.PolicyRule {
	dim := func(d int, what string, min int) []string {
		l, h := min, 1
		if d == focus {
			l, h = lo, hi
		}
		n := l + zz.Choose(name+"."+what+".len", h-l+1)
		out := make([]string, 0, n)
		for i := 0; i < n; i++ {
			out = append(out, zz.Str(name+"."+what+"."+string(rune('a'+i))))
		}
		return out
	}
	r := rbacv1.PolicyRule{Verbs: dim(0, "verbs", 1)}
	if isURL {
		r.NonResourceURLs = dim(1, "urls", 1)
		for _, u := range r.NonResourceURLs {
			// the API server only admits non-empty non-resource URLs
			zz.Assume(u != "")
		}
		return r
	}
	r.APIGroups = dim(1, "groups", 1)
	r.Resources = dim(2, "resources", 1)
	r.ResourceNames = dim(3, "names", 0)
	return r
}

// HarnessC18Validate: for every allow list and every request list within the
// bound, ValidatePermissionRequests rejects nothing only if every single
// granular requested rule is covered by the allow list.
//
//gosym:harness
//gosym:cover some-granular-request accepted-nonempty rejected
func HarnessC18Validate() {
	nAllow := zz.Bound(1, 2)
	nReq := zz.Bound(1, 1)
	hi := zz.Bound(2, 2)

	// One list dimension (verbs, groups/urls, resources, names) at a time has
	// solver-chosen length 0..hi on the allow side and 1..hi on the request
	// side; the other dimensions have one element (names: none or one).
	focus := zz.Choose("focus", 4)
	reqIsURL := zz.Bool("req.isURL")
	if reqIsURL && focus > 1 {
		return // URL rules only have verbs and urls
	}

	allow := make([]rbacv1.PolicyRule, 0, nAllow)
	for i := 0; i < nAllow; i++ {
		n := "allow" + string(rune('0'+i))
		lo, h := 0, hi
		if i > 0 {
			lo, h = 1, 1 // a second allow rule (thorough tier) has one element per list
		}
		allow = append(allow, zzShapedRule(n, focus, lo, h, zz.Bool(n+".isURL")))
	}
	reqs := make([]rbacv1.PolicyRule, 0, nReq)
	for i := 0; i < nReq; i++ {
		n := "req" + string(rune('0'+i))
		reqs = append(reqs, zzShapedRule(n, focus, 1, hi, reqIsURL))
	}

	v := NewClusterRoleBackedValidator(&zzRoleGetter{rules: allow}, "allowed")
	rejected, err := v.ValidatePermissionRequests(context.Background(), reqs...)
	zz.Assert("validate-no-error", err == nil)

	// Reference expansion of the requests, independent of Expand.
	allCovered := true
	total := 0
	for _, r := range reqs {
		for _, verb := range r.Verbs {
			for _, u := range r.NonResourceURLs {
				total++
				allCovered = zz.And(allCovered, zzCovered(allow, "", "", "", u, verb, true))
			}
			names := r.ResourceNames
			if len(names) == 0 {
				names = []string{"*"}
			}
			for _, g := range r.APIGroups {
				for _, rs := range r.Resources {
					for _, n := range names {
						total++
						allCovered = zz.And(allCovered, zzCovered(allow, g, rs, n, "", verb, false))
					}
				}
			}
		}
	}
	if total > 0 {
		zz.Cover("some-granular-request")
	}
	zz.Observe("rejected", len(rejected), total)
	if len(rejected) == 0 {
		if total > 0 {
			zz.Cover("accepted-nonempty")
		}
		// Safety (C18): nothing rejected => every granular request is covered
		// by a single allow-list rule.
		zz.Assert("accepted-implies-covered", allCovered)
	} else {
		zz.Cover("rejected")
		// Completeness (guards the check against a reject-everything
		// implementation; reported under its own label).
		zz.Note("rejected-implies-uncovered", zz.Not(allCovered))
	}
}

// HarnessC18ValidateRuleOrder: the verdict on a request does not depend on
// the other rules around it. Two request rules (and two allow rules) that
// differ only in their resourceNames lists - none (all names), one or two
// names - in either order; verb, group and resource are one shared symbolic
// string each.
//
//gosym:harness
//gosym:cover two-rules-accepted two-rules-rejected
func HarnessC18ValidateRuleOrder() {
	// verb, group and resource are shared by all rules (one symbolic string
	// each, or the wildcard on the allow side); only the name lists vary
	verb, group, res := zz.Str("verb"), zz.Str("group"), zz.Str("resource")
	mk := func(name string) rbacv1.PolicyRule {
		r := rbacv1.PolicyRule{Verbs: []string{verb}, APIGroups: []string{group}, Resources: []string{res}}
		n := zz.Choose(name+".names", 3)
		for i := 0; i < n; i++ {
			r.ResourceNames = append(r.ResourceNames, zz.Str(name+".name"+string(rune('0'+i))))
		}
		return r
	}
	allow := []rbacv1.PolicyRule{mk("allow0")}
	if zz.Bool("allow.two") {
		allow = append(allow, mk("allow1"))
	}
	reqs := []rbacv1.PolicyRule{mk("req0"), mk("req1")}

	v := NewClusterRoleBackedValidator(&zzRoleGetter{rules: allow}, "allowed")
	rejected, err := v.ValidatePermissionRequests(context.Background(), reqs...)
	zz.Assert("validate-no-error", err == nil)

	allCovered := true
	for _, r := range reqs {
		names := r.ResourceNames
		if len(names) == 0 {
			names = []string{"*"}
		}
		for _, n := range names {
			allCovered = zz.And(allCovered, zzCovered(allow, r.APIGroups[0], r.Resources[0], n, "", r.Verbs[0], false))
		}
	}
	if len(rejected) == 0 {
		zz.Cover("two-rules-accepted")
		zz.Assert("accepted-implies-covered", allCovered)
	} else {
		zz.Cover("two-rules-rejected")
		zz.Note("rejected-implies-uncovered", zz.Not(allCovered))
	}
	zz.Observe("rejected", len(rejected))
}

// HarnessC18ValidateSubresources: allow-list and request resources taken from
// a concrete list of the shapes Kubernetes knows - a resource, a resource's
// subresource, every resource's subresource, everything - and shapes it gives
// no meaning ("pods/*"). Nothing rejected means covered in the Kubernetes
// sense: `*` covers all, `*/sub` covers that subresource of any resource,
// anything else covers itself only. (Concrete strings: the code under test
// may scan them with functions the engine does not model symbolically.)
//
//gosym:harness
//gosym:cover accepted rejected
func HarnessC18ValidateSubresources() {
	shapes := []string{"pods", "pods/exec", "pods/status", "pods/*", "*/exec", "*", "deployments/exec"}
	allowRes := shapes[zz.Choose("allow.resource", len(shapes))]
	reqRes := shapes[zz.Choose("request.resource", len(shapes))]
	allow := []rbacv1.PolicyRule{{APIGroups: []string{""}, Resources: []string{allowRes}, Verbs: []string{"get"}}}
	if zz.Bool("allow.secondRule") {
		allow = append(allow, rbacv1.PolicyRule{NonResourceURLs: []string{"/apis/*", "/healthz"}, Verbs: []string{"get"}})
	}
	reqs := []rbacv1.PolicyRule{{APIGroups: []string{""}, Resources: []string{reqRes}, Verbs: []string{"get"}}}
	v := NewClusterRoleBackedValidator(&zzRoleGetter{rules: allow}, "allowed")
	rejected, err := v.ValidatePermissionRequests(context.Background(), reqs...)
	zz.Assert("validate-no-error", err == nil)
	covered := allowRes == "*" || allowRes == reqRes
	if !covered && len(allowRes) > 2 && allowRes[:2] == "*/" {
		// */sub covers <any resource>/sub
		sub := allowRes[1:]
		covered = len(reqRes) > len(sub) && reqRes[len(reqRes)-len(sub):] == sub
	}
	if len(rejected) == 0 {
		zz.Cover("accepted")
		zz.Assert("accepted-implies-covered-in-the-kubernetes-sense", covered)
	} else {
		zz.Cover("rejected")
	}
}
